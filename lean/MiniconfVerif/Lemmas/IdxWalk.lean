import MiniconfVerif.Lemmas.Enum
import MiniconfVerif.Model.Transcode
import MiniconfVerif.Model.Hyp

/-! `traverse_by_key` driven by a list of in-range-or-not indices (the `NodeIter` state
wrapped in the always-finalizing `Consume`, or a plain `KeysIter` of integers) as a pure
recursion over the index list. -/
namespace MiniconfVerif
set_option autoImplicit false

/-- argument handed to the traversal callback when child `i` of this node is taken -/
def Schema.cbArg : Schema → Nat → CbArg
  | .node lk _, i => ⟨i, lk.name? i, lk.len⟩
  | .array n _, i => ⟨i, none, n⟩
  | .leaf, i => ⟨i, none, 0⟩

def Schema.isLeaf : Schema → Bool
  | .leaf => true
  | _ => false

/-- integer keys of an index list -/
def intKeys (st : List Nat) : List Key := st.map fun (i : Nat) => Key.int (Int.ofNat i)

/-- what `traverse` does on an index list; `fin` tells whether surplus keys at a leaf are an
error (`KeysIter`: `TooLong`) or ignored (`Consume`) -/
def idxWalk {σ : Type} (cb : σ → CbArg → Option σ) (strict : Bool) : Schema → List Nat → σ → Res × σ
  | t, ks, st =>
    if t.isLeaf then
      (if strict && !ks.isEmpty then (.trav (.tooLong 0), st) else (.ok 0, st))
    else
      match ks with
      | [] => (.trav (.tooShort 0), st)
      | i :: rest =>
        if i < t.arity then
          match cb st (t.cbArg i) with
          | none => (.inner 1, st)
          | some st' =>
            let r := idxWalk cb strict ((t.kids[i]?).getD .leaf) rest st'
            (r.1.incr, r.2)
        else (.trav (.notFound 1), st)

/-- every node has at most 2^64 children (indices are `usize`) -/
def Schema.Small (s : Schema) : Prop := ∀ q t, s.at? q = some t → t.arity ≤ 2 ^ 64

theorem at?_append (s : Schema) (q1 q2 : List Nat) :
    s.at? (q1 ++ q2) = match s.at? q1 with | some t => t.at? q2 | none => none := by
  induction q1 generalizing s with
  | nil => simp [Schema.at?]
  | cons i q1 ih =>
    simp only [List.cons_append, Schema.at?]
    cases s.child? i with
    | none => rfl
    | some c => exact ih c

theorem small_at? (s t : Schema) (q : List Nat) (h : s.Small) (ht : s.at? q = some t) : t.Small := by
  intro q2 t2 h2
  apply h (q ++ q2) t2
  rw [at?_append, ht]; exact h2

theorem small_kid (t c : Schema) (i : Nat) (h : t.Small) (hc : t.kids[i]? = some c) : c.Small :=
  small_at? t c [i] h (by simp [Schema.at?, child?_eq_kids, hc])

theorem wf_at? (s t : Schema) (q : List Nat) (h : s.WF) (ht : s.at? q = some t) : t.WF := by
  induction q generalizing s with
  | nil => simp only [Schema.at?] at ht; cases ht; exact h
  | cons i q ih =>
    simp only [Schema.at?] at ht
    cases hc : s.child? i with
    | none => simp [hc] at ht
    | some c =>
      simp only [hc] at ht
      rw [child?_eq_kids] at hc
      exact ih c (wf_kids s h c (List.mem_of_getElem? hc)) ht

theorem smallB_go_mem : ∀ (cs : List Schema), Schema.smallB.go cs = true → ∀ c ∈ cs, c.smallB = true
  | [], _, _, h => by simp at h
  | c0 :: cs, h, c, hc => by
    simp only [Schema.smallB.go, Bool.and_eq_true] at h
    simp only [List.mem_cons] at hc
    rcases hc with rfl | hc
    · exact h.1
    · exact smallB_go_mem cs h.2 c hc

theorem smallB_small : ∀ (q : List Nat) (s t : Schema), s.smallB = true → s.at? q = some t → t.arity ≤ 2 ^ 64 := by
  intro q
  induction q with
  | nil =>
    intro s t h ht
    simp only [Schema.at?, Option.some.injEq] at ht
    subst ht
    cases s with
    | leaf => simp [Schema.arity, Schema.kids]
    | node lk cs =>
      simp only [Schema.smallB, Bool.and_eq_true, decide_eq_true_eq] at h
      simpa [Schema.arity, Schema.kids] using h.1
    | array n c =>
      simp only [Schema.smallB, Bool.and_eq_true, decide_eq_true_eq] at h
      simpa [Schema.arity, Schema.kids] using h.1
  | cons i q ih =>
    intro s t h ht
    simp only [Schema.at?] at ht
    cases hc : s.child? i with
    | none => simp [hc] at ht
    | some c =>
      simp only [hc] at ht
      refine ih c t ?_ ht
      cases s with
      | leaf => simp [Schema.child?] at hc
      | node lk cs =>
        simp only [Schema.smallB, Bool.and_eq_true] at h
        simp only [Schema.child?] at hc
        exact smallB_go_mem cs h.2 c (List.mem_of_getElem? hc)
      | array n c' =>
        simp only [Schema.smallB, Bool.and_eq_true] at h
        simp only [Schema.child?] at hc
        split at hc
        · cases hc; exact h.2
        · cases hc

theorem small_of_smallB (s : Schema) (h : s.smallB = true) : s.Small :=
  fun q t ht => smallB_small q s t h ht

theorem traverse_go_eq {σ : Type} (cb : σ → CbArg → Option σ) :
    ∀ (cs : List Schema) (i : Nat) (ks : KeySrc) (st : σ) (c : Schema), cs[i]? = some c →
      Schema.traverse.go cb cs i ks st = c.traverse cb ks st
  | [], i, _, _, _, h => by simp at h
  | c0 :: _, 0, ks, st, c, h => by
    simp only [List.getElem?_cons_zero, Option.some.injEq] at h
    subst h; simp [Schema.traverse.go]
  | _ :: cs, i + 1, ks, st, c, h => by
    simp only [List.getElem?_cons_succ] at h
    simp only [Schema.traverse.go]
    exact traverse_go_eq cb cs i ks st c h

/-- key source of an index list: plain (`strict`) or wrapped in `Consume` -/
def idxSrc (strict : Bool) (ks : List Nat) : KeySrc :=
  if strict then .list (intKeys ks) else .consume (.list (intKeys ks))

theorem idxSrc_next_nil (strict : Bool) (lk : Lookup) : (idxSrc strict []).next lk = .error (.tooShort 0) := by
  cases strict <;> simp [idxSrc, intKeys, KeySrc.next]

theorem intKey_find (lk : Lookup) (i : Nat) (hlen : lk.len ≤ 2 ^ 64) :
    (Key.int (Int.ofNat i)).find lk = if i < lk.len then .ok i else .error (.notFound 1) := by
  have hlen' : lk.len ≤ 18446744073709551616 := hlen
  simp only [Key.find]
  by_cases h : i < lk.len
  · have h1 : (0 : Int) ≤ Int.ofNat i := Int.natCast_nonneg i
    have h2 : Int.ofNat i < 2 ^ 64 := by
      have : i < 18446744073709551616 := by omega
      have h3 : (i : Int) < (18446744073709551616 : Int) := by omega
      exact h3
    have h3 : (Int.ofNat i).toNat = i := Int.toNat_natCast i
    rw [if_pos ⟨h1, h2, by rw [h3]; exact h⟩, if_pos h, h3]
  · have h3 : (Int.ofNat i).toNat = i := Int.toNat_natCast i
    rw [if_neg (by rw [h3]; intro hh; exact h hh.2.2), if_neg h]

theorem list_next_cons (lk : Lookup) (k : Key) (ks : List Key) :
    (KeySrc.list (k :: ks)).next lk = match k.find lk with | .ok i => .ok (i, .list ks) | .error e => .error e := by
  simp only [KeySrc.next]
  cases k.find lk <;> rfl

theorem consume_next (lk : Lookup) (a : KeySrc) :
    (KeySrc.consume a).next lk = match a.next lk with | .ok (i, a') => .ok (i, .consume a') | .error e => .error e := by
  simp only [KeySrc.next]
  cases a.next lk with
  | ok r => cases r; rfl
  | error e => rfl

theorem idxSrc_next_cons (strict : Bool) (lk : Lookup) (i : Nat) (rest : List Nat) (hlen : lk.len ≤ 2 ^ 64) :
    (idxSrc strict (i :: rest)).next lk =
      if i < lk.len then .ok (i, idxSrc strict rest) else .error (.notFound 1) := by
  have hfind := intKey_find lk i hlen
  cases strict
  · simp only [idxSrc, Bool.false_eq_true, if_false]
    unfold intKeys
    rw [List.map_cons, consume_next, list_next_cons, hfind]
    by_cases h : i < lk.len
    · rw [if_pos h, if_pos h]
    · rw [if_neg h, if_neg h]
  · simp only [idxSrc, if_true]
    unfold intKeys
    rw [List.map_cons, list_next_cons, hfind]
    by_cases h : i < lk.len
    · rw [if_pos h, if_pos h]
    · rw [if_neg h, if_neg h]

theorem idxSrc_finalize (strict : Bool) (ks : List Nat) :
    (idxSrc strict ks).finalize = if strict && !ks.isEmpty then .error (.tooLong 0) else .ok () := by
  cases strict
  · simp [idxSrc, KeySrc.finalize]
  · cases ks <;> simp [idxSrc, intKeys, KeySrc.finalize]

/-- `traverse_by_key` on an index list is `idxWalk` -/
theorem traverse_eq_idxWalk {σ : Type} (cb : σ → CbArg → Option σ) (strict : Bool) :
    ∀ (ks : List Nat) (t : Schema) (st : σ), t.WF → t.Small →
      t.traverse cb (idxSrc strict ks) st = idxWalk cb strict t ks st := by
  intro ks
  induction ks with
  | nil =>
    intro t st hwf hsm
    cases t with
    | leaf =>
      simp only [Schema.traverse, idxSrc_finalize]
      cases strict <;> simp [idxWalk, Schema.isLeaf]
    | node lk cs => simp [Schema.traverse, idxSrc_next_nil, idxWalk, Schema.isLeaf]
    | array n c => simp [Schema.traverse, idxSrc_next_nil, idxWalk, Schema.isLeaf]
  | cons i rest ih =>
    intro t st hwf hsm
    cases t with
    | leaf =>
      simp only [Schema.traverse, idxSrc_finalize]
      cases strict <;> simp [idxWalk, Schema.isLeaf]
    | node lk cs =>
      have har : (Schema.node lk cs).arity = lk.len := by simp [Schema.arity, Schema.kids, hwf.1]
      have hlen : lk.len ≤ 2 ^ 64 := by rw [← har]; exact hsm [] _ rfl
      unfold idxWalk
      simp only [Schema.traverse, idxSrc_next_cons strict lk i rest hlen, Schema.isLeaf, Bool.false_eq_true, if_false, har]
      by_cases hi : i < lk.len
      · simp only [hi, if_true, Schema.cbArg]
        cases hcb : cb st ⟨i, lk.name? i, lk.len⟩ with
        | none => rfl
        | some st' =>
          simp only []
          have hlt : i < cs.length := by rw [hwf.1]; exact hi
          have hc : cs[i]? = some cs[i] := by simp [hlt]
          rw [traverse_go_eq cb cs i _ st' cs[i] hc]
          have hk : (Schema.node lk cs).kids[i]? = some cs[i] := by simp [Schema.kids, hlt]
          rw [ih cs[i] st' (wf_kids _ hwf _ (List.mem_of_getElem? hk)) (small_kid _ _ i hsm hk)]
          simp [hk]
      · simp [hi]
    | array n c =>
      have har : (Schema.array n c).arity = n := by simp [Schema.arity, Schema.kids]
      have hlen : (Lookup.homog n).len ≤ 2 ^ 64 := by
        have := hsm [] _ rfl
        rw [har] at this; exact this
      unfold idxWalk
      simp only [Schema.traverse, idxSrc_next_cons strict (.homog n) i rest hlen, Schema.isLeaf, Bool.false_eq_true,
        if_false, har, Lookup.len]
      by_cases hi : i < n
      · simp only [hi, if_true, Schema.cbArg]
        cases hcb : cb st ⟨i, none, n⟩ with
        | none => rfl
        | some st' =>
          simp only []
          have hk : (Schema.array n c).kids[i]? = some c := by simp [Schema.kids, hi]
          rw [ih c st' hwf.2 (small_kid _ _ i hsm hk)]
          simp [hk]
      · simp [hi]

end MiniconfVerif
