import MiniconfVerif.Lemmas.IdxWalk
import MiniconfVerif.Model.Iter

/-! The `NodeIter` odometer computes the depth-first successor (`succRev`), hence — with
`Lemmas/Enum.lean` — enumerates `Schema.leaves` in order. -/
namespace MiniconfVerif
set_option autoImplicit false

/-! ## walking along a valid path -/

/-- the callbacks along an index path, folded -/
def cbAlong {σ : Type} (cb : σ → CbArg → Option σ) : Schema → List Nat → σ → Option σ
  | _, [], st => some st
  | t, i :: p, st =>
    match t.kids[i]? with
    | none => none
    | some c =>
      match cb st (t.cbArg i) with
      | none => none
      | some st' => cbAlong cb c p st'

def Res.incrN : Nat → Res → Res
  | 0, r => r
  | n + 1, r => (Res.incrN n r).incr

theorem incrN_ok (n d : Nat) : Res.incrN n (.ok d) = .ok (d + n) := by
  induction n with
  | zero => rfl
  | succ n ih => simp [Res.incrN, ih, Res.incr]; omega

theorem incrN_notFound (n d : Nat) : Res.incrN n (.trav (.notFound d)) = .trav (.notFound (d + n)) := by
  induction n with
  | zero => rfl
  | succ n ih => simp [Res.incrN, ih, Res.incr, Trav.incr]; omega

theorem incrN_tooShort (n d : Nat) : Res.incrN n (.trav (.tooShort d)) = .trav (.tooShort (d + n)) := by
  induction n with
  | zero => rfl
  | succ n ih => simp [Res.incrN, ih, Res.incr, Trav.incr]; omega

theorem incrN_inner (n d : Nat) : Res.incrN n (.inner d) = .inner (d + n) := by
  induction n with
  | zero => rfl
  | succ n ih => simp [Res.incrN, ih, Res.incr]; omega

theorem incrN_succ' (n : Nat) (r : Res) : Res.incrN (n + 1) r = Res.incrN n r.incr := by
  induction n with
  | zero => rfl
  | succ n ih => simp only [Res.incrN] at ih ⊢; rw [ih]

theorem kids_none_of_leaf (t : Schema) (h : t.isLeaf = true) (i : Nat) : t.kids[i]? = none := by
  cases t <;> simp_all [Schema.isLeaf, Schema.kids]

theorem at?_cons (s : Schema) (i : Nat) (q : List Nat) :
    s.at? (i :: q) = match s.kids[i]? with | some c => c.at? q | none => none := by
  simp only [Schema.at?, child?_eq_kids]
  cases s.kids[i]? <;> rfl

/-- walking a prefix that is a valid path with accepting callbacks -/
theorem idxWalk_prefix {σ : Type} (cb : σ → CbArg → Option σ) (strict : Bool) :
    ∀ (q : List Nat) (s t : Schema) (rest : List Nat) (st stq : σ), s.at? q = some t → cbAlong cb s q st = some stq →
      idxWalk cb strict s (q ++ rest) st =
        (Res.incrN q.length (idxWalk cb strict t rest stq).1, (idxWalk cb strict t rest stq).2) := by
  intro q
  induction q with
  | nil =>
    intro s t rest st stq ht hcb
    simp only [Schema.at?, Option.some.injEq] at ht
    simp only [cbAlong, Option.some.injEq] at hcb
    subst ht; subst hcb
    simp [Res.incrN]
  | cons i q ih =>
    intro s t rest st stq ht hcb
    rw [at?_cons] at ht
    cases hk : s.kids[i]? with
    | none => simp [hk] at ht
    | some c =>
      simp only [hk] at ht
      have hnl : s.isLeaf = false := by
        cases hl : s.isLeaf with
        | false => rfl
        | true => rw [kids_none_of_leaf s hl] at hk; cases hk
      have hi : i < s.arity := by
        unfold Schema.arity
        exact (List.getElem?_eq_some_iff.mp hk).1
      simp only [cbAlong, hk] at hcb
      cases hc : cb st (s.cbArg i) with
      | none => simp [hc] at hcb
      | some st' =>
        simp only [hc] at hcb
        have := ih c t rest st' stq ht hcb
        rw [List.cons_append]
        conv => lhs; unfold idxWalk
        simp only [hnl, Bool.false_eq_true, if_false, hi, if_true, hc, hk, Option.getD_some, this, List.length_cons]
        rfl

/-! ## the first leaf -/

theorem firstLeaf_go_zeros : ∀ (t : Schema), t.firstLeaf = List.replicate t.firstLeaf.length 0
  | .leaf => rfl
  | .node lk cs => by
    cases cs with
    | nil => rfl
    | cons c cs =>
      simp only [Schema.firstLeaf, Schema.firstLeaf.go, List.length_cons, List.replicate_succ]
      rw [← firstLeaf_go_zeros c]
  | .array n c => by
    simp only [Schema.firstLeaf]
    by_cases h : n = 0
    · simp [h]
    · simp only [h, if_false, List.length_cons, List.replicate_succ]
      rw [← firstLeaf_go_zeros c]

theorem at?_firstLeaf : ∀ (t : Schema), t.WF → t.at? t.firstLeaf = some .leaf
  | .leaf, _ => rfl
  | .node lk cs, h => by
    obtain ⟨hlen, hpos, _, hwf⟩ := h
    cases cs with
    | nil => simp at hlen; omega
    | cons c cs =>
      simp only [Schema.firstLeaf, Schema.firstLeaf.go, Schema.at?, Schema.child?, List.getElem?_cons_zero]
      exact at?_firstLeaf c hwf.1
  | .array n c, h => by
    have hn : n ≠ 0 := by have := h.1; omega
    simp only [Schema.firstLeaf, hn, if_false, Schema.at?, Schema.child?, h.1, if_true]
    exact at?_firstLeaf c h.2

theorem firstLeaf_len_le : ∀ (t : Schema), t.WF → t.firstLeaf.length ≤ t.maxDepth := by
  intro t h
  have hh := leaves_head t h
  have hm : t.firstLeaf ∈ t.leaves := by
    cases hl : t.leaves with
    | nil => rw [hl] at hh; cases hh
    | cons x xs => rw [hl] at hh; simp only [List.head?_cons, Option.some.injEq] at hh; rw [hh]; simp
  exact leaves_len_le t _ hm

/-- non-strict walk of a list of zeros reaches the first leaf -/
theorem idxWalk_zeros {σ : Type} (cb : σ → CbArg → Option σ) (t : Schema) (hwf : t.WF) (m : Nat)
    (hm : t.firstLeaf.length ≤ m) (st st' : σ) (hcb : cbAlong cb t t.firstLeaf st = some st') :
    idxWalk cb false t (List.replicate m 0) st = (.ok t.firstLeaf.length, st') := by
  have hsplit : List.replicate m 0 = t.firstLeaf ++ List.replicate (m - t.firstLeaf.length) 0 := by
    conv => rhs; rw [firstLeaf_go_zeros t]
    simp only [List.length_replicate]
    rw [List.replicate_append_replicate]
    congr 1; omega
  rw [hsplit, idxWalk_prefix cb false t.firstLeaf t .leaf _ st st' (at?_firstLeaf t hwf) hcb]
  unfold idxWalk
  simp [Schema.isLeaf, incrN_ok]

/-! ## padded states -/

/-- a path padded with zeros to the state length -/
def pad (D : Nat) (p : List Nat) : List Nat := p ++ List.replicate (D - p.length) 0

theorem pad_length (D : Nat) (p : List Nat) (h : p.length ≤ D) : (pad D p).length = D := by
  simp [pad]; omega

theorem modify_append_cons {α : Type} (a : List α) (x : α) (b : List α) (f : α → α) :
    (a ++ x :: b).modify a.length f = a ++ f x :: b := by
  induction a with
  | nil => rfl
  | cons y a ih => simp [ih]

theorem set_append_cons {α : Type} (a : List α) (x y : α) (b : List α) :
    (a ++ x :: b).set a.length y = a ++ y :: b := by
  induction a with
  | nil => rfl
  | cons z a ih => simp [ih]

theorem pad_snoc (D : Nat) (q : List Nat) (j : Nat) (_h : q.length + 1 ≤ D) :
    pad D (q ++ [j]) = q ++ j :: List.replicate (D - q.length - 1) 0 := by
  simp only [pad, List.length_append, List.length_cons, List.length_nil, List.append_assoc, List.cons_append,
    List.nil_append]
  congr 2

theorem pad_modify (D : Nat) (q : List Nat) (j : Nat) (h : q.length + 1 ≤ D) :
    (pad D (q ++ [j])).modify q.length (· + 1) = pad D (q ++ [j + 1]) := by
  rw [pad_snoc D q j h, pad_snoc D q (j + 1) h, modify_append_cons]

theorem pad_set_zero (D : Nat) (q : List Nat) (j : Nat) (h : q.length + 1 ≤ D) :
    (pad D (q ++ [j])).set q.length 0 = pad D q := by
  rw [pad_snoc D q j h, set_append_cons]
  simp only [pad]
  have : D - q.length = (D - q.length - 1) + 1 := by omega
  conv => rhs; rw [this, List.replicate_succ]

theorem pad_zeros (D : Nat) (p : List Nat) (k : Nat) (h : p.length + k ≤ D) :
    pad D (p ++ List.replicate k 0) = pad D p := by
  simp only [pad, List.length_append, List.length_replicate, List.append_assoc]
  congr 1
  rw [List.replicate_append_replicate]
  congr 1; omega

/-! ## transcoding the iterator state -/

theorem stateKeys_eq (st : List Nat) : stateKeys st = idxSrc false st := by
  simp [stateKeys, idxSrc, intKeys]

theorem cbAlong_append {σ : Type} (cb : σ → CbArg → Option σ) :
    ∀ (p1 : List Nat) (s t : Schema) (p2 : List Nat) (st : σ), s.at? p1 = some t →
      cbAlong cb s (p1 ++ p2) st = (cbAlong cb s p1 st).bind (cbAlong cb t p2) := by
  intro p1
  induction p1 with
  | nil =>
    intro s t p2 st ht
    simp only [Schema.at?, Option.some.injEq] at ht
    subst ht
    simp [cbAlong]
  | cons i p1 ih =>
    intro s t p2 st ht
    rw [at?_cons] at ht
    simp only [List.cons_append, cbAlong]
    cases hk : s.kids[i]? with
    | none => simp
    | some c =>
      simp only [hk] at ht
      simp only []
      cases cb st (s.cbArg i) with
      | none => simp
      | some st' => exact ih c t p2 st' ht

/-- callbacks are accepted (no capacity failure, no panic) along every valid path -/
def Accepts (s : Schema) (fresh : Target) : Prop :=
  ∀ p t, s.at? p = some t → ∃ tg, cbAlong Target.cbP s p (fresh, false) = some (tg, false)

/-- the target after transcoding index path `p` -/
def tgtAt (s : Schema) (fresh : Target) (p : List Nat) : Target :=
  match cbAlong Target.cbP s p (fresh, false) with
  | some (tg, _) => tg
  | none => fresh

theorem at?_append_some (s t u : Schema) (p1 p2 : List Nat) (h1 : s.at? p1 = some t) (h2 : t.at? p2 = some u) :
    s.at? (p1 ++ p2) = some u := by
  rw [at?_append, h1]; exact h2

/-- the state points (after padding with zeros) at the first leaf below a valid node -/
theorem transcode_first (s : Schema) (hwf : s.WF) (hsm : s.Small) (D : Nat) (fresh : Target) (hacc : Accepts s fresh)
    (pre : List Nat) (t : Schema) (ht : s.at? pre = some t) (hD : pre.length + t.firstLeaf.length ≤ D) :
    s.transcode (stateKeys (pad D pre)) fresh =
      (.leaf (pre.length + t.firstLeaf.length), tgtAt s fresh (pre ++ t.firstLeaf)) := by
  have htwf := wf_at? s t pre hwf ht
  obtain ⟨tg1, h1⟩ := hacc pre t ht
  have hleaf := at?_append_some s t .leaf pre t.firstLeaf ht (at?_firstLeaf t htwf)
  obtain ⟨tg2, h2⟩ := hacc (pre ++ t.firstLeaf) .leaf hleaf
  have h12 : cbAlong Target.cbP t t.firstLeaf (tg1, false) = some (tg2, false) := by
    have := cbAlong_append Target.cbP pre s t t.firstLeaf (fresh, false) ht
    rw [h2, h1] at this
    simpa using this.symm
  simp only [Schema.transcode, stateKeys_eq, traverse_eq_idxWalk Target.cbP false _ s _ hwf hsm, pad]
  rw [idxWalk_prefix Target.cbP false pre s t _ (fresh, false) (tg1, false) ht h1]
  rw [idxWalk_zeros Target.cbP t htwf (D - pre.length) (by omega) (tg1, false) (tg2, false) h12]
  simp only [incrN_ok, Res.toNode, Bool.false_eq_true, if_false, tgtAt, h2]
  congr 2; omega

/-- an index beyond the node's children: `NotFound` at that level -/
theorem transcode_notFound (s : Schema) (hwf : s.WF) (hsm : s.Small) (fresh : Target) (hacc : Accepts s fresh)
    (q : List Nat) (t : Schema) (ht : s.at? q = some t) (hnl : t.isLeaf = false) (i : Nat) (hi : t.arity ≤ i)
    (rest : List Nat) :
    (s.transcode (stateKeys (q ++ i :: rest)) fresh).1 = .err (.notFound (q.length + 1)) := by
  obtain ⟨tg1, h1⟩ := hacc q t ht
  simp only [Schema.transcode, stateKeys_eq, traverse_eq_idxWalk Target.cbP false _ s _ hwf hsm]
  rw [idxWalk_prefix Target.cbP false q s t _ (fresh, false) (tg1, false) ht h1]
  have : idxWalk Target.cbP false t (i :: rest) (tg1, false) = (.trav (.notFound 1), (tg1, false)) := by
    unfold idxWalk
    have : ¬ i < t.arity := by omega
    simp [hnl, this]
  rw [this]
  simp only [incrN_notFound, Bool.false_eq_true, if_false, Res.toNode]
  congr 2; omega

/-! ## one pass of the loop -/

theorem kid_not_leaf (t : Schema) (j : Nat) (h : j < t.arity) : t.isLeaf = false := by
  cases t with
  | leaf => simp [Schema.arity, Schema.kids] at h
  | node lk cs => rfl
  | array n c => rfl

/-- the item yielded for leaf path `p` -/
def leafItem (s : Schema) (fresh : Target) (p : List Nat) : IterItem :=
  .node (tgtAt s fresh p) (.leaf p.length)

/-- the state after leaf path `p` was yielded (root 0) -/
def stAfter (D : Nat) (p : List Nat) : IterSt := ⟨pad D p, 0, p.length⟩

section
variable (s : Schema) (hwf : s.WF) (hsm : s.Small) (D : Nat) (fresh : Target) (hacc : Accepts s fresh)
include hwf hsm hacc

/-- finished child `j` of the node at `q`, a next sibling exists: its first leaf is yielded -/
theorem step_advance (q : List Nat) (j : Nat) (t c : Schema) (ht : s.at? q = some t) (hc : t.kids[j + 1]? = some c)
    (hD : q.length + 1 + c.firstLeaf.length ≤ D) :
    (stAfter D (q ++ [j])).step s D fresh =
      .yield (leafItem s fresh (q ++ (j + 1) :: c.firstLeaf)) (stAfter D (q ++ (j + 1) :: c.firstLeaf)) := by
  have hcat : s.at? (q ++ [j + 1]) = some c := at?_snoc s q (j + 1) t c ht hc
  have hst : (pad D (q ++ [j])).modify q.length (· + 1) = pad D (q ++ [j + 1]) := pad_modify D q j (by omega)
  have htr := transcode_first s hwf hsm D fresh hacc (q ++ [j + 1]) c hcat (by simp; omega)
  have hpad : pad D (q ++ (j + 1) :: c.firstLeaf) = pad D (q ++ [j + 1]) := by
    have : q ++ (j + 1) :: c.firstLeaf = (q ++ [j + 1]) ++ List.replicate c.firstLeaf.length 0 := by
      rw [← firstLeaf_go_zeros c]; simp
    rw [this, pad_zeros]
    simp; omega
  have hlen : (q ++ (j + 1) :: c.firstLeaf).length = (q ++ [j + 1]).length + c.firstLeaf.length := by simp; omega
  have happ : q ++ [j + 1] ++ c.firstLeaf = q ++ (j + 1) :: c.firstLeaf := by simp
  simp only [IterSt.step, stAfter, List.length_append, List.length_cons, List.length_nil]
  have h1 : ¬ (q.length + 0 + 1 = 0) := by omega
  have h2 : q.length + 0 + 1 ≤ D := by omega
  simp only [h1, if_false, h2, true_and, if_true, Nat.add_sub_cancel, Nat.add_zero, hst, htr, leafItem, hpad, happ]
  simp only [List.length_append, List.length_cons, List.length_nil] at hlen ⊢
  rw [hlen]

/-- finished the last child: the index is reset and the depth moves up one level -/
theorem step_carry (q : List Nat) (j : Nat) (t : Schema) (ht : s.at? q = some t) (hj : j < t.arity)
    (hlast : ¬ j + 1 < t.arity) (hD : q.length + 1 ≤ D) :
    (stAfter D (q ++ [j])).step s D fresh = .retry ⟨pad D q, 0, q.length⟩ := by
  have hst : (pad D (q ++ [j])).modify q.length (· + 1) = pad D (q ++ [j + 1]) := pad_modify D q j hD
  have hnl := kid_not_leaf t j hj
  have hpadsn := pad_snoc D q (j + 1) hD
  have htr := transcode_notFound s hwf hsm fresh hacc q t ht hnl (j + 1) (by omega) (List.replicate (D - q.length - 1) 0)
  rw [← hpadsn] at htr
  have hset := pad_set_zero D q (j + 1) hD
  have hlenp : (pad D (q ++ [j + 1])).length = D := pad_length D _ (by simp; omega)
  simp only [IterSt.step, stAfter, List.length_append, List.length_cons, List.length_nil]
  have h1 : ¬ (q.length + 0 + 1 = 0) := by omega
  have h2 : q.length + 0 + 1 ≤ D := by omega
  simp only [h1, if_false, h2, true_and, if_true, Nat.add_sub_cancel, Nat.add_zero, hst]
  cases htc : s.transcode (stateKeys (pad D (q ++ [j + 1]))) fresh with
  | mk r tg =>
    rw [htc] at htr
    simp only [] at htr
    subst htr
    have h3 : ¬ (q.length + 1 = 0 ∨ q.length + 1 > D) := by omega
    simp only [hlenp, h3, if_false, Nat.add_sub_cancel, hset, Nat.max_zero]

end

/-! ## depth bookkeeping -/

theorem kid_maxDepth (t c : Schema) (i : Nat) (h : t.kids[i]? = some c) : c.maxDepth + 1 ≤ t.maxDepth := by
  cases t with
  | leaf => simp [Schema.kids] at h
  | node lk cs =>
    simp only [Schema.kids] at h
    have := maxDepth_go_ge cs c (List.mem_of_getElem? h)
    simp only [Schema.maxDepth]; omega
  | array n c' =>
    simp only [Schema.kids] at h
    have := List.mem_of_getElem? h
    rw [List.mem_replicate] at this
    rw [this.2]
    simp only [Schema.maxDepth]; omega

theorem at?_depth : ∀ (p : List Nat) (s t : Schema), s.at? p = some t → p.length + t.maxDepth ≤ s.maxDepth := by
  intro p
  induction p with
  | nil => intro s t h; simp only [Schema.at?, Option.some.injEq] at h; subst h; simp
  | cons i p ih =>
    intro s t h
    rw [at?_cons] at h
    cases hk : s.kids[i]? with
    | none => simp [hk] at h
    | some c =>
      simp only [hk] at h
      have := ih c t h
      have := kid_maxDepth s c i hk
      simp only [List.length_cons]; omega

theorem at?_snoc_inv : ∀ (q : List Nat) (s t : Schema) (i : Nat), s.at? (q ++ [i]) = some t →
    ∃ t', s.at? q = some t' ∧ t'.kids[i]? = some t := by
  intro q s t i h
  rw [at?_append] at h
  cases hq : s.at? q with
  | none => simp [hq] at h
  | some t' =>
    simp only [hq] at h
    refine ⟨t', rfl, ?_⟩
    rw [at?_cons] at h
    cases hk : t'.kids[i]? with
    | none => simp [hk] at h
    | some c => simp only [hk, Schema.at?, Option.some.injEq] at h; rw [h]

/-! ## the loop computes the successor -/

section
variable (s : Schema) (hwf : s.WF) (hsm : s.Small) (D : Nat) (fresh : Target) (hacc : Accepts s fresh)
  (hD : s.maxDepth ≤ D)
include hwf hsm hacc hD

theorem next_succ : ∀ (qr : List Nat) (j : Nat) (t : Schema), s.at? qr.reverse = some t → j < t.arity →
    ∀ fuel, qr.length + 2 ≤ fuel →
      (stAfter D (qr.reverse ++ [j])).next s D fresh fuel =
        match succRev s qr j with
        | some p' => some (.yield (leafItem s fresh p') (stAfter D p'))
        | none => some .done := by
  intro qr
  induction qr with
  | nil =>
    intro j t ht hj fuel hf
    obtain ⟨f, rfl⟩ : ∃ f, fuel = f + 1 := ⟨fuel - 1, by omega⟩
    simp only [List.reverse_nil] at ht
    have hdep := at?_depth [] s t ht
    have hrev := succRev_eq s [] j t ht
    simp only [List.reverse_nil] at hrev
    by_cases hlt : j + 1 < t.arity
    · have hc : t.kids[j + 1]? = some (t.kids[j + 1]'hlt) := by simp [Schema.arity] at hlt; simp [hlt]
      have hcd := kid_maxDepth t _ _ hc
      have hfl := firstLeaf_len_le _ (wf_kids t (wf_at? s t [] hwf ht) _ (List.mem_of_getElem? hc))
      have hadv := step_advance s hwf hsm D fresh hacc [] j t _ ht hc (by simp at hdep ⊢; omega)
      simp only [List.reverse_nil, List.nil_append] at hadv ⊢
      simp only [IterSt.next, hadv, hrev, hlt, if_true, hc, Option.getD_some, List.nil_append]
    · have hcar := step_carry s hwf hsm D fresh hacc [] j t ht hj hlt (by
        have := kid_not_leaf t j hj
        have : 1 ≤ t.maxDepth := by
          have hk : t.kids[j]? = some (t.kids[j]'hj) := by simp [Schema.arity] at hj; simp [hj]
          have := kid_maxDepth t _ _ hk; omega
        simp at hdep ⊢; omega)
      simp only [List.reverse_nil, List.nil_append] at hcar ⊢
      obtain ⟨f', rfl⟩ : ∃ f', f = f' + 1 := ⟨f - 1, by simp at hf; omega⟩
      simp only [IterSt.next, hcar, hrev, hlt, if_false, after, List.reverse_nil]
      simp [IterSt.step, List.length_nil]
  | cons j' qr ih =>
    intro j t ht hj fuel hf
    obtain ⟨f, rfl⟩ : ∃ f, fuel = f + 1 := ⟨fuel - 1, by omega⟩
    have hdep := at?_depth _ s t ht
    have hrev := succRev_eq s (j' :: qr).reverse j t ht
    rw [List.reverse_reverse] at hrev
    have hk : t.kids[j]? = some (t.kids[j]'hj) := by simp [Schema.arity] at hj; simp [hj]
    have hkd := kid_maxDepth t _ _ hk
    have hqD : (j' :: qr).reverse.length + 1 ≤ D := by omega
    by_cases hlt : j + 1 < t.arity
    · have hc : t.kids[j + 1]? = some (t.kids[j + 1]'hlt) := by simp [Schema.arity] at hlt; simp [hlt]
      have hcd := kid_maxDepth t _ _ hc
      have hfl := firstLeaf_len_le _ (wf_kids t (wf_at? s t _ hwf ht) _ (List.mem_of_getElem? hc))
      have hadv := step_advance s hwf hsm D fresh hacc (j' :: qr).reverse j t _ ht hc (by omega)
      simp only [IterSt.next, hadv, hrev, hlt, if_true, hc, Option.getD_some]
    · have hcar := step_carry s hwf hsm D fresh hacc (j' :: qr).reverse j t ht hj hlt hqD
      simp only [IterSt.next, hcar, hrev, hlt, if_false]
      -- the state is now "finished child j' of the node at qr"
      have hq : (j' :: qr).reverse = qr.reverse ++ [j'] := by simp
      obtain ⟨t', ht', hk'⟩ := at?_snoc_inv qr.reverse s t j' (by rw [← hq]; exact ht)
      have hj' : j' < t'.arity := by
        unfold Schema.arity
        exact (List.getElem?_eq_some_iff.mp hk').1
      have := ih j' t' ht' hj' f (by simp at hf; omega)
      have hst : (⟨pad D (j' :: qr).reverse, 0, (j' :: qr).reverse.length⟩ : IterSt) = stAfter D (qr.reverse ++ [j']) := by
        simp [stAfter, hq]
      rw [hst, this, hq, after_snoc, List.reverse_reverse]

end

/-! ## polling the iterator -/

inductive Polled where
  | item (x : IterItem)
  | finished               -- `None`
  | broken                 -- a panic site or the fuel bound was hit (proved unreachable below)
  deriving Repr, DecidableEq, Inhabited

/-- call `next()` `n` times (each call may loop at most `D + 2` times) -/
def IterSt.poll (s : Schema) (D : Nat) (fresh : Target) : Nat → IterSt → List Polled
  | 0, _ => []
  | n + 1, it =>
    match it.next s D fresh (D + 2) with
    | some (.yield x it') => .item x :: IterSt.poll s D fresh n it'
    | some .done => .finished :: IterSt.poll s D fresh n it
    | _ => [.broken]

theorem take_append_replicate {α : Type} (a : α) : ∀ (xs : List α) (n m : Nat), n ≤ m →
    (xs ++ List.replicate m a).take n = (xs ++ List.replicate n a).take n
  | [], n, m, h => by
    simp only [List.nil_append, List.take_replicate]
    congr 1; omega
  | x :: xs, 0, _, _ => rfl
  | x :: xs, k + 1, m, h => by
    simp only [List.cons_append, List.take_succ_cons]
    rw [take_append_replicate a xs k m (by omega), take_append_replicate a xs k (k + 1) (by omega)]

theorem mem_leaves_at? : ∀ (p : List Nat) (s : Schema), p ∈ s.leaves → s.at? p = some .leaf := by
  intro p
  induction p with
  | nil =>
    intro s h
    cases hs : s.isLeaf with
    | true => cases s <;> simp_all [Schema.isLeaf, Schema.at?]
    | false =>
      have hne : s ≠ .leaf := by intro e; subst e; simp [Schema.isLeaf] at hs
      rw [leaves_eq_kids s hne] at h
      obtain ⟨i, c, rest, _, h2, _⟩ := mem_leaves_go _ _ _ h
      cases h2
  | cons i p ih =>
    intro s h
    cases hs : s.isLeaf with
    | true => cases s <;> simp_all [Schema.isLeaf, Schema.leaves]
    | false =>
      have hne : s ≠ .leaf := by intro e; subst e; simp [Schema.isLeaf] at hs
      rw [leaves_eq_kids s hne] at h
      obtain ⟨i', c, rest, h1, h2, h3⟩ := mem_leaves_go _ _ _ h
      simp only [Nat.zero_add, List.cons.injEq] at h2
      obtain ⟨rfl, rfl⟩ := h2
      rw [at?_cons, h1]
      exact ih c h3

section
variable (s : Schema) (hwf : s.WF) (hsm : s.Small) (D : Nat) (fresh : Target) (hacc : Accepts s fresh)
  (hD : s.maxDepth ≤ D)
include hwf hsm hacc hD

/-- the first call yields the first leaf -/
theorem next_init (fuel : Nat) (hf : 1 ≤ fuel) :
    (IterSt.init D).next s D fresh fuel =
      some (.yield (leafItem s fresh s.firstLeaf) (stAfter D s.firstLeaf)) := by
  obtain ⟨f, rfl⟩ : ∃ f, fuel = f + 1 := ⟨fuel - 1, by omega⟩
  have hfl := firstLeaf_len_le s hwf
  have htr := transcode_first s hwf hsm D fresh hacc [] s rfl (by simp; omega)
  have hpad : pad D [] = List.replicate D 0 := by simp [pad]
  have hpad2 : pad D s.firstLeaf = List.replicate D 0 := by
    have := pad_zeros D [] s.firstLeaf.length (by simp; omega)
    rw [List.nil_append, ← firstLeaf_go_zeros s] at this
    rw [this, hpad]
  rw [hpad] at htr
  simp only [List.nil_append, List.length_nil, Nat.zero_add] at htr
  have h1 : ¬ (D + 1 = 0) := by omega
  have h2 : ¬ (D + 1 ≤ D) := by omega
  simp only [IterSt.next, IterSt.step, IterSt.init, h1, if_false, h2, false_and, htr, leafItem, stAfter, hpad2]

/-- after a leaf: the successor leaf, or `None` -/
theorem next_after_leaf (p : List Nat) (hp : s.at? p = some .leaf) (fuel : Nat) (hf : D + 2 ≤ fuel) :
    (stAfter D p).next s D fresh fuel =
      match after s p with
      | some p' => some (.yield (leafItem s fresh p') (stAfter D p'))
      | none => some .done := by
  have hdep := at?_depth p s .leaf hp
  cases hr : p.reverse with
  | nil =>
    have : p = [] := by simpa using hr
    subst this
    obtain ⟨f, rfl⟩ : ∃ f, fuel = f + 1 := ⟨fuel - 1, by omega⟩
    simp [after, IterSt.next, IterSt.step, stAfter]
  | cons j qr =>
    have hp' : p = qr.reverse ++ [j] := by
      have := congrArg List.reverse hr
      simpa using this
    subst hp'
    obtain ⟨t, ht, hk⟩ := at?_snoc_inv qr.reverse s .leaf j hp
    have hj : j < t.arity := by
      unfold Schema.arity
      exact (List.getElem?_eq_some_iff.mp hk).1
    have := next_succ s hwf hsm D fresh hacc hD qr j t ht hj fuel (by simp at hdep; omega)
    rw [this, after_snoc, List.reverse_reverse]

/-- polling along a run of the successor -/
theorem poll_chain : ∀ (l : List (List Nat)) (p : List Nat) (n : Nat),
    (∀ x ∈ p :: l, s.at? x = some .leaf) → Chain (after s) (p :: l) none →
      (stAfter D p).poll s D fresh n =
        ((l.map fun x => Polled.item (leafItem s fresh x)) ++ List.replicate n Polled.finished).take n := by
  intro l
  induction l with
  | nil =>
    intro p n hleaf hch
    simp only [Chain] at hch
    have hnext := next_after_leaf s hwf hsm D fresh hacc hD p (hleaf p (by simp)) (D + 2) (by omega)
    rw [hch] at hnext
    simp only [List.map_nil, List.nil_append]
    induction n with
    | zero => rfl
    | succ n ihn =>
      simp only [IterSt.poll, hnext, ihn, List.replicate_succ, List.take_succ_cons]
  | cons b l ih =>
    intro p n hleaf hch
    simp only [Chain] at hch
    have hnext := next_after_leaf s hwf hsm D fresh hacc hD p (hleaf p (by simp)) (D + 2) (by omega)
    rw [hch.1] at hnext
    cases n with
    | zero => rfl
    | succ n =>
      simp only [IterSt.poll, hnext, List.map_cons, List.cons_append, List.take_succ_cons]
      rw [ih b n (fun x hx => hleaf x (by simp at hx ⊢; right; exact hx)) hch.2,
        take_append_replicate _ _ n (n + 1) (by omega)]

/-- **`nodes()` enumerates the leaves**: polling a fresh iterator `n` times gives the first
`n` leaves in depth-first declaration order, each with the target transcoded for that very
leaf and its depth, and `None` ever after. -/
theorem poll_init (n : Nat) :
    (IterSt.init D).poll s D fresh n =
      ((s.leaves.map fun x => Polled.item (leafItem s fresh x)) ++ List.replicate n Polled.finished).take n := by
  obtain ⟨hhead, hchain⟩ := leaves_are_successor_chain s hwf
  cases hl : s.leaves with
  | nil => exact absurd hl (leaves_ne_nil s hwf)
  | cons p l =>
    rw [hl] at hhead hchain
    simp only [List.head?_cons, Option.some.injEq] at hhead
    subst hhead
    cases n with
    | zero => rfl
    | succ n =>
      have h0 := next_init s hwf hsm D fresh hacc hD (D + 2) (by omega)
      simp only [IterSt.poll, h0, List.map_cons, List.cons_append, List.take_succ_cons]
      rw [poll_chain s hwf hsm D fresh hacc hD l s.firstLeaf n
        (fun x hx => mem_leaves_at? x s (by rw [hl]; exact hx)) hchain,
        take_append_replicate _ _ n (n + 1) (by omega)]

end

/-! ## targets that accept every path; the yielded target is the transcoding of the leaf -/

/-- the target yielded with a leaf is what transcoding that leaf's plain index key gives -/
theorem tgtAt_eq_transcode (s : Schema) (hwf : s.WF) (hsm : s.Small) (fresh : Target) (hacc : Accepts s fresh)
    (p : List Nat) (hp : s.at? p = some .leaf) :
    s.transcode (.list (intKeys p)) fresh = (.leaf p.length, tgtAt s fresh p) := by
  obtain ⟨tg, h⟩ := hacc p .leaf hp
  have hsrc : KeySrc.list (intKeys p) = idxSrc true p := by simp [idxSrc]
  simp only [Schema.transcode, hsrc, traverse_eq_idxWalk Target.cbP true _ s _ hwf hsm]
  have := idxWalk_prefix Target.cbP true p s .leaf [] (fresh, false) (tg, false) hp h
  rw [List.append_nil] at this
  rw [this]
  unfold idxWalk
  simp [Schema.isLeaf, incrN_ok, Res.toNode, tgtAt, h]

theorem cbAlong_unit : ∀ (p : List Nat) (s t : Schema), s.at? p = some t →
    cbAlong Target.cbP s p (.unit, false) = some (.unit, false) := by
  intro p
  induction p with
  | nil => intro s t _; rfl
  | cons i p ih =>
    intro s t h
    rw [at?_cons] at h
    cases hk : s.kids[i]? with
    | none => simp [hk] at h
    | some c =>
      simp only [hk] at h
      simp only [cbAlong, hk, Target.cbP, Target.cbPanics, Target.cb, Bool.false_eq_true, if_false, Option.map_some]
      exact ih c t h

/-- `()` as target (plain `nodes::<(), D>()`) accepts everything -/
theorem accepts_unit (s : Schema) : Accepts s .unit :=
  fun p t h => ⟨.unit, cbAlong_unit p s t h⟩

theorem cbAlong_idx (cap m : Nat) : ∀ (p : List Nat) (s t : Schema) (slots : List Nat), s.at? p = some t →
    slots.length + p.length ≤ cap → (∀ q u, s.at? q = some u → u.arity ≤ m + 1) →
    cbAlong Target.cbP s p (.idx slots cap m, false) = some (.idx (slots ++ p) cap m, false) := by
  intro p
  induction p with
  | nil => intro s t slots _ _ _; simp [cbAlong]
  | cons i p ih =>
    intro s t slots h hcap har
    rw [at?_cons] at h
    cases hk : s.kids[i]? with
    | none => simp [hk] at h
    | some c =>
      simp only [hk] at h
      have hi : i < s.arity := by unfold Schema.arity; exact (List.getElem?_eq_some_iff.mp hk).1
      have hs := har [] s rfl
      have hidx : (s.cbArg i).index = i := by cases s <;> rfl
      have h1 : slots.length < cap := by simp at hcap; omega
      have h2 : i ≤ m := by omega
      simp only [cbAlong, hk, Target.cbP, Target.cbPanics, Target.cb, Bool.false_eq_true, if_false, hidx, h1, h2, and_self,
        if_true, Option.map_some]
      have := ih c t (slots ++ [i]) h (by simp at hcap ⊢; omega)
        (fun q u hq => har (i :: q) u (by rw [at?_cons, hk]; exact hq))
      rw [this]; simp

/-- an index array of `cap ≥ max_depth` slots of a type that holds every index accepts everything -/
theorem accepts_idx (s : Schema) (cap m : Nat) (hcap : s.maxDepth ≤ cap)
    (har : ∀ q u, s.at? q = some u → u.arity ≤ m + 1) : Accepts s (.idx [] cap m) := by
  intro p t h
  have := at?_depth p s t h
  exact ⟨_, cbAlong_idx cap m p s t [] h (by simp; omega) har⟩

theorem tgtAt_idx (s : Schema) (cap m : Nat) (hcap : s.maxDepth ≤ cap)
    (har : ∀ q u, s.at? q = some u → u.arity ≤ m + 1) (p : List Nat) (t : Schema) (h : s.at? p = some t) :
    tgtAt s (.idx [] cap m) p = .idx p cap m := by
  have := at?_depth p s t h
  simp [tgtAt, cbAlong_idx cap m p s t [] h (by simp; omega) har]


/-- lexicographic order of two index paths that diverge before either ends -/
def LexLt : List Nat → List Nat → Prop
  | i :: r, i' :: r' => i < i' ∨ (i = i' ∧ LexLt r r')
  | _, _ => False


theorem go_heads_ge : ∀ (cs : List Schema) (k : Nat) (p : List Nat), p ∈ Schema.leaves.go cs k → ∃ i r, p = i :: r ∧ k ≤ i := by
  intro cs k p h
  obtain ⟨i, c, rest, _, h2, _⟩ := mem_leaves_go cs k p h
  exact ⟨k + i, rest, h2, by omega⟩

theorem go_pairwise : ∀ (cs : List Schema) (k : Nat), (∀ c ∈ cs, c.leaves.Pairwise LexLt) →
    (Schema.leaves.go cs k).Pairwise LexLt
  | [], _, _ => by simp [Schema.leaves.go]
  | c :: cs, k, h => by
    simp only [Schema.leaves.go]
    rw [List.pairwise_append]
    refine ⟨?_, go_pairwise cs (k + 1) (fun c' hc' => h c' (by simp [hc'])), ?_⟩
    · rw [List.pairwise_map]
      exact (h c (by simp)).imp (fun hab => Or.inr ⟨rfl, hab⟩)
    · intro a ha b hb
      simp only [List.mem_map] at ha
      obtain ⟨x, _, rfl⟩ := ha
      obtain ⟨i, r, rfl, hi⟩ := go_heads_ge cs (k + 1) b hb
      exact Or.inl (by omega)

/-- the leaves are listed in strictly increasing lexicographic order -/
theorem leaves_pairwise : ∀ (d : Nat) (s : Schema), s.maxDepth ≤ d → s.leaves.Pairwise LexLt := by
  intro d
  induction d with
  | zero =>
    intro s hd
    cases s with
    | leaf => simp [Schema.leaves]
    | node lk cs => simp [Schema.maxDepth] at hd
    | array n c => simp [Schema.maxDepth] at hd
  | succ d ih =>
    intro s hd
    cases hs : s.isLeaf with
    | true => cases s <;> simp_all [Schema.isLeaf, Schema.leaves]
    | false =>
      have hne : s ≠ .leaf := by intro e; subst e; simp [Schema.isLeaf] at hs
      rw [leaves_eq_kids s hne]
      apply go_pairwise
      intro c hc
      obtain ⟨i, hi⟩ := List.getElem?_of_mem hc
      have := kid_maxDepth s c i hi
      exact ih c (by omega)



theorem at?_leaf_mem : ∀ (p : List Nat) (s : Schema), s.at? p = some .leaf → p ∈ s.leaves := by
  intro p
  induction p with
  | nil => intro s h; simp only [Schema.at?, Option.some.injEq] at h; subst h; simp [Schema.leaves]
  | cons i p ih =>
    intro s h
    rw [at?_cons] at h
    cases hk : s.kids[i]? with
    | none => simp [hk] at h
    | some c =>
      simp only [hk] at h
      have hne : s ≠ .leaf := by intro e; subst e; simp [Schema.kids] at hk
      rw [leaves_eq_kids s hne]
      have := leaves_go_mem_of s.kids 0 i c p hk (ih c h)
      simpa using this



theorem kid_facts (s c : Schema) (i : Nat) (hk : s.kids[i]? = some c) : s.isLeaf = false ∧ i < s.arity := by
  refine ⟨?_, ?_⟩
  · cases hl : s.isLeaf with
    | false => rfl
    | true => rw [kids_none_of_leaf s hl] at hk; cases hk
  · unfold Schema.arity; exact (List.getElem?_eq_some_iff.mp hk).1


end MiniconfVerif
