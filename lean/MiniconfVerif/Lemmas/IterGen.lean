import MiniconfVerif.Lemmas.Trunc

/-! The general form of the enumeration theorem: any depth limit `D` (leaves up to depth `D` and
the internal nodes at depth `D`) and any target (nodes whose key does not fit the target are
reported as `Err(depth)` items), as long as the target's callbacks do not panic. -/
namespace MiniconfVerif
set_option autoImplicit false

/-- result of running the callbacks along a path: all accepted, or refused at depth `d`
(1-based, counted from the start of the path) with the state before the refused call -/
inductive CbRes (σ : Type) where
  | ok (st : σ)
  | fail (d : Nat) (st : σ)

def CbRes.up {σ : Type} : CbRes σ → CbRes σ
  | .ok st => .ok st
  | .fail d st => .fail (d + 1) st

def cbRun {σ : Type} (cb : σ → CbArg → Option σ) : Schema → List Nat → σ → CbRes σ
  | _, [], st => .ok st
  | t, i :: p, st =>
    match t.kids[i]? with
    | none => .ok st
    | some c =>
      match cb st (t.cbArg i) with
      | none => .fail 1 st
      | some st' => (cbRun cb c p st').up

/-- walking a valid prefix: either all callbacks accept and the walk goes on below, or one
refuses and the walk ends with `Inner(depth)` -/
theorem idxWalk_run {σ : Type} (cb : σ → CbArg → Option σ) (strict : Bool) :
    ∀ (q : List Nat) (s t : Schema) (rest : List Nat) (st : σ), s.at? q = some t →
      idxWalk cb strict s (q ++ rest) st =
        (match cbRun cb s q st with
         | .ok stq => (Res.incrN q.length (idxWalk cb strict t rest stq).1, (idxWalk cb strict t rest stq).2)
         | .fail d stf => (.inner d, stf)) := by
  intro q
  induction q with
  | nil =>
    intro s t rest st ht
    simp only [Schema.at?, Option.some.injEq] at ht
    subst ht
    simp [cbRun, Res.incrN]
  | cons i q ih =>
    intro s t rest st ht
    rw [at?_cons] at ht
    cases hk : s.kids[i]? with
    | none => simp [hk] at ht
    | some c =>
      simp only [hk] at ht
      obtain ⟨hnl, hi⟩ := kid_facts s c i hk
      rw [List.cons_append]
      conv => lhs; unfold idxWalk
      simp only [hnl, Bool.false_eq_true, if_false, hi, if_true, hk, Option.getD_some, cbRun]
      cases hc : cb st (s.cbArg i) with
      | none => rfl
      | some st' =>
        simp only []
        rw [ih c t rest st' ht]
        cases cbRun cb c q st' with
        | ok stq => simp only [CbRes.up, List.length_cons]; rfl
        | fail d stf => simp only [CbRes.up, Res.incr]

end MiniconfVerif

namespace MiniconfVerif
set_option autoImplicit false

theorem firstLeaf_nonleaf (t : Schema) (hwf : t.WF) (hnl : t.isLeaf = false) :
    ∃ c, t.kids[0]? = some c ∧ t.firstLeaf = 0 :: c.firstLeaf := by
  have hpos := wf_arity_pos t hwf (by intro e; subst e; simp [Schema.isLeaf] at hnl)
  unfold Schema.arity at hpos
  rw [firstLeaf_eq_kids]
  cases hk : t.kids with
  | nil => rw [hk] at hpos; simp at hpos
  | cons c cs => exact ⟨c, by simp, by simp [Schema.firstLeaf.go]⟩

/-- the node reached by the first `m` steps towards the first leaf -/
theorem firstLeaf_take_at : ∀ (m : Nat) (t : Schema), t.WF →
    ∃ t', t.at? (t.firstLeaf.take m) = some t' ∧ (t'.isLeaf = true ↔ t.firstLeaf.length ≤ m) := by
  intro m
  induction m with
  | zero =>
    intro t hwf
    refine ⟨t, by simp [Schema.at?], ?_⟩
    cases hl : t.isLeaf with
    | true => cases t <;> simp_all [Schema.isLeaf, Schema.firstLeaf]
    | false =>
      obtain ⟨c, _, hfl⟩ := firstLeaf_nonleaf t hwf hl
      simp [hfl]
  | succ m ih =>
    intro t hwf
    cases hl : t.isLeaf with
    | true =>
      have : t.firstLeaf = [] := by cases t <;> simp_all [Schema.isLeaf, Schema.firstLeaf]
      exact ⟨t, by simp [this, Schema.at?], by simp [this, hl]⟩
    | false =>
      obtain ⟨c, hk, hfl⟩ := firstLeaf_nonleaf t hwf hl
      obtain ⟨t', h1, h2⟩ := ih c (wf_kids t hwf c (List.mem_of_getElem? hk))
      refine ⟨t', ?_, ?_⟩
      · rw [hfl, List.take_succ_cons, at?_cons, hk]; exact h1
      · rw [hfl, List.length_cons, h2]; omega

/-- non-strict walk of `m` zeros: to the first leaf if it is within reach, else to the internal
node `m` levels down (`TooShort`); or `Inner` where a callback refuses -/
theorem idxWalk_zeros_cut {σ : Type} (cb : σ → CbArg → Option σ) (t : Schema) (hwf : t.WF) (m : Nat) (st : σ) :
    idxWalk cb false t (List.replicate m 0) st =
      (match cbRun cb t (t.firstLeaf.take m) st with
       | .ok st' =>
         ((if t.firstLeaf.length ≤ m then Res.ok (t.firstLeaf.take m).length
           else Res.trav (.tooShort (t.firstLeaf.take m).length)), st')
       | .fail d stf => (.inner d, stf)) := by
  obtain ⟨t', h1, h2⟩ := firstLeaf_take_at m t hwf
  have hz : t.firstLeaf.take m = List.replicate (t.firstLeaf.take m).length 0 := by
    conv => lhs; rw [firstLeaf_go_zeros t]
    rw [List.take_replicate]
    simp [List.length_take]
  have hlen : (t.firstLeaf.take m).length = min m t.firstLeaf.length := by simp [List.length_take]
  have hsplit : List.replicate m 0 = t.firstLeaf.take m ++ List.replicate (m - (t.firstLeaf.take m).length) 0 := by
    conv => rhs; rw [hz]
    simp only [List.length_replicate]
    rw [List.replicate_append_replicate]
    congr 1; omega
  rw [hsplit, idxWalk_run cb false _ t t' _ st h1]
  cases cbRun cb t (t.firstLeaf.take m) st with
  | fail d stf => rfl
  | ok st' =>
    simp only []
    by_cases hfit : t.firstLeaf.length ≤ m
    · have hl : t'.isLeaf = true := h2.mpr hfit
      unfold idxWalk
      simp [hl, hfit, incrN_ok]
    · have hl : t'.isLeaf = false := by
        cases h : t'.isLeaf with
        | false => rfl
        | true => exact absurd (h2.mp h) hfit
      have hrest : m - (t.firstLeaf.take m).length = 0 := by rw [hlen]; omega
      rw [hrest]
      unfold idxWalk
      simp [hl, hfit, incrN_tooShort]

end MiniconfVerif

namespace MiniconfVerif
set_option autoImplicit false

def CbRes.upN {σ : Type} (n : Nat) : CbRes σ → CbRes σ
  | .ok st => .ok st
  | .fail d st => .fail (d + n) st

theorem cbRun_append {σ : Type} (cb : σ → CbArg → Option σ) : ∀ (q : List Nat) (s t : Schema) (r : List Nat) (st : σ),
    s.at? q = some t →
    cbRun cb s (q ++ r) st =
      (match cbRun cb s q st with
       | .ok stq => (cbRun cb t r stq).upN q.length
       | .fail d stf => .fail d stf) := by
  intro q
  induction q with
  | nil =>
    intro s t r st ht
    simp only [Schema.at?, Option.some.injEq] at ht
    subst ht
    simp only [List.nil_append, cbRun, List.length_nil]
    cases cbRun cb s r st <;> simp [CbRes.upN]
  | cons i q ih =>
    intro s t r st ht
    rw [at?_cons] at ht
    cases hk : s.kids[i]? with
    | none => simp [hk] at ht
    | some c =>
      simp only [hk] at ht
      simp only [List.cons_append, cbRun, hk]
      cases cb st (s.cbArg i) with
      | none => rfl
      | some st' =>
        simp only []
        rw [ih c t r st' ht]
        cases cbRun cb c q st' with
        | fail d stf => rfl
        | ok stq =>
          simp only [CbRes.up, List.length_cons]
          cases cbRun cb t r stq with
          | ok s2 => rfl
          | fail d s2 => simp [CbRes.upN, CbRes.up]; omega

theorem cbRun_unit : ∀ (p : List Nat) (s : Schema), ∃ st, cbRun Target.cbP s p (.unit, false) = .ok st ∧ st = (.unit, false) := by
  intro p
  induction p with
  | nil => intro s; exact ⟨_, rfl, rfl⟩
  | cons i p ih =>
    intro s
    simp only [cbRun]
    cases hk : s.kids[i]? with
    | none => exact ⟨_, rfl, rfl⟩
    | some c =>
      simp only [Target.cbP, Target.cbPanics, Target.cb, Bool.false_eq_true, if_false, Option.map_some]
      obtain ⟨st, h1, h2⟩ := ih c
      rw [h1]; exact ⟨st, rfl, h2⟩

/-- the target's callbacks never reach a panic site along a valid path -/
def NoCbPanic (s : Schema) (fresh : Target) : Prop :=
  ∀ p t, s.at? p = some t →
    match cbRun Target.cbP s p (fresh, false) with
    | .ok st => st.2 = false
    | .fail _ st => st.2 = false

theorem noCbPanic_unit (s : Schema) : NoCbPanic s .unit := by
  intro p t _
  obtain ⟨st, h1, h2⟩ := cbRun_unit p s
  rw [h1, h2]

/-- the kind and depth `lookup` reports for the node at a valid path -/
def nodeKind (s : Schema) (P : List Nat) : NodeRes :=
  match s.at? P with
  | some t => if t.isLeaf then .leaf P.length else .internal P.length
  | none => .err (.panic "invalid path")

/-- what the iterator yields for the node at `P`: the node with the transcoded target, or
`Err(depth)` where the target refused a key -/
def cutItem (s : Schema) (fresh : Target) (P : List Nat) : IterItem :=
  match cbRun Target.cbP s P (fresh, false) with
  | .ok st => .node st.1 (nodeKind s P)
  | .fail d _ => .capErr d

/-- the cut-off first leaf below the node at `pre`, for state length `D` -/
def cutBelow (D : Nat) (pre : List Nat) (t : Schema) : List Nat := pre ++ t.firstLeaf.take (D - pre.length)

theorem nodeKind_cutBelow (s t : Schema) (hwf : s.WF) (D : Nat) (pre : List Nat) (ht : s.at? pre = some t) :
    nodeKind s (cutBelow D pre t) =
      (if t.firstLeaf.length ≤ D - pre.length then .leaf (cutBelow D pre t).length else .internal (cutBelow D pre t).length) := by
  obtain ⟨t', h1, h2⟩ := firstLeaf_take_at (D - pre.length) t (wf_at? s t pre hwf ht)
  have := at?_append_some s t t' pre _ ht h1
  simp only [nodeKind, cutBelow, this]
  by_cases hfit : t.firstLeaf.length ≤ D - pre.length
  · simp [h2.mpr hfit, hfit]
  · have : t'.isLeaf = false := by
      cases h : t'.isLeaf with
      | false => rfl
      | true => exact absurd (h2.mp h) hfit
    simp [this, hfit]

section
variable (s : Schema) (hwf : s.WF) (hsm : s.Small) (D : Nat)
include hwf hsm

/-- the padded state below a valid node: the cut-off first leaf, with any callback state -/
theorem walk_cut {σ : Type} (cb : σ → CbArg → Option σ) (pre : List Nat) (t : Schema) (ht : s.at? pre = some t)
    (hpre : pre.length ≤ D) (st : σ) :
    s.traverse cb (stateKeys (pad D pre)) st =
      (match cbRun cb s (cutBelow D pre t) st with
       | .ok st' =>
         ((if t.firstLeaf.length ≤ D - pre.length then Res.ok (cutBelow D pre t).length
           else Res.trav (.tooShort (cutBelow D pre t).length)), st')
       | .fail d stf => (.inner d, stf)) := by
  have htwf := wf_at? s t pre hwf ht
  rw [stateKeys_eq, traverse_eq_idxWalk cb false _ s _ hwf hsm]
  simp only [pad, cutBelow]
  rw [idxWalk_run cb false pre s t _ st ht, cbRun_append cb pre s t _ st ht]
  cases cbRun cb s pre st with
  | fail d stf => rfl
  | ok stq =>
    simp only []
    rw [idxWalk_zeros_cut cb t htwf (D - pre.length) stq]
    cases cbRun cb t (t.firstLeaf.take (D - pre.length)) stq with
    | fail d stf => simp [CbRes.upN, incrN_inner]
    | ok st' =>
      simp only [CbRes.upN, List.length_append]
      by_cases hfit : t.firstLeaf.length ≤ D - pre.length
      · simp [hfit, incrN_ok]; omega
      · simp [hfit, incrN_tooShort]; omega

theorem transcode_cut (fresh : Target) (hnp : NoCbPanic s fresh) (pre : List Nat) (t : Schema) (ht : s.at? pre = some t)
    (hpre : pre.length ≤ D) :
    s.transcode (stateKeys (pad D pre)) fresh =
      (match cbRun Target.cbP s (cutBelow D pre t) (fresh, false) with
       | .ok st => (nodeKind s (cutBelow D pre t), st.1)
       | .fail d st => (.err (.tooShort d), st.1)) := by
  obtain ⟨t', h1, _⟩ := firstLeaf_take_at (D - pre.length) t (wf_at? s t pre hwf ht)
  have hvalid := at?_append_some s t t' pre _ ht h1
  have hflag := hnp (cutBelow D pre t) t' hvalid
  simp only [Schema.transcode, walk_cut s hwf hsm D Target.cbP pre t ht hpre, nodeKind_cutBelow s t hwf D pre ht]
  cases hr : cbRun Target.cbP s (cutBelow D pre t) (fresh, false) with
  | fail d st =>
    rw [hr] at hflag
    simp only [] at hflag ⊢
    simp [hflag, Res.toNode]
  | ok st =>
    rw [hr] at hflag
    simp only [] at hflag ⊢
    by_cases hfit : t.firstLeaf.length ≤ D - pre.length
    · simp [hflag, hfit, Res.toNode]
    · simp [hflag, hfit, Res.toNode]

/-- an index beyond the node's children: `NotFound` there, unless the target refused earlier -/
theorem transcode_nf (fresh : Target) (hnp : NoCbPanic s fresh) (q : List Nat) (t : Schema) (ht : s.at? q = some t)
    (hnl : t.isLeaf = false) (i : Nat) (hi : t.arity ≤ i) (rest : List Nat) :
    (s.transcode (stateKeys (q ++ i :: rest)) fresh).1 = .err (.notFound (q.length + 1)) ∨
    ∃ d, (s.transcode (stateKeys (q ++ i :: rest)) fresh).1 = .err (.tooShort d) := by
  have hflag := hnp q t ht
  simp only [Schema.transcode, stateKeys_eq, traverse_eq_idxWalk Target.cbP false _ s _ hwf hsm]
  rw [idxWalk_run Target.cbP false q s t _ (fresh, false) ht]
  cases hr : cbRun Target.cbP s q (fresh, false) with
  | fail d st =>
    rw [hr] at hflag
    simp only [] at hflag
    right
    exact ⟨d, by simp [hflag, Res.toNode]⟩
  | ok st =>
    rw [hr] at hflag
    simp only [] at hflag
    left
    have : idxWalk Target.cbP false t (i :: rest) st = (.trav (.notFound 1), st) := by
      unfold idxWalk
      have : ¬ i < t.arity := by omega
      simp [hnl, this]
    simp only [this, hflag, incrN_notFound, Res.toNode, Bool.false_eq_true, if_false]
    congr 2; omega

end

end MiniconfVerif

namespace MiniconfVerif
set_option autoImplicit false

theorem take_firstLeaf_zeros (t : Schema) (m : Nat) :
    t.firstLeaf.take m = List.replicate (t.firstLeaf.take m).length 0 := by
  conv => lhs; rw [firstLeaf_go_zeros t]
  rw [List.take_replicate]
  simp [List.length_take]

theorem pad_cutBelow (D : Nat) (pre : List Nat) (t : Schema) (h : pre.length ≤ D) : pad D (cutBelow D pre t) = pad D pre := by
  unfold cutBelow
  rw [take_firstLeaf_zeros t (D - pre.length)]
  apply pad_zeros
  simp [List.length_take]; omega

theorem cutBelow_length_le (D : Nat) (pre : List Nat) (t : Schema) (h : pre.length ≤ D) : (cutBelow D pre t).length ≤ D := by
  simp [cutBelow, List.length_take]; omega

section
variable (s : Schema) (hwf : s.WF) (hsm : s.Small) (D : Nat) (fresh : Target) (hnp : NoCbPanic s fresh)
include hwf hsm hnp

theorem transcode_nf_unit (q : List Nat) (t : Schema) (ht : s.at? q = some t) (hnl : t.isLeaf = false) (i : Nat)
    (hi : t.arity ≤ i) (rest : List Nat) :
    (s.transcode (stateKeys (q ++ i :: rest)) .unit).1 = .err (.notFound (q.length + 1)) := by
  simp only [Schema.transcode, stateKeys_eq, traverse_eq_idxWalk Target.cbP false _ s _ hwf hsm]
  rw [idxWalk_run Target.cbP false q s t _ (.unit, false) ht]
  obtain ⟨st, h1, h2⟩ := cbRun_unit q s
  rw [h1, h2]
  have : idxWalk Target.cbP false t (i :: rest) (.unit, false) = (.trav (.notFound 1), (.unit, false)) := by
    unfold idxWalk
    have : ¬ i < t.arity := by omega
    simp [hnl, this]
  simp only [this, incrN_notFound, Res.toNode, Bool.false_eq_true, if_false]
  congr 2; omega

/-- a pass of the loop whose (incremented) state is the padded valid path `pre` yields the cut-off
first leaf below `pre` -/
theorem step_cut (it : IterSt) (pre : List Nat) (t : Schema) (ht : s.at? pre = some t) (hpre : pre.length ≤ D)
    (h1 : it.depth ≠ it.root) (h2 : ¬ (it.depth ≤ D ∧ it.depth = 0))
    (hstate : (if it.depth ≤ D then it.state.modify (it.depth - 1) (· + 1) else it.state) = pad D pre) :
    it.step s D fresh = .yield (cutItem s fresh (cutBelow D pre t)) ⟨pad D pre, it.root, (cutBelow D pre t).length⟩ := by
  have e1 := transcode_cut s hwf hsm D fresh hnp pre t ht hpre
  have e2 := transcode_cut s hwf hsm D .unit (noCbPanic_unit s) pre t ht hpre
  obtain ⟨su, hu1, hu2⟩ := cbRun_unit (cutBelow D pre t) s
  rw [hu1] at e2
  simp only [] at e2
  have hk := nodeKind_cutBelow s t hwf D pre ht
  unfold IterSt.step
  simp only [h1, h2, if_false, hstate, e1, e2]
  cases hr : cbRun Target.cbP s (cutBelow D pre t) (fresh, false) with
  | ok st =>
    simp only [cutItem, hr, hk]
    by_cases hfit : t.firstLeaf.length ≤ D - pre.length <;> simp [hfit]
  | fail d st =>
    simp only [cutItem, hr, hk]
    by_cases hfit : t.firstLeaf.length ≤ D - pre.length <;> simp [hfit]

/-- a pass whose incremented state points beyond the children of the node at `q`: carry -/
theorem step_nf (it : IterSt) (q : List Nat) (t : Schema) (ht : s.at? q = some t) (hnl : t.isLeaf = false)
    (i : Nat) (hi : t.arity ≤ i) (rest : List Nat) (hq : q.length + 1 ≤ D)
    (h1 : it.depth ≠ it.root) (h2 : ¬ (it.depth ≤ D ∧ it.depth = 0))
    (hstate : (if it.depth ≤ D then it.state.modify (it.depth - 1) (· + 1) else it.state) = q ++ i :: rest)
    (hlen : (q ++ i :: rest).length = D) :
    it.step s D fresh = .retry ⟨(q ++ i :: rest).set q.length 0, it.root, max q.length it.root⟩ := by
  have e1 := transcode_nf s hwf hsm fresh hnp q t ht hnl i hi rest
  have e2 := transcode_nf_unit s hwf hsm fresh hnp q t ht hnl i hi rest
  unfold IterSt.step
  simp only [h1, h2, if_false, hstate]
  have hb : ¬ (q.length + 1 = 0 ∨ q.length + 1 > (q ++ i :: rest).length) := by rw [hlen]; omega
  cases hr1 : s.transcode (stateKeys (q ++ i :: rest)) fresh with
  | mk r1 tg1 =>
    rw [hr1] at e1
    simp only [] at e1
    rcases e1 with e1 | ⟨d, e1⟩
    · subst e1
      simp only [hb, if_false, Nat.add_sub_cancel]
    · subst e1
      cases hr2 : s.transcode (stateKeys (q ++ i :: rest)) .unit with
      | mk r2 tg2 =>
        rw [hr2] at e2
        simp only [] at e2
        subst e2
        simp only [hb, if_false, Nat.add_sub_cancel]

end

end MiniconfVerif

namespace MiniconfVerif
set_option autoImplicit false

section
variable (s : Schema) (hwf : s.WF) (hsm : s.Small) (D : Nat) (fresh : Target) (hnp : NoCbPanic s fresh)
include hwf hsm hnp

theorem step_advance_G (q : List Nat) (j : Nat) (t c : Schema) (ht : s.at? q = some t) (hc : t.kids[j + 1]? = some c)
    (hD : q.length + 1 ≤ D) :
    (stAfter D (q ++ [j])).step s D fresh =
      .yield (cutItem s fresh (cutBelow D (q ++ [j + 1]) c)) (stAfter D (cutBelow D (q ++ [j + 1]) c)) := by
  have hcat : s.at? (q ++ [j + 1]) = some c := at?_snoc s q (j + 1) t c ht hc
  have hpre : (q ++ [j + 1]).length ≤ D := by simp; omega
  have := step_cut s hwf hsm D fresh hnp (stAfter D (q ++ [j])) (q ++ [j + 1]) c hcat hpre
    (by simp [stAfter]) (by simp [stAfter])
    (by
      simp only [stAfter, List.length_append, List.length_cons, List.length_nil]
      have h2 : q.length + 0 + 1 ≤ D := by omega
      simp only [h2, if_true, Nat.add_sub_cancel, Nat.add_zero]
      exact pad_modify D q j hD)
  rw [this]
  simp only [stAfter, pad_cutBelow D _ c hpre]

theorem step_carry_G (q : List Nat) (j : Nat) (t : Schema) (ht : s.at? q = some t) (hj : j < t.arity)
    (hlast : ¬ j + 1 < t.arity) (hD : q.length + 1 ≤ D) :
    (stAfter D (q ++ [j])).step s D fresh = .retry ⟨pad D q, 0, q.length⟩ := by
  have hnl := kid_not_leaf t j hj
  have hpadsn := pad_snoc D q (j + 1) hD
  have := step_nf s hwf hsm D fresh hnp (stAfter D (q ++ [j])) q t ht hnl (j + 1) (by omega)
    (List.replicate (D - q.length - 1) 0) hD (by simp [stAfter]) (by simp [stAfter])
    (by
      simp only [stAfter, List.length_append, List.length_cons, List.length_nil]
      have h2 : q.length + 0 + 1 ≤ D := by omega
      simp only [h2, if_true, Nat.add_sub_cancel, Nat.add_zero]
      rw [pad_modify D q j hD, hpadsn])
    (by rw [← hpadsn]; exact pad_length D _ (by simp; omega))
  rw [this, ← hpadsn, pad_set_zero D q (j + 1) hD]
  simp [stAfter]

/-- the loop computes the successor of the cut-off type -/
theorem next_succ_G : ∀ (qr : List Nat) (j : Nat) (t : Schema), s.at? qr.reverse = some t → j < t.arity →
    qr.length + 1 ≤ D → ∀ fuel, qr.length + 2 ≤ fuel →
      (stAfter D (qr.reverse ++ [j])).next s D fresh fuel =
        match succRev (s.trunc D) qr j with
        | some p' => some (.yield (cutItem s fresh p') (stAfter D p'))
        | none => some .done := by
  intro qr
  induction qr with
  | nil =>
    intro j t ht hj hqD fuel hf
    obtain ⟨f, rfl⟩ : ∃ f, fuel = f + 1 := ⟨fuel - 1, by omega⟩
    simp only [List.reverse_nil] at ht
    obtain ⟨m', hm'⟩ : ∃ m', D = m' + 1 := ⟨D - 1, by simp at hqD; omega⟩
    have hT : (s.trunc D).at? [] = some (t.trunc (D - 0)) := trunc_at? [] D s t (by simp) ht
    have hrev := succRev_eq (s.trunc D) [] j _ hT
    rw [show t.trunc (D - 0) = t.trunc (m' + 1) from by rw [hm']; rfl] at hrev
    simp only [List.reverse_nil, trunc_arity] at hrev
    by_cases hlt : j + 1 < t.arity
    · have hc : t.kids[j + 1]? = some (t.kids[j + 1]'hlt) := by simp [Schema.arity] at hlt; simp [hlt]
      have hadv := step_advance_G s hwf hsm D fresh hnp [] j t _ ht hc (by simpa using hqD)
      simp only [List.nil_append] at hadv
      simp only [List.reverse_nil, List.nil_append, IterSt.next, hadv]
      rw [hrev]
      simp only [hlt, if_true, trunc_kid m' t _ (j + 1) hc, Option.getD_some, firstLeaf_trunc, List.nil_append]
      have : cutBelow D [j + 1] (t.kids[j + 1]'hlt) = (j + 1) :: (t.kids[j + 1]'hlt).firstLeaf.take m' := by
        simp [cutBelow, hm']
      rw [this]
    · have hcar := step_carry_G s hwf hsm D fresh hnp [] j t ht hj hlt (by simpa using hqD)
      simp only [List.nil_append] at hcar
      obtain ⟨f', rfl⟩ : ∃ f', f = f' + 1 := ⟨f - 1, by simp at hf; omega⟩
      simp only [List.reverse_nil, List.nil_append, IterSt.next, hcar]
      rw [hrev]
      simp only [hlt, if_false, after, List.reverse_nil]
      simp [IterSt.step, List.length_nil]
  | cons j' qr ih =>
    intro j t ht hj hqD fuel hf
    obtain ⟨f, rfl⟩ : ∃ f, fuel = f + 1 := ⟨fuel - 1, by omega⟩
    have hqlen : (j' :: qr).reverse.length = qr.length + 1 := by simp
    obtain ⟨m', hm'⟩ : ∃ m', D - (j' :: qr).reverse.length = m' + 1 := ⟨D - (j' :: qr).reverse.length - 1, by
      simp only [List.length_cons] at hqD; omega⟩
    have hT := trunc_at? (j' :: qr).reverse D s t (by simp only [List.length_cons] at hqD; omega) ht
    have hrev := succRev_eq (s.trunc D) (j' :: qr).reverse j _ hT
    rw [List.reverse_reverse, hm', trunc_arity] at hrev
    have hqD' : (j' :: qr).reverse.length + 1 ≤ D := by simp only [List.length_cons] at hqD; omega
    by_cases hlt : j + 1 < t.arity
    · have hc : t.kids[j + 1]? = some (t.kids[j + 1]'hlt) := by simp [Schema.arity] at hlt; simp [hlt]
      have hadv := step_advance_G s hwf hsm D fresh hnp (j' :: qr).reverse j t _ ht hc hqD'
      simp only [IterSt.next, hadv]
      rw [hrev]
      simp only [hlt, if_true, trunc_kid m' t _ (j + 1) hc, Option.getD_some, firstLeaf_trunc]
      have : cutBelow D ((j' :: qr).reverse ++ [j + 1]) (t.kids[j + 1]'hlt) =
          (j' :: qr).reverse ++ (j + 1) :: (t.kids[j + 1]'hlt).firstLeaf.take m' := by
        simp only [cutBelow, List.length_append, List.length_cons, List.length_nil, List.append_assoc, List.cons_append,
          List.nil_append]
        congr 3
        omega
      rw [this]
    · have hcar := step_carry_G s hwf hsm D fresh hnp (j' :: qr).reverse j t ht hj hlt hqD'
      simp only [IterSt.next, hcar]
      rw [hrev]
      simp only [hlt, if_false]
      have hq : (j' :: qr).reverse = qr.reverse ++ [j'] := by simp
      obtain ⟨t', ht', hk'⟩ := at?_snoc_inv qr.reverse s t j' (by rw [← hq]; exact ht)
      have hj' : j' < t'.arity := by
        unfold Schema.arity
        exact (List.getElem?_eq_some_iff.mp hk').1
      have := ih j' t' ht' hj' (by simp only [List.length_cons] at hqD; omega) f (by simp at hf; omega)
      have hst : (⟨pad D (j' :: qr).reverse, 0, (j' :: qr).reverse.length⟩ : IterSt) = stAfter D (qr.reverse ++ [j']) := by
        simp [stAfter, hq]
      rw [hst, this, hq, after_snoc, List.reverse_reverse]

end

end MiniconfVerif

namespace MiniconfVerif
set_option autoImplicit false

section
variable (s : Schema) (hwf : s.WF) (hsm : s.Small) (D : Nat) (fresh : Target) (hnp : NoCbPanic s fresh)
include hwf hsm hnp

theorem next_init_G (fuel : Nat) (hf : 1 ≤ fuel) :
    (IterSt.init D).next s D fresh fuel =
      some (.yield (cutItem s fresh (s.trunc D).firstLeaf) (stAfter D (s.trunc D).firstLeaf)) := by
  obtain ⟨f, rfl⟩ : ∃ f, fuel = f + 1 := ⟨fuel - 1, by omega⟩
  have hcut : cutBelow D [] s = (s.trunc D).firstLeaf := by simp [cutBelow, firstLeaf_trunc]
  have := step_cut s hwf hsm D fresh hnp (IterSt.init D) [] s rfl (by simp)
    (by simp [IterSt.init]) (by simp [IterSt.init])
    (by
      have : ¬ (D + 1 ≤ D) := by omega
      simp [IterSt.init, this, pad])
  simp only [IterSt.next, this, hcut]
  have hp := pad_cutBelow D [] s (by simp)
  rw [hcut] at hp
  simp [stAfter, IterSt.init, hp]

theorem next_after_leaf_G (p : List Nat) (hp : (s.trunc D).at? p = some .leaf) (fuel : Nat) (hf : D + 2 ≤ fuel) :
    (stAfter D p).next s D fresh fuel =
      match after (s.trunc D) p with
      | some p' => some (.yield (cutItem s fresh p') (stAfter D p'))
      | none => some .done := by
  cases hr : p.reverse with
  | nil =>
    have : p = [] := by simpa using hr
    subst this
    obtain ⟨f, rfl⟩ : ∃ f, fuel = f + 1 := ⟨fuel - 1, by omega⟩
    simp [after, IterSt.next, IterSt.step, stAfter]
  | cons j qr =>
    have hp' : p = qr.reverse ++ [j] := by
      have := congrArg List.reverse hr
      simpa using this
    subst hp'
    obtain ⟨u, hu, hk⟩ := at?_snoc_inv qr.reverse (s.trunc D) .leaf j hp
    obtain ⟨hq, t, ht, rfl⟩ := at?_of_trunc qr.reverse D s u hu
    -- `u` has a child, so it was not cut: at least one level of budget is left
    have hbud : 1 ≤ D - qr.reverse.length := by
      cases hm : D - qr.reverse.length with
      | zero => rw [hm, trunc_zero] at hk; simp [Schema.kids] at hk
      | succ k => omega
    obtain ⟨k, hk'⟩ : ∃ k, D - qr.reverse.length = k + 1 := ⟨D - qr.reverse.length - 1, by omega⟩
    have hj : j < t.arity := by
      rw [hk'] at hk
      have := (List.getElem?_eq_some_iff.mp hk).1
      rw [← trunc_arity k t]; exact this
    have := next_succ_G s hwf hsm D fresh hnp qr j t ht hj (by simp at hq hbud ⊢; omega) fuel (by simp at hq; omega)
    rw [this, after_snoc, List.reverse_reverse]

theorem poll_chain_G : ∀ (l : List (List Nat)) (p : List Nat) (n : Nat),
    (∀ x ∈ p :: l, (s.trunc D).at? x = some .leaf) → Chain (after (s.trunc D)) (p :: l) none →
      (stAfter D p).poll s D fresh n =
        ((l.map fun x => Polled.item (cutItem s fresh x)) ++ List.replicate n Polled.finished).take n := by
  intro l
  induction l with
  | nil =>
    intro p n hleaf hch
    simp only [Chain] at hch
    have hnext := next_after_leaf_G s hwf hsm D fresh hnp p (hleaf p (by simp)) (D + 2) (by omega)
    rw [hch] at hnext
    simp only [List.map_nil, List.nil_append]
    induction n with
    | zero => rfl
    | succ n ihn =>
      simp only [IterSt.poll, hnext, ihn, List.replicate_succ, List.take_succ_cons]
  | cons b l ih =>
    intro p n hleaf hch
    simp only [Chain] at hch
    have hnext := next_after_leaf_G s hwf hsm D fresh hnp p (hleaf p (by simp)) (D + 2) (by omega)
    rw [hch.1] at hnext
    cases n with
    | zero => rfl
    | succ n =>
      simp only [IterSt.poll, hnext, List.map_cons, List.cons_append, List.take_succ_cons]
      rw [ih b n (fun x hx => hleaf x (by simp at hx ⊢; right; exact hx)) hch.2,
        take_append_replicate _ _ n (n + 1) (by omega)]

/-- **The general enumeration theorem**: any depth limit, any (non-panicking) target -/
theorem poll_init_G (n : Nat) :
    (IterSt.init D).poll s D fresh n =
      (((s.trunc D).leaves.map fun x => Polled.item (cutItem s fresh x)) ++ List.replicate n Polled.finished).take n := by
  have hTwf := trunc_wf D s hwf
  obtain ⟨hhead, hchain⟩ := leaves_are_successor_chain (s.trunc D) hTwf
  cases hl : (s.trunc D).leaves with
  | nil => exact absurd hl (leaves_ne_nil _ hTwf)
  | cons p l =>
    rw [hl] at hhead hchain
    simp only [List.head?_cons, Option.some.injEq] at hhead
    subst hhead
    cases n with
    | zero => rfl
    | succ n =>
      have h0 := next_init_G s hwf hsm D fresh hnp (D + 2) (by omega)
      simp only [IterSt.poll, h0, List.map_cons, List.cons_append, List.take_succ_cons]
      rw [poll_chain_G s hwf hsm D fresh hnp l _ n
        (fun x hx => mem_leaves_at? x _ (by rw [hl]; exact hx)) hchain,
        take_append_replicate _ _ n (n + 1) (by omega)]

end

end MiniconfVerif

namespace MiniconfVerif
set_option autoImplicit false

/-- the items of a depth-limited iteration: the leaves of depth at most `D` and the internal nodes at depth `D` -/
theorem mem_trunc_leaves (s : Schema) (D : Nat) (P : List Nat) :
    P ∈ (s.trunc D).leaves ↔ ∃ t, s.at? P = some t ∧ P.length ≤ D ∧ (t.isLeaf = true ∨ P.length = D) := by
  constructor
  · intro h
    have hl := mem_leaves_at? P _ h
    obtain ⟨hlen, t, ht, he⟩ := at?_of_trunc P D s .leaf hl
    refine ⟨t, ht, hlen, ?_⟩
    cases hm : D - P.length with
    | zero => right; omega
    | succ k =>
      left
      rw [hm] at he
      have := trunc_isLeaf_succ k t
      rw [← he] at this
      exact this.symm
  · rintro ⟨t, ht, hlen, hk⟩
    apply at?_leaf_mem
    rw [trunc_at? P D s t hlen ht]
    rcases hk with hk | hk
    · cases t <;> simp_all [Schema.isLeaf]
      cases D - P.length <;> rfl
    · have : D - P.length = 0 := by omega
      rw [this, trunc_zero]

theorem cbRun_idx_flag (cap m : Nat) : ∀ (p : List Nat) (s : Schema) (slots : List Nat),
    match cbRun Target.cbP s p (.idx slots cap m, false) with
    | .ok st => st.2 = false
    | .fail _ st => st.2 = false := by
  intro p
  induction p with
  | nil => intro s slots; simp [cbRun]
  | cons i p ih =>
    intro s slots
    simp only [cbRun]
    cases hk : s.kids[i]? with
    | none => simp
    | some c =>
      have hcb : Target.cbP (.idx slots cap m, false) (s.cbArg i) =
          (if slots.length < cap ∧ (s.cbArg i).index ≤ m then some (.idx (slots ++ [(s.cbArg i).index]) cap m, false) else none) := by
        simp only [Target.cbP, Target.cbPanics, Bool.false_eq_true, if_false, Target.cb]
        split <;> rfl
      rw [hcb]
      by_cases hcond : slots.length < cap ∧ (s.cbArg i).index ≤ m
      · simp only [hcond, and_self, if_true]
        have := ih c (slots ++ [(s.cbArg i).index])
        cases hr : cbRun Target.cbP c p (.idx (slots ++ [(s.cbArg i).index]) cap m, false) with
        | ok st => rw [hr] at this; simpa [CbRes.up] using this
        | fail d st => rw [hr] at this; simpa [CbRes.up] using this
      · simp only [hcond, if_false]

/-- index-array targets of any capacity never reach a panic site -/
theorem noCbPanic_idx (s : Schema) (cap m : Nat) : NoCbPanic s (.idx [] cap m) :=
  fun p _ _ => cbRun_idx_flag cap m p s []

end MiniconfVerif
