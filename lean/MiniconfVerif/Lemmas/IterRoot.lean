import MiniconfVerif.Lemmas.IterEnum

/-! Rooted iteration: `NodeIter::root(keys)` on the whole type behaves as the unrooted iterator
on the subtree at the root node, with the root path prefixed to the state and all depths
shifted by the root depth. -/
namespace MiniconfVerif
set_option autoImplicit false

def Trav.incrN : Nat → Trav → Trav
  | 0, t => t
  | n + 1, t => (Trav.incrN n t).incr

theorem res_incrN_trav (n : Nat) (t : Trav) : Res.incrN n (.trav t) = .trav (Trav.incrN n t) := by
  induction n with
  | zero => rfl
  | succ n ih => simp [Res.incrN, Trav.incrN, ih, Res.incr]

/-- shift every depth in a lookup result by `r` levels -/
def NodeRes.shift (r : Nat) : NodeRes → NodeRes
  | .leaf d => .leaf (d + r)
  | .internal d => .internal (d + r)
  | .err e => .err (Trav.incrN r e)

theorem trav_incrN_tooShort (n d : Nat) : Trav.incrN n (.tooShort d) = .tooShort (d + n) := by
  induction n with
  | zero => rfl
  | succ n ih => simp [Trav.incrN, ih, Trav.incr]; omega

theorem trav_incrN_notFound (n d : Nat) : Trav.incrN n (.notFound d) = .notFound (d + n) := by
  induction n with
  | zero => rfl
  | succ n ih => simp [Trav.incrN, ih, Trav.incr]; omega

theorem trav_incrN_panic (n : Nat) (s : String) : Trav.incrN n (.panic s) = .panic s := by
  induction n with
  | zero => rfl
  | succ n ih => simp [Trav.incrN, ih, Trav.incr]

theorem toNode_incrN (r : Nat) (x : Res) : (Res.incrN r x).toNode = (x.toNode).shift r := by
  cases x with
  | ok d => simp [incrN_ok, Res.toNode, NodeRes.shift]
  | inner d => simp [incrN_inner, Res.toNode, NodeRes.shift, trav_incrN_tooShort]
  | final =>
    have : Res.incrN r .final = .final := by
      induction r with
      | zero => rfl
      | succ n ih => simp [Res.incrN, ih, Res.incr]
    simp [this, Res.toNode, NodeRes.shift, trav_incrN_panic]
  | trav t =>
    rw [res_incrN_trav]
    cases t with
    | tooShort d => simp [trav_incrN_tooShort, Res.toNode, NodeRes.shift]
    | absent d =>
      simp only [Res.toNode, NodeRes.shift]
      induction r with
      | zero => rfl
      | succ n ih => simp only [Trav.incrN] at ih ⊢; cases h : Trav.incrN n (.absent d) <;> simp_all [Res.toNode, Trav.incr]
    | notFound d => simp [trav_incrN_notFound, Res.toNode, NodeRes.shift]
    | tooLong d =>
      simp only [Res.toNode, NodeRes.shift]
      induction r with
      | zero => rfl
      | succ n ih => simp only [Trav.incrN] at ih ⊢; cases h : Trav.incrN n (.tooLong d) <;> simp_all [Res.toNode, Trav.incr]
    | access d m =>
      simp only [Res.toNode, NodeRes.shift]
      induction r with
      | zero => rfl
      | succ n ih => simp only [Trav.incrN] at ih ⊢; cases h : Trav.incrN n (.access d m) <;> simp_all [Res.toNode, Trav.incr]
    | invalid d m =>
      simp only [Res.toNode, NodeRes.shift]
      induction r with
      | zero => rfl
      | succ n ih => simp only [Trav.incrN] at ih ⊢; cases h : Trav.incrN n (.invalid d m) <;> simp_all [Res.toNode, Trav.incr]
    | panic s => simp [trav_incrN_panic, Res.toNode, NodeRes.shift]

/-- transcoding a state that starts with a valid, accepted root path -/
theorem transcode_prefix (s t0 : Schema) (hwf : s.WF) (hsm : s.Small) (c : List Nat) (ht : s.at? c = some t0)
    (fresh fc : Target) (hc : cbAlong Target.cbP s c (fresh, false) = some (fc, false)) (st : List Nat) :
    s.transcode (stateKeys (c ++ st)) fresh =
      ((t0.transcode (stateKeys st) fc).1.shift c.length, (t0.transcode (stateKeys st) fc).2) := by
  have hwf0 := wf_at? s t0 c hwf ht
  have hsm0 := small_at? s t0 c hsm ht
  simp only [Schema.transcode, stateKeys_eq, traverse_eq_idxWalk Target.cbP false _ s _ hwf hsm,
    traverse_eq_idxWalk Target.cbP false _ t0 _ hwf0 hsm0]
  rw [idxWalk_prefix Target.cbP false c s t0 st (fresh, false) (fc, false) ht hc]
  simp only []
  split
  · simp [NodeRes.shift, trav_incrN_panic]
  · rw [toNode_incrN]

end MiniconfVerif

namespace MiniconfVerif
set_option autoImplicit false

def liftItem (r : Nat) : IterItem → IterItem
  | .node tgt n => .node tgt (n.shift r)
  | .capErr d => .capErr (d + r)

/-- the state of the rooted iterator that corresponds to a state of the subtree's iterator -/
def liftSt (c : List Nat) (it : IterSt) : IterSt := ⟨c ++ it.state, it.root + c.length, it.depth + c.length⟩

def liftStep (c : List Nat) : IterStep → IterStep
  | .done => .done
  | .retry it => .retry (liftSt c it)
  | .yield x it => .yield (liftItem c.length x) (liftSt c it)
  | .panic s => .panic s

def IterStep.isPanic : IterStep → Bool
  | .panic _ => true
  | _ => false

theorem modify_append_right' {α : Type} (a b : List α) (i : Nat) (f : α → α) :
    (a ++ b).modify (a.length + i) f = a ++ b.modify i f := by
  induction a with
  | nil => simp
  | cons x a ih => simp [Nat.succ_add, ih]

theorem set_append_right' {α : Type} (a b : List α) (i : Nat) (y : α) :
    (a ++ b).set (a.length + i) y = a ++ b.set i y := by
  induction a with
  | nil => simp
  | cons x a ih => simp [Nat.succ_add, ih]

section
variable (s t0 : Schema) (hwf : s.WF) (hsm : s.Small) (c : List Nat) (ht : s.at? c = some t0)
  (fresh fc : Target) (hc : cbAlong Target.cbP s c (fresh, false) = some (fc, false)) (D' : Nat)
include hwf hsm ht hc

/-- one pass of the loop: the rooted iterator does what the subtree's iterator does -/
theorem step_lift (it : IterSt) (hroot : it.root = 0) (hlen : it.state.length = D')
    (hnp : (it.step t0 D' fc).isPanic = false) :
    (liftSt c it).step s (D' + c.length) fresh = liftStep c (it.step t0 D' fc) := by
  obtain ⟨st, root, d⟩ := it
  simp only at hroot hlen
  subst hroot
  have hu := cbAlong_unit c s t0 ht
  unfold IterSt.step at hnp ⊢
  simp only [liftSt, Nat.zero_add] at hnp ⊢
  by_cases hd0 : d = 0
  · subst hd0; simp [liftStep]
  · have h1 : ¬ (d + c.length = c.length) := by omega
    have h2 : ¬ (d + c.length ≤ D' + c.length ∧ d + c.length = 0) := by omega
    have h3 : ¬ (d ≤ D' ∧ d = 0) := by omega
    simp only [hd0, h1, h2, h3, and_false, if_false] at hnp ⊢
    -- the incremented state
    have hstate : (if d + c.length ≤ D' + c.length then (c ++ st).modify (d + c.length - 1) (· + 1) else c ++ st) =
        c ++ (if d ≤ D' then st.modify (d - 1) (· + 1) else st) := by
      by_cases hle : d ≤ D'
      · have : d + c.length ≤ D' + c.length := by omega
        simp only [hle, this, if_true]
        have : d + c.length - 1 = c.length + (d - 1) := by omega
        rw [this, modify_append_right']
      · have : ¬ (d + c.length ≤ D' + c.length) := by omega
        simp only [hle, this, if_false]
    rw [hstate]
    generalize hst' : (if d ≤ D' then st.modify (d - 1) (· + 1) else st) = st' at hnp ⊢
    have hlen' : st'.length = D' := by
      rw [← hst']; split <;> simp [hlen]
    rw [transcode_prefix s t0 hwf hsm c ht fresh fc hc st', transcode_prefix s t0 hwf hsm c ht .unit .unit hu st']
    -- the carry, shifted
    have hcarry : ∀ d2, ¬ (d2 = 0 ∨ d2 > st'.length) →
        (if d2 + c.length = 0 ∨ d2 + c.length > (c ++ st').length then IterStep.panic "reset index"
          else IterStep.retry ⟨(c ++ st').set (d2 + c.length - 1) 0, c.length, max (d2 + c.length - 1) c.length⟩) =
        liftStep c (.retry ⟨st'.set (d2 - 1) 0, 0, max (d2 - 1) 0⟩) := by
      intro d2 h
      have hn : ¬ (d2 + c.length = 0 ∨ d2 + c.length > (c ++ st').length) := by
        simp only [List.length_append]; omega
      simp only [hn, if_false, liftStep, liftSt, Nat.zero_add]
      have e1 : d2 + c.length - 1 = c.length + (d2 - 1) := by omega
      rw [e1, set_append_right']
      congr 2
      omega
    cases hr : t0.transcode (stateKeys st') fc with
    | mk res tg =>
      rw [hr] at hnp
      cases res with
      | leaf d2 => simp [NodeRes.shift, liftStep, liftItem, liftSt]
      | internal d2 => simp [NodeRes.shift, liftStep, liftItem, liftSt]
      | err e =>
        cases e with
        | notFound d2 =>
          simp only [NodeRes.shift, trav_incrN_notFound] at hnp ⊢
          by_cases hb : d2 = 0 ∨ d2 > st'.length
          · simp [hb, IterStep.isPanic] at hnp
          · simp only [hb, if_false] at hnp ⊢
            exact hcarry d2 hb
        | tooShort cd =>
          simp only [NodeRes.shift, trav_incrN_tooShort] at hnp ⊢
          cases hr2 : t0.transcode (stateKeys st') .unit with
          | mk res2 tg2 =>
            rw [hr2] at hnp
            cases res2 with
            | leaf d2 => simp [NodeRes.shift, liftStep, liftItem, liftSt]
            | internal d2 => simp [NodeRes.shift, liftStep, liftItem, liftSt]
            | err e2 =>
              cases e2 with
              | notFound d2 =>
                simp only [NodeRes.shift, trav_incrN_notFound] at hnp ⊢
                by_cases hb : d2 = 0 ∨ d2 > st'.length
                · simp [hb, IterStep.isPanic] at hnp
                · simp only [hb, if_false] at hnp ⊢
                  exact hcarry d2 hb
              | _ => simp [IterStep.isPanic] at hnp
        | _ => simp [IterStep.isPanic] at hnp

end

end MiniconfVerif

namespace MiniconfVerif
set_option autoImplicit false

/-- whatever a pass of the loop produces, the new state keeps the array length and the root -/
theorem step_keeps (t0 : Schema) (D' : Nat) (fc : Target) (it : IterSt) (hlen : it.state.length = D') :
    (∀ it', it.step t0 D' fc = .retry it' → it'.state.length = D' ∧ it'.root = it.root) ∧
    (∀ x it', it.step t0 D' fc = .yield x it' → it'.state.length = D' ∧ it'.root = it.root) := by
  unfold IterSt.step
  have hl : (if it.depth ≤ D' then it.state.modify (it.depth - 1) (· + 1) else it.state).length = D' := by
    split <;> simp [hlen]
  generalize (if it.depth ≤ D' then it.state.modify (it.depth - 1) (· + 1) else it.state) = st' at hl
  have P : ∀ site : String,
      (∀ it', IterStep.panic site = .retry it' → it'.state.length = D' ∧ it'.root = it.root) ∧
      (∀ x it', IterStep.panic site = .yield x it' → it'.state.length = D' ∧ it'.root = it.root) :=
    fun site => ⟨fun it' h => (nomatch h), fun x it' h => (nomatch h)⟩
  have Dn : (∀ it', IterStep.done = .retry it' → it'.state.length = D' ∧ it'.root = it.root) ∧
      (∀ x it', IterStep.done = .yield x it' → it'.state.length = D' ∧ it'.root = it.root) :=
    ⟨fun it' h => (nomatch h), fun x it' h => (nomatch h)⟩
  have Y : ∀ (y : IterItem) (d : Nat),
      (∀ it', IterStep.yield y ⟨st', it.root, d⟩ = .retry it' → it'.state.length = D' ∧ it'.root = it.root) ∧
      (∀ x it', IterStep.yield y ⟨st', it.root, d⟩ = .yield x it' → it'.state.length = D' ∧ it'.root = it.root) := by
    intro y d
    refine ⟨fun it' h => (nomatch h), fun x it' h => ?_⟩
    simp only [IterStep.yield.injEq] at h
    rw [← h.2]; exact ⟨hl, rfl⟩
  have hnf : ∀ d : Nat,
      (∀ it', (if d = 0 ∨ d > st'.length then IterStep.panic "reset index"
          else IterStep.retry ⟨st'.set (d - 1) 0, it.root, max (d - 1) it.root⟩) = .retry it' →
        it'.state.length = D' ∧ it'.root = it.root) ∧
      (∀ x it', (if d = 0 ∨ d > st'.length then IterStep.panic "reset index"
          else IterStep.retry ⟨st'.set (d - 1) 0, it.root, max (d - 1) it.root⟩) = .yield x it' →
        it'.state.length = D' ∧ it'.root = it.root) := by
    intro d
    by_cases hb : d = 0 ∨ d > st'.length
    · simp only [hb, if_true]; exact P _
    · simp only [hb, if_false]
      refine ⟨fun it' h => ?_, fun x it' h => (nomatch h)⟩
      simp only [IterStep.retry.injEq] at h
      subst h; exact ⟨by simp [hl], rfl⟩
  by_cases h1 : it.depth = it.root
  · rw [if_pos h1]; exact Dn
  · by_cases h2 : it.depth ≤ D' ∧ it.depth = 0
    · rw [if_neg h1, if_pos h2]; exact P _
    · rw [if_neg h1, if_neg h2]
      simp only []
      cases t0.transcode (stateKeys st') fc with
      | mk res tg =>
        cases res with
        | leaf d => exact Y _ d
        | internal d => exact Y _ d
        | err e =>
          cases e with
          | notFound d => exact hnf d
          | tooShort cd =>
            simp only []
            cases t0.transcode (stateKeys st') .unit with
            | mk res2 tg2 =>
              cases res2 with
              | leaf d => exact Y _ d
              | internal d => exact Y _ d
              | err e2 =>
                cases e2 with
                | notFound d => exact hnf d
                | _ => exact P _
          | _ => exact P _

theorem step_state_length (t0 : Schema) (D' : Nat) (fc : Target) (it it' : IterSt) (hlen : it.state.length = D')
    (h : it.step t0 D' fc = .retry it') : it'.state.length = D' ∧ it'.root = it.root :=
  (step_keeps t0 D' fc it hlen).1 it' h

theorem step_yield_length (t0 : Schema) (D' : Nat) (fc : Target) (it it' : IterSt) (x : IterItem)
    (hlen : it.state.length = D') (h : it.step t0 D' fc = .yield x it') : it'.state.length = D' ∧ it'.root = it.root :=
  (step_keeps t0 D' fc it hlen).2 x it' h

section
variable (s t0 : Schema) (hwf : s.WF) (hsm : s.Small) (c : List Nat) (ht : s.at? c = some t0)
  (fresh fc : Target) (hc : cbAlong Target.cbP s c (fresh, false) = some (fc, false)) (D' : Nat)
include hwf hsm ht hc

/-- a whole `next()` call -/
theorem next_lift : ∀ (fuel : Nat) (it : IterSt) (x : IterStep), it.root = 0 → it.state.length = D' →
    it.next t0 D' fc fuel = some x → x.isPanic = false →
    (liftSt c it).next s (D' + c.length) fresh fuel = some (liftStep c x)
  | 0, _, _, _, _, h, _ => by simp [IterSt.next] at h
  | fuel + 1, it, x, hroot, hlen, h, hnp => by
    simp only [IterSt.next] at h ⊢
    cases hs : it.step t0 D' fc with
    | retry it' =>
      rw [hs] at h
      have hsl := step_lift s t0 hwf hsm c ht fresh fc hc D' it hroot hlen (by rw [hs]; rfl)
      rw [hsl, hs]
      simp only [liftStep]
      obtain ⟨hl', hr'⟩ := step_state_length t0 D' fc it it' hlen hs
      exact next_lift fuel it' x (by rw [hr', hroot]) hl' h hnp
    | done =>
      rw [hs] at h
      have hsl := step_lift s t0 hwf hsm c ht fresh fc hc D' it hroot hlen (by rw [hs]; rfl)
      rw [hsl, hs]
      simp only [Option.some.injEq] at h
      subst h; rfl
    | yield y it' =>
      rw [hs] at h
      have hsl := step_lift s t0 hwf hsm c ht fresh fc hc D' it hroot hlen (by rw [hs]; rfl)
      rw [hsl, hs]
      simp only [Option.some.injEq] at h
      subst h; rfl
    | panic site =>
      rw [hs] at h
      simp only [Option.some.injEq] at h
      subst h
      simp [IterStep.isPanic] at hnp

def liftPolled (r : Nat) : Polled → Polled
  | .item x => .item (liftItem r x)
  | .finished => .finished
  | .broken => .broken

end

/-- polling: the fuel of the rooted iterator is `(D' + |c|) + 2 ≥ D' + 2`; the loop needs at most `D' + 2` passes -/
theorem next_fuel_mono (t0 : Schema) (D' : Nat) (fc : Target) : ∀ (fuel : Nat) (it : IterSt) (x : IterStep),
    it.next t0 D' fc fuel = some x → ∀ k, it.next t0 D' fc (fuel + k) = some x
  | 0, _, _, h, _ => by simp [IterSt.next] at h
  | fuel + 1, it, x, h, k => by
    have e : fuel + 1 + k = (fuel + k) + 1 := by omega
    rw [e]
    simp only [IterSt.next] at h ⊢
    cases hs : it.step t0 D' fc with
    | retry it' => rw [hs] at h; simp only []; exact next_fuel_mono t0 D' fc fuel it' x h k
    | done => rw [hs] at h; exact h
    | yield y it' => rw [hs] at h; exact h
    | panic site => rw [hs] at h; exact h

section
variable (s t0 : Schema) (hwf : s.WF) (hsm : s.Small) (c : List Nat) (ht : s.at? c = some t0)
  (fresh fc : Target) (hc : cbAlong Target.cbP s c (fresh, false) = some (fc, false)) (D' : Nat)
include hwf hsm ht hc

theorem poll_lift : ∀ (n : Nat) (it : IterSt), it.root = 0 → it.state.length = D' →
    Polled.broken ∉ it.poll t0 D' fc n →
    (liftSt c it).poll s (D' + c.length) fresh n = (it.poll t0 D' fc n).map (liftPolled c.length)
  | 0, _, _, _, _ => rfl
  | n + 1, it, hroot, hlen, hnb => by
    simp only [IterSt.poll] at hnb ⊢
    cases hnx : it.next t0 D' fc (D' + 2) with
    | none => rw [hnx] at hnb; simp at hnb
    | some x =>
      rw [hnx] at hnb
      have hfu : it.next t0 D' fc (D' + 2 + c.length) = some x := next_fuel_mono t0 D' fc _ it x hnx c.length
      have e : D' + c.length + 2 = D' + 2 + c.length := by omega
      cases x with
      | panic site => simp at hnb
      | retry it' => simp at hnb
      | done =>
        have := next_lift s t0 hwf hsm c ht fresh fc hc D' _ it .done hroot hlen hfu rfl
        rw [e, this]
        simp only [liftStep, List.map_cons, liftPolled]
        rw [poll_lift n it hroot hlen (by simpa using hnb)]
      | yield y it' =>
        have := next_lift s t0 hwf hsm c ht fresh fc hc D' _ it (.yield y it') hroot hlen hfu rfl
        rw [e, this]
        simp only [liftStep, List.map_cons, liftPolled]
        -- the next state keeps root 0 and its length
        have hst : it'.state.length = D' ∧ it'.root = 0 := by
          have : ∀ (fuel : Nat) (i : IterSt), i.root = 0 → i.state.length = D' →
              i.next t0 D' fc fuel = some (.yield y it') → it'.state.length = D' ∧ it'.root = 0 := by
            intro fuel
            induction fuel with
            | zero => intro i _ _ h; simp [IterSt.next] at h
            | succ f ih =>
              intro i hr hl h
              simp only [IterSt.next] at h
              cases hs : i.step t0 D' fc with
              | retry i' =>
                rw [hs] at h
                obtain ⟨a, b⟩ := step_state_length t0 D' fc i i' hl hs
                exact ih i' (by rw [b, hr]) a h
              | done => rw [hs] at h; cases h
              | panic site => rw [hs] at h; cases h
              | yield y2 i2 =>
                rw [hs] at h
                simp only [Option.some.injEq, IterStep.yield.injEq] at h
                obtain ⟨rfl, rfl⟩ := h
                obtain ⟨a, b⟩ := step_yield_length t0 D' fc i i2 y2 hl hs
                exact ⟨a, by rw [b, hr]⟩
          exact this _ it hroot hlen hnx
        rw [poll_lift n it' hst.2 hst.1 (by simpa using hnb)]

end

end MiniconfVerif

namespace MiniconfVerif
set_option autoImplicit false

/-- the subtree's target after the root path accepts every path of the subtree -/
theorem accepts_sub (s t0 : Schema) (c : List Nat) (ht : s.at? c = some t0) (fresh fc : Target)
    (hacc : Accepts s fresh) (hc : cbAlong Target.cbP s c (fresh, false) = some (fc, false)) :
    Accepts t0 fc ∧ ∀ p t, t0.at? p = some t → tgtAt t0 fc p = tgtAt s fresh (c ++ p) := by
  have key : ∀ p t, t0.at? p = some t → ∃ tg, cbAlong Target.cbP t0 p (fc, false) = some (tg, false) ∧
      cbAlong Target.cbP s (c ++ p) (fresh, false) = some (tg, false) := by
    intro p t hp
    obtain ⟨tg, htg⟩ := hacc (c ++ p) t (at?_append_some s t0 t c p ht hp)
    have := cbAlong_append Target.cbP c s t0 p (fresh, false) ht
    rw [htg, hc] at this
    exact ⟨tg, by simpa using this.symm, htg⟩
  refine ⟨fun p t hp => ?_, fun p t hp => ?_⟩
  · obtain ⟨tg, h1, _⟩ := key p t hp; exact ⟨tg, h1⟩
  · obtain ⟨tg, h1, h2⟩ := key p t hp
    simp [tgtAt, h1, h2]

theorem poll_no_broken (s : Schema) (hwf : s.WF) (hsm : s.Small) (D : Nat) (hD : s.maxDepth ≤ D) (fresh : Target)
    (hacc : Accepts s fresh) (n : Nat) : Polled.broken ∉ (IterSt.init D).poll s D fresh n := by
  rw [poll_init s hwf hsm D fresh hacc hD n]
  intro hm
  have hm' := List.mem_of_mem_take hm
  simp only [List.mem_append, List.mem_map, List.mem_replicate] at hm'
  rcases hm' with ⟨_, _, h1⟩ | ⟨_, h2⟩
  · cases h1
  · cases h2

/-- **Rooted iteration is exact**: the iterator rooted at the node at path `c` yields exactly the
leaves at or below that node, in order, each with its full-depth `Node` and the target
transcoded along the full path, then `None` for ever -/
theorem poll_rooted (s : Schema) (hwf : s.WF) (hsm : s.Small) (D : Nat) (hD : s.maxDepth ≤ D) (fresh : Target)
    (hacc : Accepts s fresh) (c : List Nat) (t0 : Schema) (ht : s.at? c = some t0) (n : Nat) :
    (liftSt c (IterSt.init (D - c.length))).poll s D fresh n =
      ((t0.leaves.map fun p => Polled.item (.node (tgtAt s fresh (c ++ p)) (.leaf (p.length + c.length)))) ++
        List.replicate n Polled.finished).take n := by
  have hdep := at?_depth c s t0 ht
  obtain ⟨fc, hc⟩ := hacc c t0 ht
  obtain ⟨hacc0, htg⟩ := accepts_sub s t0 c ht fresh fc hacc hc
  have hwf0 := wf_at? s t0 c hwf ht
  have hsm0 := small_at? s t0 c hsm ht
  have hD0 : t0.maxDepth ≤ D - c.length := by omega
  have hDD : D - c.length + c.length = D := by omega
  have hl := poll_lift s t0 hwf hsm c ht fresh fc hc (D - c.length) n (IterSt.init (D - c.length)) rfl
    (by simp [IterSt.init]) (poll_no_broken t0 hwf0 hsm0 _ hD0 fc hacc0 n)
  rw [hDD] at hl
  rw [hl, poll_init t0 hwf0 hsm0 _ fc hacc0 hD0 n]
  rw [List.map_take, List.map_append, List.map_map, List.map_replicate]
  congr 2
  · apply List.map_congr_left
    intro p hp
    have hpl := mem_leaves_at? p t0 hp
    simp only [Function.comp, liftPolled, liftItem, leafItem, NodeRes.shift, htg p .leaf hpl]

/-- `NodeIter::root(keys)`: the state it sets up is the lifted initial state of the subtree -/
theorem withRoot_eq (s : Schema) (hwf : s.WF) (hsm : s.Small) (D : Nat) (hD : s.maxDepth ≤ D) (ks : KeySrc)
    (c : List Nat) (k : NodeRes) (hk : ∃ d, k = .leaf d ∨ k = .internal d)
    (htr : s.transcode ks (.idx [] D (2 ^ 64 - 1)) = (k, .idx c D (2 ^ 64 - 1)))
    (hdepth : ∀ d, (k = .leaf d ∨ k = .internal d) → d = c.length) (hc : c.length ≤ D) :
    IterSt.withRoot s D ks = .ok (liftSt c (IterSt.init (D - c.length))) := by
  obtain ⟨d, hd⟩ := hk
  have hdl := hdepth d hd
  subst hdl
  unfold IterSt.withRoot
  rw [htr]
  have e1 : D - c.length + 1 + c.length = D + 1 := by omega
  rcases hd with rfl | rfl <;> simp [liftSt, IterSt.init, e1]

end MiniconfVerif
