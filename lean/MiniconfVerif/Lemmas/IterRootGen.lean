import MiniconfVerif.Lemmas.IterRoot
import MiniconfVerif.Lemmas.IterGen
import MiniconfVerif.Lemmas.Factor

/-! Rooted **and** depth-limited / capacity-limited iteration: the simulation of `IterRoot` (`poll_lift`)
composed with the general enumeration theorem of `IterGen` (`poll_init_G`) for the subtree. -/
namespace MiniconfVerif
set_option autoImplicit false

theorem poll_G_no_broken (s : Schema) (hwf : s.WF) (hsm : s.Small) (D : Nat) (fresh : Target)
    (hnp : NoCbPanic s fresh) (n : Nat) : Polled.broken ∉ (IterSt.init D).poll s D fresh n := by
  rw [poll_init_G s hwf hsm D fresh hnp n]
  intro hm
  have hm' := List.mem_of_mem_take hm
  simp only [List.mem_append, List.mem_map, List.mem_replicate] at hm'
  rcases hm' with ⟨_, _, h1⟩ | ⟨_, h2⟩
  · cases h1
  · cases h2

/-- **Rooted and limited**: the iterator rooted at the node at path `c` (subtree `t0`, the target having
accepted the root path and being `fc` there) with `D'` state slots left below the root yields, for *every*
`D'` and every target that does not panic on the subtree, one item per leaf of the subtree cut off at depth
`D'` — lifted by the root depth — then `None` for ever. -/
theorem poll_rooted_G (s : Schema) (hwf : s.WF) (hsm : s.Small) (c : List Nat) (t0 : Schema)
    (ht : s.at? c = some t0) (fresh fc : Target)
    (hc : cbAlong Target.cbP s c (fresh, false) = some (fc, false)) (D' : Nat) (hnp : NoCbPanic t0 fc) (n : Nat) :
    (liftSt c (IterSt.init D')).poll s (D' + c.length) fresh n =
      (((t0.trunc D').leaves.map fun P => liftPolled c.length (Polled.item (cutItem t0 fc P))) ++
        List.replicate n Polled.finished).take n := by
  have hwf0 := wf_at? s t0 c hwf ht
  have hsm0 := small_at? s t0 c hsm ht
  have hl := poll_lift s t0 hwf hsm c ht fresh fc hc D' n (IterSt.init D') rfl
    (by simp [IterSt.init]) (poll_G_no_broken t0 hwf0 hsm0 D' fc hnp n)
  rw [hl, poll_init_G t0 hwf0 hsm0 D' fc hnp n]
  rw [List.map_take, List.map_append, List.map_map, List.map_replicate]
  rfl

/-- an index target: if all callbacks along a path succeed, the slots are that path and it fits the capacity -/
theorem cbAlong_idx_some (cap m : Nat) : ∀ (p : List Nat) (s : Schema) (slots : List Nat) (st' : Target × Bool),
    slots.length ≤ cap → cbAlong Target.cbP s p (.idx slots cap m, false) = some st' →
      st' = (.idx (slots ++ p) cap m, false) ∧ slots.length + p.length ≤ cap := by
  intro p
  induction p with
  | nil =>
    intro s slots st' hle h
    simp only [cbAlong, Option.some.injEq] at h
    subst h
    simpa using hle
  | cons i p ih =>
    intro s slots st' hle h
    simp only [cbAlong] at h
    cases hk : s.kids[i]? with
    | none => simp [hk] at h
    | some c =>
      simp only [hk] at h
      cases hcb : Target.cbP (.idx slots cap m, false) (s.cbArg i) with
      | none => simp [hcb] at h
      | some st1 =>
        simp only [hcb] at h
        -- the callback of an index target appends the index when there is room
        have hst1 : st1 = (.idx (slots ++ [(s.cbArg i).index]) cap m, false) ∧ slots.length < cap := by
          simp only [Target.cbP, Target.cbPanics, Bool.false_eq_true, if_false, Target.cb] at hcb
          by_cases hroom : slots.length < cap ∧ (s.cbArg i).index ≤ m
          · simp only [hroom, and_self, if_true, Option.map_some, Option.some.injEq] at hcb
            exact ⟨hcb.symm, hroom.1⟩
          · simp [hroom] at hcb
        obtain ⟨rfl, hlt⟩ := hst1
        obtain ⟨h1, h2⟩ := ih c _ st' (by simp; omega) h
        have hidx : (s.cbArg i).index = i := by cases s <;> rfl
        refine ⟨by rw [h1, hidx]; simp, ?_⟩
        simp only [List.length_append, List.length_cons, List.length_nil] at h2 ⊢
        omega

/-- `NodeIter::root(keys)` with **any** state length `D`: if it succeeds, it selected a node whose path fits the state,
and the iterator is the subtree's fresh iterator lifted by that path -/
theorem withRoot_lift (s : Schema) (hwf : s.WF) (D : Nat) (ks : KeySrc) (it : IterSt)
    (hroot : IterSt.withRoot s D ks = .ok it) :
    ∃ c t0, s.at? c = some t0 ∧ c.length ≤ D ∧ it = liftSt c (IterSt.init (D - c.length)) := by
  obtain ⟨p, hp⟩ := traverse_factor Target.cbP s ks (.idx [] D (2 ^ 64 - 1), false) hwf
  rcases hp with ⟨t, ks', st', h1, h2, h3, h4⟩ | ⟨q, i, t, stq, h1, h2, h3, h4, h5, h6⟩
  · obtain ⟨rfl, hfit⟩ := cbAlong_idx_some D (2 ^ 64 - 1) p s [] st' (by simp) h2
    simp only [List.nil_append, List.length_nil, Nat.zero_add] at hfit
    have htr : s.transcode ks (.idx [] D (2 ^ 64 - 1)) =
        ((Res.incrN p.length (stopAt t ks')).toNode, .idx p D (2 ^ 64 - 1)) := by
      simp [Schema.transcode, h4]
    refine ⟨p, t, h1, hfit, ?_⟩
    have e1 : D - p.length + 1 + p.length = D + 1 := by omega
    unfold IterSt.withRoot at hroot
    rw [htr] at hroot
    cases hk : (Res.incrN p.length (stopAt t ks')).toNode with
    | err e => rw [hk] at hroot; cases hroot
    | leaf d =>
      have hd := stop_node_kind t ks' p.length h3 d (Or.inl hk)
      rw [hk] at hroot hd
      have : d = p.length := by cases hl : t.isLeaf <;> simp [hl] at hd; exact hd
      subst this
      simp only [Except.ok.injEq] at hroot
      rw [← hroot]; simp [liftSt, IterSt.init, e1]
    | internal d =>
      have hd := stop_node_kind t ks' p.length h3 d (Or.inr hk)
      rw [hk] at hroot hd
      have : d = p.length := by cases hl : t.isLeaf <;> simp [hl] at hd; exact hd
      subst this
      simp only [Except.ok.injEq] at hroot
      rw [← hroot]; simp [liftSt, IterSt.init, e1]
  · -- the index target ran out of slots: `root()` reports the error
    unfold IterSt.withRoot at hroot
    have : (s.transcode ks (.idx [] D (2 ^ 64 - 1))).1 = .err (.tooShort p.length) ∨
        ∃ e, (s.transcode ks (.idx [] D (2 ^ 64 - 1))).1 = .err e := by
      right
      simp only [Schema.transcode, h6]
      split <;> exact ⟨_, rfl⟩
    obtain ⟨e, he⟩ := this.elim (fun h => ⟨_, h⟩) id
    cases hx : s.transcode ks (.idx [] D (2 ^ 64 - 1)) with
    | mk r tg =>
      rw [hx] at he hroot
      simp only at he
      subst he
      cases hroot

end MiniconfVerif
