import MiniconfVerif.Lemmas.PathIter

namespace MiniconfVerif.PathIter

/-- the four delimiter characters of the JSON-style notation -/
def delims : List Char := ['.', '\'', '[', ']']

def DelimFree (n : Str) : Prop := ∀ c ∈ n, c ∉ delims

instance (n : Str) : Decidable (DelimFree n) := by unfold DelimFree; exact inferInstance

inductive Notation where
  | dot | bracket | quoted | dotQuoted
  deriving Repr, DecidableEq

/-- the written forms of one key: `.name`, `[name]`, `['name']`, `.'name'` -/
def render : Notation → Str → Str
  | .dot, n => '.' :: n
  | .bracket, n => '[' :: (n ++ [']'])
  | .quoted, n => '[' :: '\'' :: (n ++ ['\'', ']'])
  | .dotQuoted, n => '.' :: '\'' :: (n ++ ['\''])

/-- what may follow a key: end of string or the opening of another key -/
def OpensOrEnd (rest : Str) : Prop := rest = [] ∨ ∃ tl, rest = '.' :: tl ∨ rest = '[' :: tl

theorem render_opens (nt : Notation) (n rest : Str) : OpensOrEnd (render nt n ++ rest) := by
  right
  cases nt <;> simp [render]

theorem findAny_free (set : List Char) (n rest : Str) (hn : ∀ c ∈ n, set.contains c = false) :
    findAny set (n ++ rest) = (findAny set rest).map (· + byteLen n) := by
  induction n with
  | nil => simp
  | cons c n ih =>
    have hc := hn c (List.mem_cons_self)
    have ih' := ih (fun d hd => hn d (List.mem_cons_of_mem _ hd))
    simp only [List.cons_append, findAny, hc, ih', byteLen_cons]
    cases findAny set rest <;> simp <;> omega

theorem findStr_free (p : Char) (pt : Str) (n rest : Str) (hn : p ∉ n) :
    findStr (p :: pt) (n ++ (p :: pt) ++ rest) = some (byteLen n) := by
  induction n with
  | nil =>
    show findStr (p :: pt) (p :: (pt ++ rest)) = some 0
    unfold findStr
    rw [if_pos (by simp)]
  | cons c n ih =>
    have hc : c ≠ p := fun h => hn (h ▸ List.mem_cons_self)
    have ih' := ih (fun hd => hn (List.mem_cons_of_mem _ hd))
    have hpc : (p == c) = false := by simpa using fun h => hc h.symm
    simp only [List.cons_append] at ih' ⊢
    rw [findStr, List.isPrefixOf, hpc]
    simp only [Bool.false_and, Bool.false_eq_true, if_false, ih', Option.map_some, byteLen_cons]
    congr 1; omega

theorem DelimFree.not_mem {n : Str} (h : DelimFree n) {c : Char} (hc : c ∈ delims) : c ∉ n :=
  fun hm => h c hm hc

theorem DelimFree.head_ne {n rest : Str} (h : DelimFree n) (hr : OpensOrEnd rest) :
    ∀ x xs, n ++ rest = x :: xs → x ≠ '\'' := by
  intro x xs e hx
  subst hx
  cases n with
  | nil =>
    simp only [List.nil_append] at e
    rcases hr with hr | ⟨tl, hr | hr⟩ <;> simp [hr] at e
  | cons c n =>
    simp only [List.cons_append, List.cons.injEq] at e
    exact h c (List.mem_cons_self) (by simp [delims, e.1])

/-- one parsing step on any written form of `n`, followed by `rest` -/
theorem jnext_render (nt : Notation) (n rest : Str) (hn : DelimFree n) (hr : OpensOrEnd rest) :
    jnext (render nt n ++ rest) = .item n rest := by
  cases nt with
  | dot =>
    -- rule 1 (`.'`) does not match, rule 2 (`.`) does
    have h1 : stripPrefix ['.', '\''] ('.' :: (n ++ rest)) = none := by
      cases hnr : n ++ rest with
      | nil => simp [stripPrefix, List.isPrefixOf]
      | cons x xs =>
        have := hn.head_ne hr x xs hnr
        simp [stripPrefix, List.isPrefixOf, this]
        intro h; exact absurd h.symm this
    have h2 : stripPrefix ['.'] ('.' :: (n ++ rest)) = some (n ++ rest) := by
      simp [stripPrefix, List.isPrefixOf]
    simp only [jnext, rules, jnextWith, render, List.cons_append, h1, h2, applyRule]
    have hfree : ∀ c ∈ n, ['.', '['].contains c = false := by
      intro c hc
      have := hn c hc
      simp [delims] at this ⊢
      exact ⟨this.1, this.2.2.1⟩
    rw [findAny_free _ _ _ hfree]
    have hfa : ((findAny ['.', '['] rest).map (· + byteLen n)).getD (byteLen (n ++ rest)) = byteLen n := by
      rcases hr with hr | ⟨tl, hr | hr⟩ <;> subst hr <;> simp [findAny]
    rw [hfa, splitAtByte_prefix]
    simp [splitAtByte_zero]
  | bracket =>
    have h1 : stripPrefix ['.', '\''] ('[' :: (n ++ [']'] ++ rest)) = none := by
      simp [stripPrefix, List.isPrefixOf]
    have h2 : stripPrefix ['.'] ('[' :: (n ++ [']'] ++ rest)) = none := by
      simp [stripPrefix, List.isPrefixOf]
    have h3 : stripPrefix ['[', '\''] ('[' :: (n ++ [']'] ++ rest)) = none := by
      cases hnr : n ++ [']'] ++ rest with
      | nil => simp at hnr
      | cons x xs =>
        have hx : x ≠ '\'' := by
          cases n with
          | nil => simp at hnr; rw [← hnr.1]; decide
          | cons c n =>
            simp at hnr
            rw [← hnr.1]
            exact fun e => hn c (List.mem_cons_self) (by simp [delims, e])
        simp [stripPrefix, List.isPrefixOf]
        intro h; exact absurd h.symm hx
    have h4 : stripPrefix ['['] ('[' :: (n ++ [']'] ++ rest)) = some (n ++ [']'] ++ rest) := by
      simp [stripPrefix, List.isPrefixOf]
    simp only [jnext, rules, jnextWith, render, List.cons_append, h1, h2, h3, h4, applyRule]
    have hf := findStr_free ']' [] n rest (hn.not_mem (by simp [delims]))
    show (match findStr [']'] (n ++ [']'] ++ rest) with | none => _ | some e => _) = _
    rw [hf]
    simp only []
    rw [List.append_assoc, splitAtByte_prefix]
    simp only []
    rw [splitAtByte_prefix [']'] rest]
  | quoted =>
    have h1 : stripPrefix ['.', '\''] ('[' :: '\'' :: (n ++ ['\'', ']'] ++ rest)) = none := by
      simp [stripPrefix, List.isPrefixOf]
    have h2 : stripPrefix ['.'] ('[' :: '\'' :: (n ++ ['\'', ']'] ++ rest)) = none := by
      simp [stripPrefix, List.isPrefixOf]
    have h3 : stripPrefix ['[', '\''] ('[' :: '\'' :: (n ++ ['\'', ']'] ++ rest))
        = some (n ++ ['\'', ']'] ++ rest) := by
      simp [stripPrefix, List.isPrefixOf]
    simp only [jnext, rules, jnextWith, render, List.cons_append, h1, h2, h3, applyRule]
    have hf := findStr_free '\'' [']'] n rest (hn.not_mem (by simp [delims]))
    show (match findStr ['\'', ']'] (n ++ ['\'', ']'] ++ rest) with | none => _ | some e => _) = _
    rw [hf]
    simp only []
    rw [List.append_assoc, splitAtByte_prefix]
    simp only []
    rw [splitAtByte_prefix ['\'', ']'] rest]
  | dotQuoted =>
    have h1 : stripPrefix ['.', '\''] ('.' :: '\'' :: (n ++ ['\''] ++ rest)) = some (n ++ ['\''] ++ rest) := by
      simp [stripPrefix, List.isPrefixOf]
    simp only [jnext, rules, jnextWith, render, List.cons_append, h1, applyRule]
    have hf := findStr_free '\'' [] n rest (hn.not_mem (by simp [delims]))
    show (match findStr ['\''] (n ++ ['\''] ++ rest) with | none => _ | some e => _) = _
    rw [hf]
    simp only []
    rw [List.append_assoc, splitAtByte_prefix]
    simp only []
    rw [splitAtByte_prefix ['\''] rest]

def renderAll : List (Notation × Str) → Str
  | [] => []
  | (nt, n) :: ks => render nt n ++ renderAll ks

theorem renderAll_opens (ks : List (Notation × Str)) : OpensOrEnd (renderAll ks) := by
  cases ks with
  | nil => left; rfl
  | cons k ks => obtain ⟨nt, n⟩ := k; exact render_opens nt n _

theorem jnext_nil : jnext [] = .done := by
  simp [jnext, rules, jnextWith, stripPrefix, List.isPrefixOf]

theorem jdrain_renderAll (ks : List (Notation × Str)) (h : ∀ k ∈ ks, DelimFree k.2) :
    ∀ fuel, ks.length < fuel → jdrain fuel (renderAll ks) = some (ks.map (·.2), []) := by
  induction ks with
  | nil =>
    intro fuel hf
    cases fuel with
    | zero => omega
    | succ f => simp [jdrain, renderAll, jnext_nil]
  | cons k ks ih =>
    intro fuel hf
    obtain ⟨nt, n⟩ := k
    cases fuel with
    | zero => omega
    | succ f =>
      have hn : DelimFree n := h (nt, n) (List.mem_cons_self)
      have := jnext_render nt n (renderAll ks) hn (renderAll_opens ks)
      simp only [jdrain, renderAll, this]
      rw [ih (fun k hk => h k (List.mem_cons_of_mem _ hk)) f (by simp at hf; omega)]
      simp

end MiniconfVerif.PathIter

namespace MiniconfVerif.PathIter

theorem findAny_some (set : List Char) (s : Str) (e : Nat) (h : findAny set s = some e) :
    ∃ a b, s = a ++ b ∧ e = byteLen a := by
  induction s generalizing e with
  | nil => simp [findAny] at h
  | cons c cs ih =>
    simp only [findAny] at h
    split at h
    · simp only [Option.some.injEq] at h
      exact ⟨[], c :: cs, rfl, by simp [← h]⟩
    · cases hf : findAny set cs with
      | none => simp [hf] at h
      | some e' =>
        simp only [hf, Option.map_some, Option.some.injEq] at h
        obtain ⟨a, b, hs, he⟩ := ih e' hf
        exact ⟨c :: a, b, by simp [hs], by simp [← h, he]; omega⟩

theorem isPrefixOf_split (p s : Str) (h : p.isPrefixOf s = true) : ∃ b, s = p ++ b := by
  have := List.isPrefixOf_iff_prefix.mp h
  exact this.imp fun b hb => hb.symm

theorem findStr_some (pat : Str) (s : Str) (e : Nat) (h : findStr pat s = some e) :
    ∃ a b, s = a ++ pat ++ b ∧ e = byteLen a := by
  induction s generalizing e with
  | nil =>
    simp only [findStr] at h
    split at h
    · next hp => subst hp; exact ⟨[], [], rfl, by simpa using h.symm⟩
    · simp at h
  | cons c cs ih =>
    rw [findStr] at h
    split at h
    · next hp =>
      obtain ⟨b, hb⟩ := isPrefixOf_split _ _ hp
      simp only [Option.some.injEq] at h
      exact ⟨[], b, by simpa using hb, by simp [← h]⟩
    · cases hf : findStr pat cs with
      | none => simp [hf] at h
      | some e' =>
        simp only [hf, Option.map_some, Option.some.injEq] at h
        obtain ⟨a, b, hs, he⟩ := ih e' hf
        exact ⟨c :: a, b, by simp [hs], by simp [← h, he]; omega⟩

theorem applyRule_no_panic (rest : Str) (cl : Close) : applyRule rest cl ≠ .panic := by
  cases cl with
  | brk set =>
    simp only [applyRule]
    cases hf : findAny set rest with
    | none =>
      have := splitAtByte_prefix rest []
      simp only [List.append_nil] at this
      simp [this, splitAtByte_zero]
    | some e =>
      obtain ⟨a, b, hs, he⟩ := findAny_some _ _ _ hf
      subst hs; subst he
      simp [splitAtByte_prefix, splitAtByte_zero]
  | cont pat =>
    simp only [applyRule]
    cases hf : findStr pat rest with
    | none => simp
    | some e =>
      obtain ⟨a, b, hs, he⟩ := findStr_some _ _ _ hf
      subst hs; subst he
      simp [List.append_assoc, splitAtByte_prefix]

theorem jnextWith_no_panic (rs : List (Str × Close)) (s : Str) : jnextWith rs s ≠ .panic := by
  induction rs with
  | nil => simp [jnextWith]
  | cons r rs ih =>
    obtain ⟨op, cl⟩ := r
    simp only [jnextWith]
    split
    · exact applyRule_no_panic _ _
    · exact ih

/-- an item consumes at least the opening delimiter: the remaining string is strictly shorter -/
theorem applyRule_shorter (rest : Str) (cl : Close) (k st : Str) (h : applyRule rest cl = .item k st) :
    st.length ≤ rest.length := by
  cases cl with
  | brk set =>
    simp only [applyRule] at h
    cases hf : findAny set rest with
    | none =>
      have := splitAtByte_prefix rest []
      simp only [List.append_nil] at this
      simp only [hf, Option.getD_none, this, splitAtByte_zero, JStep.item.injEq] at h
      simp [← h.2]
    | some e =>
      rw [hf] at h
      obtain ⟨a, b, hs, he⟩ := findAny_some _ _ _ hf
      subst hs; subst he
      simp only [Option.getD_some, splitAtByte_prefix, splitAtByte_zero, JStep.item.injEq] at h
      simp [← h.2]
  | cont pat =>
    simp only [applyRule] at h
    cases hf : findStr pat rest with
    | none => simp [hf] at h
    | some e =>
      rw [hf] at h
      obtain ⟨a, b, hs, he⟩ := findStr_some _ _ _ hf
      subst hs; subst he
      simp only [List.append_assoc, splitAtByte_prefix, JStep.item.injEq] at h
      simp [← h.2]; omega

theorem stripPrefix_length (op s rest : Str) (hop : op ≠ []) (h : stripPrefix op s = some rest) :
    rest.length < s.length := by
  simp only [stripPrefix] at h
  split at h
  · next hp =>
    obtain ⟨b, hb⟩ := isPrefixOf_split _ _ hp
    simp only [Option.some.injEq] at h
    subst hb
    simp at h
    subst h
    have : 0 < op.length := List.length_pos_iff.mpr hop
    simp; omega
  · simp at h

theorem jnext_shorter (s k st : Str) (h : jnext s = .item k st) : st.length < s.length := by
  simp only [jnext, rules, jnextWith] at h
  repeat' split at h
  all_goals first
    | (rename_i rest hsp
       have h1 := applyRule_shorter _ _ _ _ h
       have h2 := stripPrefix_length _ _ _ (by simp) hsp
       omega)
    | simp at h

end MiniconfVerif.PathIter
