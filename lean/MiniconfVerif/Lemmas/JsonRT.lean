import MiniconfVerif.Lemmas.Digits
import MiniconfVerif.Model.Codec

/-! Round trip of the JSON model: decoding the canonical text of a value (followed by any
continuation that cannot be mistaken for part of it) returns the value and exactly the
continuation. -/
namespace MiniconfVerif.Codec
open MiniconfVerif MiniconfVerif.PathIter
set_option autoImplicit false

/-- the continuation does not start with a digit (so a number ends where it ends) -/
def NoDigit (rest : List Char) : Prop := ∀ c ∈ rest.head?, isDigit c = false

theorem skipWs_cons (c : Char) (r : List Char) (h : isWs c = false) : skipWs (c :: r) = c :: r := by
  simp [skipWs, List.dropWhile, h]

theorem digit_not_ws (c : Char) (h : isDigit c = true) : isWs c = false := by
  simp only [isDigit, Bool.and_eq_true, decide_eq_true_eq] at h
  simp only [isWs, Bool.or_eq_false_iff, beq_eq_false_iff_ne, ne_eq]
  have h1 : (48 : Nat) ≤ c.toNat := by
    have := h.1; simp only [Char.le_def] at this; exact this
  refine ⟨⟨⟨?_, ?_⟩, ?_⟩, ?_⟩ <;> (intro e; subst e; revert h1; decide)

/-- the scanner reads back a written natural number -/
theorem scanNat_itoa (n : Nat) (rest : List Char) (hr : NoDigit rest) : scanNat (itoa n ++ rest) = some (n, rest) := by
  obtain ⟨c, tl, h1, h2, h3⟩ := itoa_head n
  have hall := itoa_all_digits n
  have hv := digitsVal_itoa n
  rw [h1] at hall hv ⊢
  by_cases hz : c = '0'
  · obtain ⟨hn, htl⟩ := h3 hz
    subst hz; subst htl; subst hn
    simp [scanNat]
  · have htw := takeWhile_append_of_all isDigit (c :: tl) rest hall hr
    simp only [List.cons_append] at htw ⊢
    unfold scanNat
    split
    · next heq => simp only [List.cons.injEq] at heq; exact absurd heq.1 hz
    · next c' rest' hne heq =>
      simp only [List.cons.injEq] at heq
      obtain ⟨rfl, rfl⟩ := heq
      simp only [h2, if_true, htw.1, htw.2, hv]
    · next heq => cases heq

theorem encInt_roundtrip (sg : Bool) (bits : Nat) (v : Int) (rest : List Char) (hr : NoDigit rest)
    (hlo : intMin sg bits ≤ v) (hhi : v ≤ intMax sg bits) :
    decInt sg bits (encInt v ++ rest) = some (.int v, rest) := by
  unfold encInt
  by_cases hneg : v < 0
  · simp only [hneg, if_true, List.cons_append]
    have hsg : sg = true := by
      cases sg with
      | true => rfl
      | false => simp [intMin] at hlo; omega
    subst hsg
    unfold decInt
    have hws : skipWs ('-' :: (itoa (-v).toNat ++ rest)) = '-' :: (itoa (-v).toNat ++ rest) :=
      skipWs_cons _ _ (by decide)
    simp only [hws, Bool.not_true, Bool.false_eq_true, if_false, scanNat_itoa _ rest hr]
    have hcast : -(((-v).toNat : Nat) : Int) = v := by omega
    simp only [hcast, ge_iff_le, hlo, if_true]
  · simp only [hneg, if_false]
    obtain ⟨c, tl, h1, h2, _⟩ := itoa_head v.toNat
    unfold decInt
    have hws : skipWs (itoa v.toNat ++ rest) = itoa v.toNat ++ rest := by
      rw [h1]; exact skipWs_cons _ _ (digit_not_ws c h2)
    rw [hws]
    have hc : c ≠ '-' := by intro e; subst e; simp [isDigit] at h2
    have hscan := scanNat_itoa v.toNat rest hr
    rw [h1, List.cons_append] at hscan ⊢
    have hcast : ((v.toNat : Nat) : Int) = v := by omega
    have key : ∀ (X : List Char → Option (Val × List Char)),
        (match c :: (tl ++ rest) with
          | '-' :: r => X r
          | _ => (match scanNat (c :: (tl ++ rest)) with
            | some (n, r) => if (n : Int) ≤ intMax sg bits then some (Val.int n, r) else none
            | none => none)) = some (Val.int v, rest) := by
      intro X
      split
      · next heq => simp only [List.cons.injEq] at heq; exact absurd heq.1 hc
      · simp only [hscan, hcast, hhi, if_true]
    exact key _

/-- characters a JSON string body may contain without escaping (as far as the model goes) -/
def plainChar (c : Char) : Bool := c != '"' && c != '\\'

theorem decStrBody_roundtrip : ∀ (s rest : List Char), s.all plainChar = true →
    decStrBody (s ++ '"' :: rest) = some (s, rest)
  | [], rest, _ => by simp [decStrBody]
  | c :: s, rest, h => by
    simp only [List.all_cons, Bool.and_eq_true] at h
    have hc := h.1
    simp only [plainChar, Bool.and_eq_true, bne_iff_ne, ne_eq] at hc
    have ih := decStrBody_roundtrip s rest h.2
    simp only [List.cons_append]
    unfold decStrBody
    split
    · next heq => cases heq
    · next heq => simp only [List.cons.injEq] at heq; exact absurd heq.1 hc.1
    · next heq => simp only [List.cons.injEq] at heq; exact absurd heq.1 hc.2
    · next c' rest' _ _ heq =>
      simp only [List.cons.injEq] at heq
      obtain ⟨rfl, rfl⟩ := heq
      rw [ih]; rfl

theorem decString_roundtrip (s rest : List Char) (h : s.all plainChar = true) :
    decString ('"' :: s ++ '"' :: rest) = some (s, rest) := by
  unfold decString
  have : skipWs ('"' :: s ++ '"' :: rest) = '"' :: (s ++ '"' :: rest) := by
    simp only [List.cons_append]; exact skipWs_cons _ _ (by decide)
  rw [this]
  exact decStrBody_roundtrip s rest h

end MiniconfVerif.Codec

namespace MiniconfVerif.Codec
open MiniconfVerif MiniconfVerif.PathIter
set_option autoImplicit false

def strOk (s : List Char) : Bool := s.all plainChar

/-- types whose JSON texts never start with `n` (so `Option<T>`'s `null` is unambiguous) -/
def _root_.MiniconfVerif.Ty.nonNull : Ty → Bool
  | .unit | .opt _ | .float _ => false
  | _ => true

mutual
/-- the value is of the type and within the input class of the model: integers in range, text
without characters that need an escape, array lengths as declared, `Option` of a non-nullable
type, distinct plain variant names -/
def fits : Ty → Val → Bool
  | .int sg b, .int v => decide (intMin sg b ≤ v) && decide (v ≤ intMax sg b)
  | .bool, .bool _ => true
  | .string cap, .str s => strOk s && (match cap with | some n => decide (byteLen s ≤ n) | none => true)
  | .opt _, .none => true
  | .opt t, .some v => t.nonNull && fits t v
  | .arr n t, .arr vs => decide (vs.length = n) && fitsList t vs
  | .unit, .unit => true
  | .struct fs, .struct vs => fitsFields fs vs
  | .unitEnum names, .variant i =>
    decide (i < names.length) && names.all (fun n => strOk n.toList) && decide names.Nodup
  | _, _ => false
def fitsList (t : Ty) : List Val → Bool
  | [] => true
  | v :: vs => fits t v && fitsList t vs
def fitsFields : List (String × Ty) → List Val → Bool
  | [], [] => true
  | (n, t) :: fs, v :: vs => strOk n.toList && fits t v && fitsFields fs vs
  | _, _ => false
end

/-- the text starts with a non-blank character, and not with `n` for a non-nullable type -/
def HeadOk (t : Ty) (txt : List Char) : Prop :=
  ∃ c r, txt = c :: r ∧ isWs c = false ∧ (t.nonNull = true → c ≠ 'n')

def commaJoin (xs : List (List Char)) : List Char := xs.flatMap (',' :: ·)

theorem joinWith_cons (x : List Char) (xs : List (List Char)) : joinWith [','] (x :: xs) = x ++ commaJoin xs := by
  induction xs generalizing x with
  | nil => simp [joinWith, commaJoin]
  | cons y ys ih =>
    simp only [joinWith, ih y, commaJoin, List.flatMap_cons, List.append_assoc, List.cons_append, List.nil_append]

theorem noDigit_cons (c : Char) (r : List Char) (h : isDigit c = false) : NoDigit (c :: r) := by
  intro x hx
  simp only [List.head?_cons, Option.mem_def, Option.some.injEq] at hx
  rw [← hx]; exact h

theorem noDigit_commaJoin (xs : List (List Char)) (c : Char) (rest : List Char) (hc : isDigit c = false) :
    NoDigit (commaJoin xs ++ c :: rest) := by
  cases xs with
  | nil => exact noDigit_cons c rest hc
  | cons x xs => simp only [commaJoin, List.flatMap_cons, List.cons_append]; exact noDigit_cons ',' _ (by decide)

theorem stripLit_append (lit rest : List Char) : stripLit lit (lit ++ rest) = some rest := by
  simp [stripLit]

theorem stripLit_head_ne (lit s : List Char) (c d : Char) (r l : List Char) (hs : s = c :: r) (hl : lit = d :: l)
    (hne : c ≠ d) : stripLit lit s = none := by
  subst hs; subst hl
  simp only [stripLit, List.isPrefixOf, Bool.and_eq_true, beq_iff_eq]
  rw [if_neg]
  intro h
  exact hne h.1.symm

theorem findIdx_nodup : ∀ (names : List String) (i : Nat) (h : i < names.length), names.Nodup →
    names.findIdx? (fun n => n.toList == (names[i]).toList) = some i
  | [], i, h, _ => by simp at h
  | n :: ns, 0, _, _ => by simp [List.findIdx?_cons]
  | n :: ns, i + 1, h, hnd => by
    have hi : i < ns.length := by simpa using h
    have hnd' := List.nodup_cons.mp hnd
    have hne : n ≠ ns[i] := by
      intro e
      exact hnd'.1 (by rw [e]; exact List.getElem_mem _)
    have hne' : (n.toList == ns[i].toList) = false := by
      rw [beq_eq_false_iff_ne]
      intro e
      exact hne (String.toList_inj.mp e)
    simp only [List.getElem_cons_succ, List.findIdx?_cons, hne', Bool.false_eq_true, if_false]
    rw [findIdx_nodup ns i (by simpa using h) hnd'.2]
    rfl

end MiniconfVerif.Codec

namespace MiniconfVerif.Codec
open MiniconfVerif MiniconfVerif.PathIter
set_option autoImplicit false

theorem headOk_of_digit (t : Ty) (c : Char) (r : List Char) (h : isDigit c = true) : HeadOk t (c :: r) := by
  refine ⟨c, r, rfl, digit_not_ws c h, ?_⟩
  intro _ e; subst e; simp [isDigit] at h

theorem encInt_head (t : Ty) (v : Int) : HeadOk t (encInt v) := by
  unfold encInt
  split
  · exact ⟨'-', _, rfl, by decide, fun _ => by decide⟩
  · obtain ⟨c, tl, h1, h2, _⟩ := itoa_head v.toNat
    rw [h1]; exact headOk_of_digit t c tl h2

theorem skipWs_headOk (t : Ty) (txt rest : List Char) (h : HeadOk t txt) : skipWs (txt ++ rest) = txt ++ rest := by
  obtain ⟨c, r, rfl, hw, _⟩ := h
  exact skipWs_cons c _ hw

mutual
/-- **JSON round trip** -/
theorem json_rt : ∀ (v : Val) (t : Ty) (txt rest : List Char), fits t v = true → jsonEnc t v = some txt →
    NoDigit rest → jsonDec t (txt ++ rest) = some (v, rest) ∧ HeadOk t txt
  | .int v, t, txt, rest, hf, he, hr => by
    cases t with
    | int sg b =>
      simp only [fits, Bool.and_eq_true, decide_eq_true_eq] at hf
      simp only [jsonEnc, Option.some.injEq] at he
      subst he
      exact ⟨by simp only [jsonDec]; exact encInt_roundtrip sg b v rest hr hf.1 hf.2, encInt_head _ v⟩
    | _ => simp [fits] at hf
  | .bool b, t, txt, rest, hf, he, _ => by
    cases t with
    | bool =>
      simp only [jsonEnc, Option.some.injEq] at he
      subst he
      cases b
      · exact ⟨by simp [jsonDec, skipWs, isWs, stripLit, List.isPrefixOf], ⟨'f', _, rfl, by decide, fun _ => by decide⟩⟩
      · exact ⟨by simp [jsonDec, skipWs, isWs, stripLit, List.isPrefixOf], ⟨'t', _, rfl, by decide, fun _ => by decide⟩⟩
    | _ => simp [fits] at hf
  | .float _, t, _, _, hf, _, _ => by cases t <;> simp [fits] at hf
  | .str s, t, txt, rest, hf, he, _ => by
    cases t with
    | string cap =>
      simp only [fits, Bool.and_eq_true] at hf
      simp only [jsonEnc, Option.some.injEq] at he
      subst he
      refine ⟨?_, ⟨'"', _, rfl, by decide, fun _ => by decide⟩⟩
      have hd : decString ('"' :: s ++ ['"'] ++ rest) = some (s, rest) := by
        have := decString_roundtrip s rest hf.1
        simpa using this
      simp only [jsonDec]
      rw [hd]
      cases cap with
      | none => rfl
      | some n =>
        have := hf.2
        simp only [decide_eq_true_eq] at this
        simp [this]
    | _ => simp [fits] at hf
  | .none, t, txt, rest, hf, he, _ => by
    cases t with
    | opt t' =>
      simp only [jsonEnc, Option.some.injEq] at he
      subst he
      refine ⟨?_, ⟨'n', _, rfl, by decide, fun h => by simp [Ty.nonNull] at h⟩⟩
      simp only [jsonDec]
      have : skipWs ("null".toList ++ rest) = "null".toList ++ rest := skipWs_cons 'n' _ (by decide)
      rw [this, stripLit_append]
    | _ => simp [fits] at hf
  | .some v, t, txt, rest, hf, he, hr => by
    cases t with
    | opt t' =>
      simp only [fits, Bool.and_eq_true] at hf
      simp only [jsonEnc] at he
      obtain ⟨hdec, hhead⟩ := json_rt v t' txt rest hf.2 he hr
      obtain ⟨c, r, hc, hws, hn⟩ := hhead
      refine ⟨?_, ⟨c, r, hc, hws, fun h => by simp [Ty.nonNull] at h⟩⟩
      simp only [jsonDec]
      have hsk : skipWs (txt ++ rest) = txt ++ rest := by rw [hc]; exact skipWs_cons c _ hws
      rw [hsk]
      have hne := hn hf.1
      have : stripLit "null".toList (txt ++ rest) = none := by
        rw [hc]
        exact stripLit_head_ne _ _ c 'n' (r ++ rest) "ull".toList rfl rfl hne
      rw [this, hdec]
      rfl
    | _ => simp [fits] at hf
  | .arr vs, t, txt, rest, hf, he, _ => by
    cases t with
    | arr n t' =>
      simp only [fits, Bool.and_eq_true, decide_eq_true_eq] at hf
      simp only [jsonEnc] at he
      cases hxs : jsonEncList t' vs with
      | none => simp [hxs] at he
      | some xs =>
        simp only [hxs, Option.map_some, Option.some.injEq] at he
        subst he
        refine ⟨?_, ⟨'[', _, rfl, by decide, fun _ => by decide⟩⟩
        simp only [jsonDec]
        have hsk : skipWs ('[' :: joinWith [','] xs ++ [']'] ++ rest) = '[' :: (joinWith [','] xs ++ [']'] ++ rest) := by
          simp only [List.cons_append]; exact skipWs_cons '[' _ (by decide)
        rw [hsk]
        simp only []
        obtain ⟨hlen, hfl⟩ := hf
        subst hlen
        cases vs with
        | nil =>
          simp only [jsonEncList, Option.some.injEq] at hxs
          subst hxs
          simp [joinWith, jsonDecElems, skipWs, isWs]
        | cons v vs' =>
          simp only [fitsList, Bool.and_eq_true] at hfl
          simp only [jsonEncList] at hxs
          cases hx : jsonEnc t' v with
          | none => simp [hx] at hxs
          | some x =>
            cases hxs' : jsonEncList t' vs' with
            | none => simp [hx, hxs'] at hxs
            | some xs' =>
              simp [hx, hxs'] at hxs
              subst hxs
              have hnd : NoDigit (commaJoin xs' ++ ']' :: rest) := noDigit_commaJoin xs' ']' rest (by decide)
              obtain ⟨hdec, hhead⟩ := json_rt v t' x _ hfl.1 hx hnd
              have hl := json_rt_list vs' t' xs' rest hfl.2 hxs'
              rw [joinWith_cons]
              have hrw : x ++ commaJoin xs' ++ [']'] ++ rest = x ++ (commaJoin xs' ++ ']' :: rest) := by simp
              rw [hrw]
              simp only [List.length_cons, jsonDecElems, skipWs_headOk t' x _ hhead, if_true, hdec, hl, Option.map_some]
    | _ => simp [fits] at hf
  | .unit, t, txt, rest, hf, he, _ => by
    cases t with
    | unit =>
      simp only [jsonEnc, Option.some.injEq] at he
      subst he
      refine ⟨?_, ⟨'n', _, rfl, by decide, fun h => by simp [Ty.nonNull] at h⟩⟩
      simp only [jsonDec]
      have : skipWs ("null".toList ++ rest) = "null".toList ++ rest := skipWs_cons 'n' _ (by decide)
      rw [this, stripLit_append]; rfl
    | _ => simp [fits] at hf
  | .struct vs, t, txt, rest, hf, he, _ => by
    cases t with
    | struct fs =>
      simp only [fits] at hf
      simp only [jsonEnc] at he
      cases hxs : jsonEncFields fs vs with
      | none => simp [hxs] at he
      | some xs =>
        simp only [hxs, Option.map_some, Option.some.injEq] at he
        subst he
        refine ⟨?_, ⟨'{', _, rfl, by decide, fun _ => by decide⟩⟩
        simp only [jsonDec]
        have hsk : skipWs ('{' :: joinWith [','] xs ++ ['}'] ++ rest) = '{' :: (joinWith [','] xs ++ ['}'] ++ rest) := by
          simp only [List.cons_append]; exact skipWs_cons '{' _ (by decide)
        rw [hsk]
        simp only []
        cases fs with
        | nil =>
          cases vs with
          | nil =>
            simp only [jsonEncFields, Option.some.injEq] at hxs
            subst hxs
            simp [joinWith, jsonDecFields, skipWs, isWs]
          | cons _ _ => simp [fitsFields] at hf
        | cons f fs' =>
          obtain ⟨name, t'⟩ := f
          cases vs with
          | nil => simp [fitsFields] at hf
          | cons v vs' =>
            simp only [fitsFields, Bool.and_eq_true] at hf
            simp only [jsonEncFields] at hxs
            cases hx : jsonEnc t' v with
            | none => simp [hx] at hxs
            | some x =>
              cases hxs' : jsonEncFields fs' vs' with
              | none => simp [hx, hxs'] at hxs
              | some xs' =>
                simp [hx, hxs'] at hxs
                subst hxs
                have hnd : NoDigit (commaJoin xs' ++ '}' :: rest) := noDigit_commaJoin xs' '}' rest (by decide)
                obtain ⟨hdec, hhead⟩ := json_rt v t' x _ hf.1.2 hx hnd
                have hl := json_rt_fields vs' fs' xs' rest hf.2 hxs'
                rw [joinWith_cons]
                have hrw : ('"' :: (name.toList ++ '"' :: ':' :: x)) ++ commaJoin xs' ++ ['}'] ++ rest =
                    '"' :: name.toList ++ '"' :: (':' :: (x ++ (commaJoin xs' ++ '}' :: rest))) := by simp
                rw [hrw]
                have hq : skipWs ('"' :: name.toList ++ '"' :: (':' :: (x ++ (commaJoin xs' ++ '}' :: rest)))) =
                    '"' :: name.toList ++ '"' :: (':' :: (x ++ (commaJoin xs' ++ '}' :: rest))) := by
                  simp only [List.cons_append]; exact skipWs_cons '"' _ (by decide)
                have hkey := decString_roundtrip name.toList (':' :: (x ++ (commaJoin xs' ++ '}' :: rest))) hf.1.1
                have hcolon : skipWs (':' :: (x ++ (commaJoin xs' ++ '}' :: rest))) = ':' :: (x ++ (commaJoin xs' ++ '}' :: rest)) :=
                  skipWs_cons ':' _ (by decide)
                simp only [jsonDecFields, hq, if_true, hkey, bne_self_eq_false, Bool.false_eq_true, if_false, hcolon, hdec,
                  hl, Option.map_some]
    | _ => simp [fits] at hf
  | .variant i, t, txt, rest, hf, he, _ => by
    cases t with
    | unitEnum names =>
      simp only [fits, Bool.and_eq_true, decide_eq_true_eq] at hf
      obtain ⟨⟨hi, hok⟩, hnd⟩ := hf
      simp only [jsonEnc] at he
      have hget : names[i]? = some names[i] := by simp [hi]
      simp only [hget, Option.map_some, Option.some.injEq] at he
      subst he
      refine ⟨?_, ⟨'"', _, rfl, by decide, fun _ => by decide⟩⟩
      have hstr : strOk names[i].toList = true := by
        have := List.all_eq_true.mp hok names[i] (List.getElem_mem _)
        exact this
      have hd : decString ('"' :: names[i].toList ++ ['"'] ++ rest) = some (names[i].toList, rest) := by
        have := decString_roundtrip names[i].toList rest hstr
        simpa using this
      simp only [jsonDec]
      rw [hd]
      simp only [findIdx_nodup names i hi hnd]
    | _ => simp [fits] at hf
theorem json_rt_list : ∀ (vs : List Val) (t : Ty) (xs : List (List Char)) (rest : List Char), fitsList t vs = true →
    jsonEncList t vs = some xs →
    jsonDecElems t vs.length (commaJoin xs ++ ']' :: rest) false = some (vs, rest)
  | [], t, xs, rest, _, he => by
    simp only [jsonEncList, Option.some.injEq] at he
    subst he
    simp [commaJoin, jsonDecElems, skipWs, isWs]
  | v :: vs, t, xs, rest, hf, he => by
    simp only [fitsList, Bool.and_eq_true] at hf
    simp only [jsonEncList] at he
    cases hx : jsonEnc t v with
    | none => simp [hx] at he
    | some x =>
      cases hxs' : jsonEncList t vs with
      | none => simp [hx, hxs'] at he
      | some xs' =>
        simp [hx, hxs'] at he
        subst he
        have hnd : NoDigit (commaJoin xs' ++ ']' :: rest) := noDigit_commaJoin xs' ']' rest (by decide)
        obtain ⟨hdec, _⟩ := json_rt v t x _ hf.1 hx hnd
        have hl := json_rt_list vs t xs' rest hf.2 hxs'
        have hrw : commaJoin (x :: xs') ++ ']' :: rest = ',' :: (x ++ (commaJoin xs' ++ ']' :: rest)) := by
          simp [commaJoin]
        rw [hrw]
        have hsk : skipWs (',' :: (x ++ (commaJoin xs' ++ ']' :: rest))) = ',' :: (x ++ (commaJoin xs' ++ ']' :: rest)) :=
          skipWs_cons ',' _ (by decide)
        simp only [List.length_cons, jsonDecElems, hsk, Bool.false_eq_true, if_false, hdec, hl, Option.map_some]
theorem json_rt_fields : ∀ (vs : List Val) (fs : List (String × Ty)) (xs : List (List Char)) (rest : List Char),
    fitsFields fs vs = true → jsonEncFields fs vs = some xs →
    jsonDecFields fs (commaJoin xs ++ '}' :: rest) false = some (vs, rest)
  | [], fs, xs, rest, hf, he => by
    cases fs with
    | nil =>
      simp only [jsonEncFields, Option.some.injEq] at he
      subst he
      simp [commaJoin, jsonDecFields, skipWs, isWs]
    | cons _ _ => simp [fitsFields] at hf
  | v :: vs, fs, xs, rest, hf, he => by
    cases fs with
    | nil => simp [fitsFields] at hf
    | cons f fs' =>
      obtain ⟨name, t⟩ := f
      simp only [fitsFields, Bool.and_eq_true] at hf
      simp only [jsonEncFields] at he
      cases hx : jsonEnc t v with
      | none => simp [hx] at he
      | some x =>
        cases hxs' : jsonEncFields fs' vs with
        | none => simp [hx, hxs'] at he
        | some xs' =>
          simp [hx, hxs'] at he
          subst he
          have hnd : NoDigit (commaJoin xs' ++ '}' :: rest) := noDigit_commaJoin xs' '}' rest (by decide)
          obtain ⟨hdec, _⟩ := json_rt v t x _ hf.1.2 hx hnd
          have hl := json_rt_fields vs fs' xs' rest hf.2 hxs'
          have hrw : commaJoin (('"' :: (name.toList ++ '"' :: ':' :: x)) :: xs') ++ '}' :: rest =
              ',' :: ('"' :: name.toList ++ '"' :: (':' :: (x ++ (commaJoin xs' ++ '}' :: rest)))) := by
            simp [commaJoin]
          rw [hrw]
          have hsk : skipWs (',' :: ('"' :: name.toList ++ '"' :: (':' :: (x ++ (commaJoin xs' ++ '}' :: rest))))) =
              ',' :: ('"' :: name.toList ++ '"' :: (':' :: (x ++ (commaJoin xs' ++ '}' :: rest)))) :=
            skipWs_cons ',' _ (by decide)
          have hkey := decString_roundtrip name.toList (':' :: (x ++ (commaJoin xs' ++ '}' :: rest))) hf.1.1
          have hcolon : skipWs (':' :: (x ++ (commaJoin xs' ++ '}' :: rest))) = ':' :: (x ++ (commaJoin xs' ++ '}' :: rest)) :=
            skipWs_cons ':' _ (by decide)
          simp only [jsonDecFields, hsk, Bool.false_eq_true, if_false, hkey, bne_self_eq_false, hcolon, hdec, hl,
            Option.map_some]
end

end MiniconfVerif.Codec
