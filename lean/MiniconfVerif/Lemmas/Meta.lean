import MiniconfVerif.Model.Meta

namespace MiniconfVerif

theorem merge_count (acc c : Meta) (a b d : Nat) : (acc.merge c a b d).count = acc.count + b * c.count := rfl
theorem merge_depth (acc c : Meta) (a b d : Nat) :
    (acc.merge c a b d).maxDepth = max acc.maxDepth (1 + c.maxDepth) := rfl

theorem sum_const_range (n k : Nat) : (List.map (fun _ => k) (List.range n)).sum = n * k := by
  induction n with
  | zero => simp
  | succ n ih => simp [List.range_succ, Nat.succ_mul, ih]

mutual
theorem meta_count : ∀ s : Schema, s.meta.count = s.leaves.length
  | .leaf => rfl
  | .node lk cs => by
    simp only [Schema.meta, Schema.leaves]
    have := meta_count_list lk cs 0 Meta.zero
    simpa [Meta.zero] using this
  | .array n c => by
    simp only [Schema.meta, Schema.leaves, merge_count, Meta.zero, meta_count c]
    simp [List.length_flatMap, sum_const_range]
theorem meta_count_list (lk : Lookup) : ∀ (cs : List Schema) (i : Nat) (acc : Meta),
    (Schema.meta.go lk cs i acc).count = acc.count + (Schema.leaves.go cs i).length
  | [], _, _ => by simp [Schema.meta.go, Schema.leaves.go]
  | c :: cs, i, acc => by
    simp only [Schema.meta.go, Schema.leaves.go]
    rw [meta_count_list lk cs (i + 1), merge_count, meta_count c]
    simp; omega
end

mutual
theorem meta_depth : ∀ s : Schema, s.WF → s.meta.maxDepth = s.maxDepth
  | .leaf, _ => rfl
  | .node lk cs, h => by
    simp only [Schema.meta, Schema.maxDepth]
    obtain ⟨hlen, hpos, _, hwf⟩ := h
    have hne : cs ≠ [] := by
      intro e; subst e; simp at hlen; omega
    have := meta_depth_list lk cs 0 Meta.zero hwf
    rw [this]
    simp only [Meta.zero]
    cases cs with
    | nil => exact absurd rfl hne
    | cons c cs => simp [Schema.maxDepth.go]
  | .array n c, h => by
    simp only [Schema.meta, Schema.maxDepth, merge_depth, Meta.zero, meta_depth c h.2]
    omega
theorem meta_depth_list (lk : Lookup) : ∀ (cs : List Schema) (i : Nat) (acc : Meta), Schema.WF.wfList cs →
    (Schema.meta.go lk cs i acc).maxDepth =
      if cs = [] then acc.maxDepth else max acc.maxDepth (1 + Schema.maxDepth.go cs)
  | [], _, _, _ => by simp [Schema.meta.go]
  | c :: cs, i, acc, h => by
    simp only [Schema.meta.go, Schema.maxDepth.go]
    rw [meta_depth_list lk cs (i + 1) _ h.2, merge_depth, meta_depth c h.1]
    by_cases hcs : cs = []
    · subst hcs; simp [Schema.maxDepth.go]
    · simp [hcs]
end

end MiniconfVerif

namespace MiniconfVerif

mutual
theorem leaves_len_le : ∀ (s : Schema) (p : List Nat), p ∈ s.leaves → p.length ≤ s.maxDepth
  | .leaf, p, h => by simp [Schema.leaves] at h; simp [h, Schema.maxDepth]
  | .node lk cs, p, h => by
    simp only [Schema.leaves] at h
    simp only [Schema.maxDepth]
    exact leaves_go_len_le cs 0 p h
  | .array n c, p, h => by
    simp only [Schema.leaves, List.mem_flatMap, List.mem_map] at h
    obtain ⟨i, _, q, hq, rfl⟩ := h
    have := leaves_len_le c q hq
    simp [Schema.maxDepth]; omega
theorem leaves_go_len_le : ∀ (cs : List Schema) (i : Nat) (p : List Nat),
    p ∈ Schema.leaves.go cs i → p.length ≤ 1 + Schema.maxDepth.go cs
  | [], _, p, h => by simp [Schema.leaves.go] at h
  | c :: cs, i, p, h => by
    simp only [Schema.leaves.go, List.mem_append, List.mem_map] at h
    simp only [Schema.maxDepth.go]
    rcases h with ⟨q, hq, rfl⟩ | h
    · have := leaves_len_le c q hq
      simp; omega
    · have := leaves_go_len_le cs (i + 1) p h
      omega
end

mutual
theorem leaves_depth_attained : ∀ (s : Schema), s.WF → ∃ p ∈ s.leaves, p.length = s.maxDepth
  | .leaf, _ => ⟨[], by simp [Schema.leaves], rfl⟩
  | .node lk cs, h => by
    obtain ⟨hlen, hpos, _, hwf⟩ := h
    have hne : cs ≠ [] := by
      intro e; subst e; simp at hlen; omega
    obtain ⟨p, hp, hl⟩ := leaves_go_attained cs 0 hwf hne
    exact ⟨p, by simpa [Schema.leaves] using hp, by simpa [Schema.maxDepth] using hl⟩
  | .array n c, h => by
    obtain ⟨q, hq, hl⟩ := leaves_depth_attained c h.2
    refine ⟨0 :: q, ?_, by simp [Schema.maxDepth, hl]; omega⟩
    simp only [Schema.leaves, List.mem_flatMap, List.mem_map, List.mem_range]
    exact ⟨0, h.1, q, hq, rfl⟩
theorem leaves_go_attained : ∀ (cs : List Schema) (i : Nat), Schema.WF.wfList cs → cs ≠ [] →
    ∃ p ∈ Schema.leaves.go cs i, p.length = 1 + Schema.maxDepth.go cs
  | [], _, _, hne => absurd rfl hne
  | c :: cs, i, h, _ => by
    simp only [Schema.leaves.go, Schema.maxDepth.go, List.mem_append, List.mem_map]
    by_cases hcs : cs = []
    · subst hcs
      obtain ⟨q, hq, hl⟩ := leaves_depth_attained c h.1
      exact ⟨i :: q, Or.inl ⟨q, hq, rfl⟩, by simp [Schema.maxDepth.go, hl]; omega⟩
    · by_cases hmax : Schema.maxDepth.go cs ≤ c.maxDepth
      · obtain ⟨q, hq, hl⟩ := leaves_depth_attained c h.1
        exact ⟨i :: q, Or.inl ⟨q, hq, rfl⟩, by simp [hl]; omega⟩
      · obtain ⟨p, hp, hl⟩ := leaves_go_attained cs (i + 1) h.2 hcs
        exact ⟨p, Or.inr hp, by omega⟩
end

end MiniconfVerif
