import MiniconfVerif.Lemmas.Enum

/-! Exactness of the `max_*` fields of `Metadata`: each is a maximum of a per-level weight
summed along the leaf paths — no leaf exceeds it, some leaf attains it. -/
namespace MiniconfVerif
set_option autoImplicit false

/-- per-level weights: `w lk i` for child `i` of a struct/tuple/enum node, `wA n i` for
element `i` of an array of length `n`, `wAmax n` what the metadata adds for an array level -/
structure Weights where
  w : Lookup → Nat → Nat
  wA : Nat → Nat → Nat
  wAmax : Nat → Nat
  bound : ∀ n i, i < n → wA n i ≤ wAmax n
  attained : ∀ n, 0 < n → wA n (n - 1) = wAmax n

/-- the maximum as the metadata computes it (same fold shape) -/
def Schema.maxS (W : Weights) : Schema → Nat
  | .leaf => 0
  | .node lk cs => go lk cs 0
  | .array n c => W.wAmax n + c.maxS W
where
  go (lk : Lookup) : List Schema → Nat → Nat
    | [], _ => 0
    | c :: cs, i => max (W.w lk i + c.maxS W) (go lk cs (i + 1))

def Schema.levelW (W : Weights) : Schema → Nat → Nat
  | .node lk _, i => W.w lk i
  | .array n _, i => W.wA n i
  | .leaf, _ => 0

/-- the weight of an index path -/
def pathW (W : Weights) : Schema → List Nat → Nat
  | _, [] => 0
  | t, i :: p => t.levelW W i + (match t.kids[i]? with | some c => pathW W c p | none => 0)

theorem maxS_go_ge (W : Weights) (lk : Lookup) : ∀ (cs : List Schema) (k i : Nat) (c : Schema), cs[i]? = some c →
    W.w lk (k + i) + c.maxS W ≤ Schema.maxS.go W lk cs k
  | [], _, _, _, h => by simp at h
  | c0 :: cs, k, 0, c, h => by
    simp only [List.getElem?_cons_zero, Option.some.injEq] at h
    subst h
    simp only [Schema.maxS.go, Nat.add_zero]; omega
  | c0 :: cs, k, i + 1, c, h => by
    simp only [List.getElem?_cons_succ] at h
    have := maxS_go_ge W lk cs (k + 1) i c h
    have e : k + 1 + i = k + (i + 1) := by omega
    rw [e] at this
    simp only [Schema.maxS.go]; omega

theorem maxS_go_attained (W : Weights) (lk : Lookup) : ∀ (cs : List Schema) (k : Nat), cs ≠ [] →
    ∃ i c, cs[i]? = some c ∧ Schema.maxS.go W lk cs k = W.w lk (k + i) + c.maxS W
  | [], _, h => absurd rfl h
  | c0 :: cs, k, _ => by
    by_cases hcs : cs = []
    · subst hcs
      exact ⟨0, c0, by simp, by simp [Schema.maxS.go]⟩
    · obtain ⟨i, c, h1, h2⟩ := maxS_go_attained W lk cs (k + 1) hcs
      by_cases hmax : Schema.maxS.go W lk cs (k + 1) ≤ W.w lk k + c0.maxS W
      · exact ⟨0, c0, by simp, by simp only [Schema.maxS.go, Nat.add_zero]; omega⟩
      · refine ⟨i + 1, c, by simpa using h1, ?_⟩
        have e : k + 1 + i = k + (i + 1) := by omega
        rw [e] at h2
        simp only [Schema.maxS.go]; omega

theorem kid_weight_le (W : Weights) (t c : Schema) (i : Nat) (h : t.kids[i]? = some c) :
    t.levelW W i + c.maxS W ≤ t.maxS W := by
  cases t with
  | leaf => simp [Schema.kids] at h
  | node lk cs =>
    simp only [Schema.kids] at h
    have := maxS_go_ge W lk cs 0 i c h
    simpa [Schema.levelW, Schema.maxS] using this
  | array n c' =>
    simp only [Schema.kids] at h
    have hm := List.mem_of_getElem? h
    rw [List.mem_replicate] at hm
    have hi : i < n := by
      have := (List.getElem?_eq_some_iff.mp h).1
      simpa using this
    have := W.bound n i hi
    rw [hm.2]
    simp only [Schema.levelW, Schema.maxS]; omega

/-- no leaf path is heavier than the maximum -/
theorem pathW_le (W : Weights) : ∀ (p : List Nat) (s : Schema), p ∈ s.leaves → pathW W s p ≤ s.maxS W := by
  intro p
  induction p with
  | nil => intro s _; simp [pathW]
  | cons i p ih =>
    intro s h
    have hne : s ≠ .leaf := by intro e; subst e; simp [Schema.leaves] at h
    rw [leaves_eq_kids s hne] at h
    obtain ⟨i', c, rest, h1, h2, h3⟩ := mem_leaves_go _ _ _ h
    simp only [Nat.zero_add, List.cons.injEq] at h2
    obtain ⟨rfl, rfl⟩ := h2
    have := ih c h3
    have := kid_weight_le W s c i h1
    simp only [pathW, h1]; omega

/-- some leaf path attains the maximum -/
theorem pathW_attained (W : Weights) : ∀ (d : Nat) (s : Schema), s.maxDepth ≤ d → s.WF →
    ∃ p ∈ s.leaves, pathW W s p = s.maxS W := by
  intro d
  induction d with
  | zero =>
    intro s hd hwf
    cases s with
    | leaf => exact ⟨[], by simp [Schema.leaves], rfl⟩
    | node lk cs => simp [Schema.maxDepth] at hd
    | array n c => simp [Schema.maxDepth] at hd
  | succ d ih =>
    intro s hd hwf
    cases s with
    | leaf => exact ⟨[], by simp [Schema.leaves], rfl⟩
    | node lk cs =>
      obtain ⟨hlen, hpos, _, hwfl⟩ := hwf
      have hne : cs ≠ [] := by intro e; subst e; simp at hlen; omega
      obtain ⟨i, c, h1, h2⟩ := maxS_go_attained W lk cs 0 hne
      have hcm := List.mem_of_getElem? h1
      have hcd : c.maxDepth ≤ d := by
        have := maxDepth_go_ge cs c hcm
        simp only [Schema.maxDepth] at hd; omega
      obtain ⟨rest, hr, hw⟩ := ih c hcd (wfList_mem cs hwfl c hcm)
      refine ⟨i :: rest, ?_, ?_⟩
      · have := leaves_go_mem_of cs 0 i c rest h1 hr
        simpa [Schema.leaves] using this
      · simp only [pathW, Schema.kids, h1, Schema.levelW, hw, Schema.maxS, h2, Nat.zero_add]
    | array n c =>
      have hcd : c.maxDepth ≤ d := by simp only [Schema.maxDepth] at hd; omega
      obtain ⟨rest, hr, hw⟩ := ih c hcd hwf.2
      have hn := hwf.1
      refine ⟨(n - 1) :: rest, ?_, ?_⟩
      · simp only [Schema.leaves, List.mem_flatMap, List.mem_range, List.mem_map]
        exact ⟨n - 1, by omega, rest, hr, rfl⟩
      · have hk : (Schema.array n c).kids[n - 1]? = some c := by
          have hlt : n - 1 < n := by omega
          simp [Schema.kids, hlt]
        simp only [pathW, hk, Schema.levelW, hw, Schema.maxS, W.attained n hn]

end MiniconfVerif

namespace MiniconfVerif
set_option autoImplicit false

theorem digits_eq (n : Nat) : digits n = if n < 10 then 1 else 1 + digits (n / 10) := by
  rw [digits]; split <;> rfl

theorem digits_mono : ∀ (b a : Nat), a ≤ b → digits a ≤ digits b := by
  intro b
  induction b using Nat.strongRecOn with
  | _ b ih =>
    intro a hab
    rw [digits_eq a, digits_eq b]
    by_cases ha : a < 10
    · by_cases hb : b < 10
      · simp [ha, hb]
      · simp only [ha, hb, if_true, if_false]; omega
    · have hb : ¬ b < 10 := by omega
      simp only [ha, hb, if_false]
      have := ih (b / 10) (by omega) (a / 10) (Nat.div_le_div_right hab)
      omega

/-- key widths in bits: the same at every index of a level -/
def Wbits : Weights where
  w := fun lk _ => widthFor lk.len
  wA := fun n _ => widthFor n
  wAmax := fun n => widthFor n
  bound := fun _ _ _ => Nat.le_refl _
  attained := fun _ _ => rfl

/-- key lengths in bytes: the name, or the decimal digits of the index -/
def Wlen : Weights where
  w := fun lk i => lk.keyLen i
  wA := fun _ i => digits i
  wAmax := fun n => digits (n - 1)
  bound := fun n i h => digits_mono (n - 1) i (by omega)
  attained := fun _ _ => rfl

theorem merge_bits (acc c : Meta) (a b d : Nat) :
    (acc.merge c a b d).maxBits = max acc.maxBits (widthFor d + c.maxBits) := rfl
theorem merge_len (acc c : Meta) (a b d : Nat) :
    (acc.merge c a b d).maxLength = max acc.maxLength (a + c.maxLength) := rfl

mutual
theorem meta_bits : ∀ s : Schema, s.meta.maxBits = s.maxS Wbits
  | .leaf => rfl
  | .node lk cs => by
    simp only [Schema.meta, Schema.maxS]
    rw [meta_bits_list lk cs 0 Meta.zero]; simp [Meta.zero]
  | .array n c => by
    simp only [Schema.meta, Schema.maxS, merge_bits, Meta.zero, meta_bits c, Wbits]; omega
theorem meta_bits_list (lk : Lookup) : ∀ (cs : List Schema) (i : Nat) (acc : Meta),
    (Schema.meta.go lk cs i acc).maxBits = max acc.maxBits (Schema.maxS.go Wbits lk cs i)
  | [], _, _ => by simp [Schema.meta.go, Schema.maxS.go]
  | c :: cs, i, acc => by
    simp only [Schema.meta.go, Schema.maxS.go]
    rw [meta_bits_list lk cs (i + 1), merge_bits, meta_bits c]
    simp only [Wbits]; omega
end

mutual
theorem meta_len : ∀ s : Schema, s.meta.maxLength = s.maxS Wlen
  | .leaf => rfl
  | .node lk cs => by
    simp only [Schema.meta, Schema.maxS]
    rw [meta_len_list lk cs 0 Meta.zero]; simp [Meta.zero]
  | .array n c => by
    simp only [Schema.meta, Schema.maxS, merge_len, Meta.zero, meta_len c, Wlen]; omega
theorem meta_len_list (lk : Lookup) : ∀ (cs : List Schema) (i : Nat) (acc : Meta),
    (Schema.meta.go lk cs i acc).maxLength = max acc.maxLength (Schema.maxS.go Wlen lk cs i)
  | [], _, _ => by simp [Schema.meta.go, Schema.maxS.go]
  | c :: cs, i, acc => by
    simp only [Schema.meta.go, Schema.maxS.go]
    rw [meta_len_list lk cs (i + 1), merge_len, meta_len c]
    simp only [Wlen]; omega
end

end MiniconfVerif
