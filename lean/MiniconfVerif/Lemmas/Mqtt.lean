import MiniconfVerif.Model.Mqtt

namespace MiniconfVerif.Mqtt
open MiniconfVerif MiniconfVerif.PathIter
set_option autoImplicit false

variable {σ : Type}

/-! ### the list pump -/

theorem listPump_spec (rt : Str) (cd : Option (List Nat)) (k : Nat) : ∀ (rem : List Str),
    let r := listPump rt cd rem k
    ∃ sent, rem = sent ++ r.1 ∧
      -- what was sent: the paths in order, as `Continue`, then `Ok ""` exactly when completing
      r.2.1 = sent.map (fun p => Out.pub rt (.text p) .continue cd) ++
        (if r.2.2 then [Out.pub rt (.text []) .ok cd] else []) ∧
      (r.2.2 = true → r.1 = []) ∧ r.2.1.length ≤ k := by
  induction k with
  | zero => intro rem; exact ⟨[], by simp [listPump]⟩
  | succ k ih =>
    intro rem
    cases rem with
    | nil => exact ⟨[], by simp [listPump]⟩
    | cons p rest =>
      obtain ⟨sent, h1, h2, h3, h4⟩ := ih rest
      refine ⟨p :: sent, ?_, ?_, ?_, ?_⟩
      · simp only [listPump, List.cons_append]; exact congrArg _ h1
      · simp only [listPump, List.map_cons, List.cons_append, h2]
      · simpa only [listPump] using h3
      · simp only [listPump, List.length_cons]; omega

/-- enough slots: every path, in order, then the final `Ok ""`, and the walk completes -/
theorem listPump_complete (rt : Str) (cd : Option (List Nat)) (rem : List Str) (k : Nat) (hk : rem.length < k) :
    listPump rt cd rem k =
      ([], rem.map (fun p => Out.pub rt (.text p) .continue cd) ++ [.pub rt (.text []) .ok cd], true) := by
  induction rem generalizing k with
  | nil =>
    cases k with
    | zero => simp at hk
    | succ k => simp [listPump]
  | cons p rest ih =>
    cases k with
    | zero => simp at hk
    | succ k =>
      simp only [List.length_cons] at hk
      simp only [listPump, ih k (by omega), List.map_cons, List.cons_append]

/-- splitting the slots over several `update()` calls does not change what is sent -/
theorem listPump_schedule (rt : Str) (cd : Option (List Nat)) (k1 k2 : Nat) : ∀ (rem : List Str),
    (listPump rt cd rem k1).2.2 = false →
    listPump rt cd rem (k1 + k2) =
      ((listPump rt cd (listPump rt cd rem k1).1 k2).1,
       (listPump rt cd rem k1).2.1 ++ (listPump rt cd (listPump rt cd rem k1).1 k2).2.1,
       (listPump rt cd (listPump rt cd rem k1).1 k2).2.2) := by
  induction k1 with
  | zero => intro rem _; simp [listPump]
  | succ k1 ih =>
    intro rem
    cases rem with
    | nil => simp [listPump]
    | cons p rest =>
      intro ha
      have hr : (listPump rt cd rest k1).2.2 = false := by simpa only [listPump] using ha
      have e : k1 + 1 + k2 = (k1 + k2) + 1 := by omega
      rw [e]
      simp only [listPump, ih rest hr, List.cons_append]

/-- element-wise relation between two lists of equal length (core has no `AllPairs`) -/
inductive AllPairs {α β : Type} (R : α → β → Prop) : List α → List β → Prop
  | nil : AllPairs R [] []
  | cons {a : α} {b : β} {as : List α} {bs : List β} : R a b → AllPairs R as bs → AllPairs R (a :: as) (b :: bs)

/-! ### the dump pump -/

/-- a leaf path is present (has a value) in state `s` -/
def Present (ops : SettingsOps σ) (s : σ) (p : Str) : Bool :=
  match ops.get s p with
  | .value _ => true
  | _ => false

/-- every leaf path of the walk is either present (a value) or absent at runtime -/
def LeafPathsOk (ops : SettingsOps σ) (s : σ) (ps : List Str) : Prop :=
  ∀ p ∈ ps, (∃ txt, ops.get s p = .value txt) ∨ (∃ d, ops.get s p = .err (.absent d))

/-- what a dump publishes for a present leaf: its value now, or the too-large error -/
def IsDumpOut (ops : SettingsOps σ) (pfx : Str) (s : σ) (cd : Option (List Nat)) (p : Str) (o : Out) : Prop :=
  ∃ txt, ops.get s p = .value txt ∧
    (o = .pub (prefixSettings pfx ++ p) (.text txt) .ok cd ∨
     o = .pub (prefixSettings pfx ++ p) (.text msgTooLarge) .error cd)

theorem dumpPump_spec (ops : SettingsOps σ) (pfx : Str) (s : σ) (cd : Option (List Nat)) (k : Nat) :
    ∀ (rem : List Str) (big : List Bool), LeafPathsOk ops s rem →
    let r := dumpPump ops pfx s cd rem k big
    ∃ consumed, rem = consumed ++ r.1 ∧
      -- exactly the present leaves among the consumed ones are published: in order, once each
      AllPairs (IsDumpOut ops pfx s cd) (consumed.filter (Present ops s)) r.2.1 ∧
      (r.2.2 = true → r.1 = []) ∧ consumed.length ≤ k := by
  induction k with
  | zero => intro rem big _; exact ⟨[], by simp [dumpPump], by simpa [dumpPump] using AllPairs.nil, by simp [dumpPump], by simp⟩
  | succ k ih =>
    intro rem big hok
    cases rem with
    | nil => exact ⟨[], by simp [dumpPump], by simpa [dumpPump] using AllPairs.nil, by simp [dumpPump], by simp⟩
    | cons p rest =>
      have hok' : LeafPathsOk ops s rest := fun q hq => hok q (List.mem_cons_of_mem _ hq)
      rcases hok p (List.mem_cons_self) with ⟨txt, hg⟩ | ⟨d, hg⟩
      · have hpres : Present ops s p = true := by simp [Present, hg]
        obtain ⟨cons, e1, e2, e3, e4⟩ := ih rest big.tail hok'
        refine ⟨p :: cons, ?_, ?_, ?_, ?_⟩
        · simp only [dumpPump, hg, List.cons_append]; exact congrArg _ e1
        · simp only [dumpPump, hg, List.filter_cons, hpres, if_true]
          refine AllPairs.cons ?_ e2
          refine ⟨txt, hg, ?_⟩
          by_cases hb : big.headD false = true <;> simp [hb]
        · simpa only [dumpPump, hg] using e3
        · simp only [List.length_cons]; omega
      · have hpres : Present ops s p = false := by simp [Present, hg]
        obtain ⟨cons, e1, e2, e3, e4⟩ := ih rest big hok'
        refine ⟨p :: cons, ?_, ?_, ?_, ?_⟩
        · simp only [dumpPump, hg, List.cons_append]; exact congrArg _ e1
        · simpa [dumpPump, hg, List.filter_cons, hpres] using e2
        · simpa only [dumpPump, hg] using e3
        · simp only [List.length_cons]; omega

/-- enough slots: the walk completes and every present leaf has been published -/
theorem dumpPump_complete (ops : SettingsOps σ) (pfx : Str) (s : σ) (cd : Option (List Nat)) :
    ∀ (rem : List Str) (k : Nat) (big : List Bool), LeafPathsOk ops s rem → rem.length < k →
      (dumpPump ops pfx s cd rem k big).1 = [] ∧ (dumpPump ops pfx s cd rem k big).2.2 = true ∧
      AllPairs (IsDumpOut ops pfx s cd) (rem.filter (Present ops s)) (dumpPump ops pfx s cd rem k big).2.1 := by
  intro rem
  induction rem with
  | nil =>
    intro k big _ hk
    cases k with
    | zero => simp at hk
    | succ k => exact ⟨by simp [dumpPump], by simp [dumpPump], by simpa [dumpPump] using AllPairs.nil⟩
  | cons p rest ih =>
    intro k big hok hk
    cases k with
    | zero => simp at hk
    | succ k =>
      simp only [List.length_cons] at hk
      have hok' : LeafPathsOk ops s rest := fun q hq => hok q (List.mem_cons_of_mem _ hq)
      rcases hok p (List.mem_cons_self) with ⟨txt, hg⟩ | ⟨d, hg⟩
      · have hpres : Present ops s p = true := by simp [Present, hg]
        obtain ⟨i1, i2, i3⟩ := ih k big.tail hok' (by omega)
        refine ⟨by simpa only [dumpPump, hg] using i1, by simpa only [dumpPump, hg] using i2, ?_⟩
        simp only [dumpPump, hg, List.filter_cons, hpres, if_true]
        refine AllPairs.cons ⟨txt, hg, ?_⟩ i3
        by_cases hb : big.headD false = true <;> simp [hb]
      · have hpres : Present ops s p = false := by simp [Present, hg]
        obtain ⟨i1, i2, i3⟩ := ih k big hok' (by omega)
        exact ⟨by simpa only [dumpPump, hg] using i1, by simpa only [dumpPump, hg] using i2,
          by simpa [dumpPump, hg, List.filter_cons, hpres] using i3⟩

end MiniconfVerif.Mqtt

namespace MiniconfVerif.Mqtt
open MiniconfVerif MiniconfVerif.PathIter
set_option autoImplicit false

variable {σ : Type}

/-! ### the request handler -/

/-- the handler changes the protocol state only by accepting a multipart request while idle -/
theorem handleMsg_st (ops : SettingsOps σ) (pfx : Str) (c : Client) (s : σ) (m : Req) (cp fits : Bool) :
    (handleMsg ops pfx c s m cp fits).1 = c ∨
    (c.st = .single ∧ (handleMsg ops pfx c s m cp fits).1.st = .multipart ∧
      (handleMsg ops pfx c s m cp fits).2.2.1 = []) := by
  unfold handleMsg
  split
  · left; rfl
  · split
    · split
      · left; rfl
      · split
        · split <;> (left; rfl)
        · split
          · next hs =>
            split
            · left; rfl
            · split
              · left; rfl
              · split
                · right
                  exact ⟨hs, rfl, rfl⟩
                · left; rfl
          · left; rfl
        · left; rfl
    · split <;> (left; rfl)

/-- the settings change only through a `Set`: non-empty payload on a settings topic -/
theorem handleMsg_settings (ops : SettingsOps σ) (pfx : Str) (c : Client) (s : σ) (m : Req) (cp fits : Bool) :
    (handleMsg ops pfx c s m cp fits).2.1 = s ∨
    (∃ path, topicPath pfx m.topic = some path ∧ m.payload ≠ [] ∧
      (handleMsg ops pfx c s m cp fits).2.1 = (ops.set s path m.payload).2) := by
  unfold handleMsg
  split
  · left; rfl
  · next path hp =>
    split
    · left
      split
      · rfl
      · split
        · split <;> rfl
        · split
          · split
            · rfl
            · split
              · rfl
              · split <;> rfl
          · rfl
        · rfl
    · next hne =>
      right
      refine ⟨path, hp, ?_, ?_⟩
      · intro h; simp [h] at hne
      · split <;> simp_all

/-- `update()` reports `true` exactly when a `Set` was applied successfully -/
theorem handleMsg_changed (ops : SettingsOps σ) (pfx : Str) (c : Client) (s : σ) (m : Req) (cp fits : Bool) :
    (handleMsg ops pfx c s m cp fits).2.2.2 = .changed ↔
    (∃ path, topicPath pfx m.topic = some path ∧ m.payload ≠ [] ∧ (ops.set s path m.payload).1 = .ok) := by
  unfold handleMsg
  split
  · next hn => simp [hn]
  · next path hp =>
    split
    · next he =>
      have : m.payload = [] := by simpa using he
      constructor
      · intro h
        exfalso
        revert h
        split
        · simp
        · split
          · split <;> simp
          · split
            · split
              · simp
              · split
                · simp
                · split <;> simp
            · simp
          · simp
      · rintro ⟨_, _, hne, _⟩; exact absurd this hne
    · next hne =>
      have hne' : m.payload ≠ [] := by intro h; simp [h] at hne
      constructor
      · intro h
        refine ⟨path, hp, hne', ?_⟩
        revert h
        split
        · next hs => intro _; simp [hs]
        · next r s' hs hr =>
          intro h; simp at h
      · rintro ⟨path', hp', _, hok⟩
        have : path' = path := by rw [hp] at hp'; exact (Option.some.inj hp').symm
        subst this
        cases hset : ops.set s path' m.payload with
        | mk r s' =>
          rw [hset] at hok
          simp only at hok
          subst hok
          rfl

end MiniconfVerif.Mqtt
