import MiniconfVerif.Lemmas.MqttStep

namespace MiniconfVerif.Mqtt
open MiniconfVerif MiniconfVerif.PathIter
set_option autoImplicit false

variable {σ : Type}

/-- ghost record of the current connection epoch: what has been sent since the last
(re)start of the protocol, and when -/
structure Ghost where
  aliveSent : Bool
  subSent : Bool
  subTime : Nat
  now : Nat
  deriving Repr, DecidableEq

def Ghost.fresh (now : Nat) : Ghost := ⟨false, false, 0, now⟩

/-- ghost bookkeeping of one `update()`: a lost connection or a session reset starts a new
epoch; the alive message and the subscription are recorded when the state machine sends them -/
def ghostStep (g : Ghost) (o : Obs) (armOuts : List Out) : Ghost :=
  let g0 := if o.connected then g else Ghost.fresh g.now
  let g1 : Ghost :=
    { aliveSent := g0.aliveSent || armOuts.contains .alive
      subSent := g0.subSent || armOuts.contains .sub
      subTime := if armOuts.contains .sub then o.now else g0.subTime
      now := o.now }
  match o.poll with
  | .sessionReset => Ghost.fresh o.now
  | _ => g1

/-- the protocol state determines what the epoch has seen so far -/
def Inv (c : Client) (g : Ghost) : Prop :=
  match c.st with
  | .connect | .alive => g.aliveSent = false ∧ g.subSent = false
  | .subscribe => g.aliveSent = true ∧ g.subSent = false
  | .wait => g.aliveSent = true ∧ g.subSent = true ∧ c.timeout = some (g.subTime + DUMP_TIMEOUT_MS)
  | .init | .multipart | .single => g.aliveSent = true ∧ g.subSent = true ∧ g.subTime + DUMP_TIMEOUT_MS ≤ g.now

theorem inv_init (now : Nat) : Inv Client.init (Ghost.fresh now) := by
  simp [Inv, Client.init, Ghost.fresh]

/-- ghost after the state-machine arm (before poll) -/
def ghostArm (g0 : Ghost) (o : Obs) (armOuts : List Out) : Ghost :=
  { aliveSent := g0.aliveSent || armOuts.contains .alive
    subSent := g0.subSent || armOuts.contains .sub
    subTime := if armOuts.contains .sub then o.now else g0.subTime
    now := o.now }

theorem contains_alive_iff (l : List Out) : l.contains Out.alive = true ↔ Out.alive ∈ l := by simp
theorem contains_sub_iff (l : List Out) : l.contains Out.sub = true ↔ Out.sub ∈ l := by simp

theorem inv_arm (ops : SettingsOps σ) (pfx : Str) (c : Client) (s : σ) (o : Obs) (g : Ghost)
    (hI : Inv c g) (ht : g.now ≤ o.now) :
    Inv (arm ops pfx c s o).1 (ghostArm g o (arm ops pfx c s o).2) := by
  have hna : c.st ≠ .alive → Out.alive ∉ (arm ops pfx c s o).2 := fun h hm => h (arm_alive ops pfx c s o hm).1
  have hns : c.st ≠ .subscribe → Out.sub ∉ (arm ops pfx c s o).2 := fun h hm => h (arm_sub ops pfx c s o hm).1
  cases hst : c.st with
  | connect =>
    have e : (arm ops pfx c s o) = (if o.connected then { c with st := .alive } else c, []) := by
      unfold arm; rw [hst]
    simp only [Inv, hst] at hI
    rw [e]
    split <;> simp [Inv, ghostArm, hst, hI]
  | alive =>
    have e : (arm ops pfx c s o) = (if o.aliveOk then ({ c with st := .subscribe }, [.alive]) else (c, [])) := by
      unfold arm; rw [hst]
    simp only [Inv, hst] at hI
    rw [e]
    split <;> simp [Inv, ghostArm, hst, hI]
  | subscribe =>
    have e : (arm ops pfx c s o) =
        (if o.subOk then ({ c with st := .wait, timeout := some (o.now + DUMP_TIMEOUT_MS) }, [.sub]) else (c, [])) := by
      unfold arm; rw [hst]
    simp only [Inv, hst] at hI
    rw [e]
    split <;> simp [Inv, ghostArm, hst, hI]
  | wait =>
    simp only [Inv, hst] at hI
    obtain ⟨h1, h2, h3⟩ := hI
    have e : (arm ops pfx c s o) =
        (if g.subTime + DUMP_TIMEOUT_MS ≤ o.now then { c with st := .init } else c, []) := by
      unfold arm; rw [hst]; simp only [h3]
    rw [e]
    split
    · next hle => simp [Inv, ghostArm, h1, h2, hle]
    · simp [Inv, ghostArm, hst, h1, h2, h3]
  | init =>
    simp only [Inv, hst] at hI
    obtain ⟨h1, h2, h3⟩ := hI
    have hno : (arm ops pfx c s o).2 = [] := by
      unfold arm; rw [hst]; simp only []; split <;> rfl
    have hs' := arm_next ops pfx c s o
    rw [hst] at hs'
    have : (arm ops pfx c s o).1.st = .init ∨ (arm ops pfx c s o).1.st = .multipart := by
      rcases hs' with e | e
      · left; exact e
      · right; revert e; cases (arm ops pfx c s o).1.st <;> simp [Next]
    rcases this with e | e <;> (simp only [Inv, e, ghostArm, hno]; simp [h1, h2]; omega)
  | multipart =>
    simp only [Inv, hst] at hI
    obtain ⟨h1, h2, h3⟩ := hI
    have ha := hna (by rw [hst]; decide)
    have hs := hns (by rw [hst]; decide)
    have hs' := arm_next ops pfx c s o
    rw [hst] at hs'
    have : (arm ops pfx c s o).1.st = .multipart ∨ (arm ops pfx c s o).1.st = .single := by
      rcases hs' with e | e
      · left; exact e
      · right; revert e; cases (arm ops pfx c s o).1.st <;> simp [Next]
    have ca : (arm ops pfx c s o).2.contains Out.alive = false := by
      cases hc : (arm ops pfx c s o).2.contains Out.alive with
      | false => rfl
      | true => exact absurd ((contains_alive_iff _).mp hc) ha
    have cs : (arm ops pfx c s o).2.contains Out.sub = false := by
      cases hc : (arm ops pfx c s o).2.contains Out.sub with
      | false => rfl
      | true => exact absurd ((contains_sub_iff _).mp hc) hs
    rcases this with e | e <;> (simp only [Inv, e, ghostArm, ca, cs]; simp [h1, h2]; omega)
  | single =>
    have e : (arm ops pfx c s o) = (c, []) := by unfold arm; rw [hst]
    simp only [Inv, hst] at hI
    obtain ⟨h1, h2, h3⟩ := hI
    rw [e]
    simp only [Inv, hst, ghostArm]; simp [h1, h2]; omega

/-- `Inv` depends on the client only through its state and timeout -/
theorem inv_congr (c c' : Client) (g : Ghost) (hs : c'.st = c.st) (ht : c'.timeout = c.timeout) (h : Inv c g) :
    Inv c' g := by
  unfold Inv at *
  rw [hs, ht]
  exact h

theorem handleMsg_timeout (ops : SettingsOps σ) (pfx : Str) (c : Client) (s : σ) (m : Req) (cp fits : Bool) :
    (handleMsg ops pfx c s m cp fits).1.timeout = c.timeout := by
  unfold handleMsg
  split
  · rfl
  · split
    · split
      · rfl
      · split
        · split <;> rfl
        · split
          · split
            · rfl
            · split
              · rfl
              · split <;> rfl
          · rfl
        · rfl
    · split <;> rfl

/-- the invariant is preserved by every `update()`, whatever the environment does -/
theorem inv_step (ops : SettingsOps σ) (pfx : Str) (c : Client) (s : σ) (o : Obs) (g : Ghost)
    (hI : Inv c g) (ht : g.now ≤ o.now) :
    Inv (step ops pfx c s o).1
      (ghostStep g o (arm ops pfx (if o.connected then c else c.reset) s o).2) := by
  -- reset when not connected
  have hI0 : Inv (if o.connected then c else c.reset) (if o.connected then g else Ghost.fresh g.now) := by
    split
    · exact hI
    · simp [Inv, Client.reset, Ghost.fresh]
  have ht0 : (if o.connected then g else Ghost.fresh g.now).now ≤ o.now := by
    split <;> simpa [Ghost.fresh] using ht
  have hA := inv_arm ops pfx _ s o _ hI0 ht0
  simp only [step, ghostStep]
  generalize hc1 : arm ops pfx (if o.connected then c else c.reset) s o = r1 at hA ⊢
  cases hp : o.poll with
  | idle => simpa [pollStep, ghostArm] using hA
  | error => simpa [pollStep, ghostArm] using hA
  | sessionReset => simp [pollStep, Inv, Client.reset, Ghost.fresh]
  | msg m cp fits =>
    simp only [pollStep]
    rcases handleMsg_st ops pfx r1.1 s m cp fits with e | ⟨e1, e2, _⟩
    · rw [e]; simpa [ghostArm] using hA
    · have hto := handleMsg_timeout ops pfx r1.1 s m cp fits
      unfold Inv at hA ⊢
      rw [e1] at hA
      rw [e2]
      simpa [ghostArm] using hA

end MiniconfVerif.Mqtt
