import MiniconfVerif.Lemmas.Mqtt

namespace MiniconfVerif.Mqtt
open MiniconfVerif MiniconfVerif.PathIter
set_option autoImplicit false

variable {σ : Type}

/-- the transition table of the `smlang` state machine (lib.rs 74-85), without `Reset` -/
def Next : St → St → Bool
  | .connect, .alive | .alive, .subscribe | .subscribe, .wait | .wait, .init | .init, .multipart
  | .multipart, .single | .single, .multipart => true
  | _, _ => false

theorem iterList_fst (c : Client) (k : Nat) :
    (iterList c k).1.st = c.st ∨ (iterList c k).1.st = .single := by
  unfold iterList
  split
  · left; rfl
  · simp only []
    split
    · right; rfl
    · left; rfl

theorem iterDump_fst (ops : SettingsOps σ) (pfx : Str) (s : σ) (c : Client) (k : Nat) (big : List Bool) :
    (iterDump ops pfx s c k big).1.st = c.st ∨ (iterDump ops pfx s c k big).1.st = .single := by
  unfold iterDump
  simp only []
  split
  · right; rfl
  · left; rfl

theorem listPump_outs (rt : Str) (cd : Option (List Nat)) (k : Nat) : ∀ (rem : List Str),
    ∀ o ∈ (listPump rt cd rem k).2.1, ∃ t b c, o = .pub t b c cd := by
  induction k with
  | zero => intro rem o ho; simp [listPump] at ho
  | succ k ih =>
    intro rem o ho
    cases rem with
    | nil =>
      simp only [listPump, List.mem_singleton] at ho
      exact ⟨_, _, _, ho⟩
    | cons p rest =>
      simp only [listPump, List.mem_cons] at ho
      rcases ho with rfl | ho
      · exact ⟨_, _, _, rfl⟩
      · exact ih rest o ho

theorem iterList_no_alive_sub (c : Client) (k : Nat) : Out.alive ∉ (iterList c k).2 ∧ Out.sub ∉ (iterList c k).2 := by
  unfold iterList
  split
  · simp
  · next rt _ =>
    simp only []
    constructor <;> (intro h; obtain ⟨_, _, _, e⟩ := listPump_outs rt _ k _ _ h; cases e)

theorem dumpPump_outs (ops : SettingsOps σ) (pfx : Str) (s : σ) (cd : Option (List Nat)) (k : Nat) :
    ∀ (rem : List Str) (big : List Bool), ∀ o ∈ (dumpPump ops pfx s cd rem k big).2.1,
      ∃ t b c, o = .pub t b c cd := by
  induction k with
  | zero => intro rem big o ho; simp [dumpPump] at ho
  | succ k ih =>
    intro rem big o ho
    cases rem with
    | nil => simp [dumpPump] at ho
    | cons p rest =>
      simp only [dumpPump] at ho
      split at ho
      · simp only [List.mem_cons] at ho
        rcases ho with rfl | ho
        · split <;> exact ⟨_, _, _, rfl⟩
        · exact ih rest _ o ho
      · exact ih rest _ o ho
      · simp at ho

theorem iterDump_no_alive_sub (ops : SettingsOps σ) (pfx : Str) (s : σ) (c : Client) (k : Nat) (big : List Bool) :
    Out.alive ∉ (iterDump ops pfx s c k big).2 ∧ Out.sub ∉ (iterDump ops pfx s c k big).2 := by
  unfold iterDump
  simp only []
  constructor <;> (intro h; obtain ⟨_, _, _, e⟩ := dumpPump_outs ops pfx s _ k _ _ _ h; cases e)

/-- one state-machine step moves along the transition table or stays -/
theorem arm_next (ops : SettingsOps σ) (pfx : Str) (c : Client) (s : σ) (o : Obs) :
    (arm ops pfx c s o).1.st = c.st ∨ Next c.st (arm ops pfx c s o).1.st = true := by
  unfold arm
  split
  · next h => split <;> simp [h, Next]
  · next h => split <;> simp [h, Next]
  · next h => split <;> simp [h, Next]
  · next h => split <;> (try split) <;> simp [h, Next]
  · next h => split <;> simp [h, Next]
  · next h =>
    split
    · rcases iterList_fst c o.slots with e | e <;> simp [e, h, Next]
    · rcases iterDump_fst ops pfx s c o.slots o.tooLarge with e | e <;> simp [e, h, Next]
  · left; rfl

/-- the alive message is sent exactly on the step `Alive → Subscribe` -/
theorem arm_alive (ops : SettingsOps σ) (pfx : Str) (c : Client) (s : σ) (o : Obs)
    (h : Out.alive ∈ (arm ops pfx c s o).2) : c.st = .alive ∧ (arm ops pfx c s o).1.st = .subscribe := by
  unfold arm at h ⊢
  split at h
  · simp at h
  · next hs => split at h <;> simp_all
  · split at h <;> simp at h
  · split at h <;> simp at h
  · split at h <;> simp at h
  · split at h
    · exact absurd h (iterList_no_alive_sub c o.slots).1
    · exact absurd h (iterDump_no_alive_sub ops pfx s c o.slots o.tooLarge).1
  · simp at h

/-- the subscription is sent exactly on the step `Subscribe → Wait`, which starts the dump timeout -/
theorem arm_sub (ops : SettingsOps σ) (pfx : Str) (c : Client) (s : σ) (o : Obs)
    (h : Out.sub ∈ (arm ops pfx c s o).2) :
    c.st = .subscribe ∧ (arm ops pfx c s o).1.st = .wait ∧
      (arm ops pfx c s o).1.timeout = some (o.now + DUMP_TIMEOUT_MS) := by
  unfold arm at h ⊢
  split at h
  · simp at h
  · split at h <;> simp at h
  · next hs => split at h <;> simp_all
  · split at h <;> simp at h
  · split at h <;> simp at h
  · split at h
    · exact absurd h (iterList_no_alive_sub c o.slots).2
    · exact absurd h (iterDump_no_alive_sub ops pfx s c o.slots o.tooLarge).2
  · simp at h

/-- list / dump items are published only in state `Multipart` -/
theorem arm_pub (ops : SettingsOps σ) (pfx : Str) (c : Client) (s : σ) (o : Obs)
    (t : Str) (b : Body) (code : Code) (cd : Option (List Nat))
    (h : Out.pub t b code cd ∈ (arm ops pfx c s o).2) : c.st = .multipart := by
  unfold arm at h
  split at h
  · simp at h
  · split at h <;> simp at h
  · split at h <;> simp at h
  · split at h <;> simp at h
  · split at h <;> simp at h
  · assumption
  · simp at h

/-- `Wait → Init` needs the timeout that the subscription step started to have elapsed -/
theorem arm_wait_init (ops : SettingsOps σ) (pfx : Str) (c : Client) (s : σ) (o : Obs)
    (hw : c.st = .wait) (hi : (arm ops pfx c s o).1.st = .init) : ∃ t, c.timeout = some t ∧ t ≤ o.now := by
  unfold arm at hi
  rw [hw] at hi
  simp only [] at hi
  split at hi
  · next t ht =>
    refine ⟨t, ht, ?_⟩
    by_cases hle : t ≤ o.now
    · exact hle
    · simp [hle, hw] at hi
  · simp [hw] at hi

/-- timeout and pending are untouched by the steps before `Multipart` except as stated -/
theorem arm_timeout (ops : SettingsOps σ) (pfx : Str) (c : Client) (s : σ) (o : Obs)
    (h : c.st ≠ .subscribe) : (arm ops pfx c s o).1.timeout = c.timeout := by
  unfold arm
  split
  · split <;> rfl
  · split <;> rfl
  · next hs => exact absurd hs h
  · split <;> (try split) <;> rfl
  · split <;> rfl
  · split
    · unfold iterList; split <;> rfl
    · rfl
  · rfl

end MiniconfVerif.Mqtt
