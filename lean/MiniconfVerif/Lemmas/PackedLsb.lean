import MiniconfVerif.Lemmas.PackedWord

/-! LSB conversion, `bits_for`, and panic-freedom side conditions of the generated
packed.rs arithmetic. -/
namespace MiniconfVerif.PackedWord
open MiniconfVerif.Gen.Packed

theorem intoLsb_ne_zero (w : BitVec 64) (hw : w ≠ 0) : intoLsb w ≠ 0 := by
  simp only [intoLsb, CAPACITY]; bv_decide

theorem fromLsb_ne_zero (w : BitVec 64) (hw : w ≠ 0) : fromLsb w ≠ 0 := by
  simp only [fromLsb]; bv_decide

theorem fromLsb_intoLsb (w : BitVec 64) (hw : w ≠ 0) : fromLsb (intoLsb w) = w := by
  simp only [intoLsb, fromLsb, CAPACITY]; bv_decide

theorem intoLsb_fromLsb (w : BitVec 64) (hw : w ≠ 0) : intoLsb (fromLsb w) = w := by
  simp only [intoLsb, fromLsb, CAPACITY]; bv_decide

/-- the LSB form is "marker bit `2^l` above the content" -/
theorem intoLsb_reprW (l c : BitVec 64) (h : Valid l c) :
    intoLsb (reprW l c) = ((1 : BitVec 64) <<< l) ||| c := by
  obtain ⟨h1, h2⟩ := h
  simp only [intoLsb, reprW, CAPACITY]; bv_decide

theorem fromLsb_marker (l c : BitVec 64) (h : Valid l c) :
    fromLsb (((1 : BitVec 64) <<< l) ||| c) = reprW l c := by
  obtain ⟨h1, h2⟩ := h
  simp only [fromLsb, reprW]; bv_decide

/-! `bits_for` -/

theorem bitsFor_pos (n : BitVec 64) : 1 ≤ bitsFor n ∧ bitsFor n ≤ 64 := by
  simp only [bitsFor, BITS]
  constructor <;> bv_decide

/-- `n < 2^(bits_for n)` stated without overflow: shifting right by the width clears `n`
(for `bits_for n = 64` the Lean shift is by 64, giving 0 as the mathematical statement requires) -/
theorem bitsFor_covers (n : BitVec 64) (h : bitsFor n ≤ 63) : n >>> bitsFor n = 0 := by
  simp only [bitsFor, BITS] at *
  bv_decide

theorem bitsFor_64 (n : BitVec 64) : bitsFor n = 64 ↔ (n >>> (63 : BitVec 64)) = 1 := by
  simp only [bitsFor, BITS]
  bv_decide

/-- minimality: one bit fewer does not cover `n` (unless the width is the floor 1) -/
theorem bitsFor_minimal (n : BitVec 64) (h : 1 < bitsFor n) : n >>> (bitsFor n - 1) ≠ 0 := by
  simp only [bitsFor, BITS] at *
  bv_decide

theorem bitsFor_zero : bitsFor 0 = 1 := by decide

/-- monotone in its argument -/
theorem bitsFor_mono (a b : BitVec 64) (h : a ≤ b) : bitsFor a ≤ bitsFor b := by
  simp only [bitsFor, BITS]
  bv_decide

/-- an index below the sibling count fits the width used for it
(`debug_assert_eq!(value >> bits, 0)` in `push_lsb` cannot fire from `Transcode`/`Keys`) -/
theorem index_fits (len idx : BitVec 64) (hl : len ≠ 0) (hi : idx < len)
    (h63 : keyBits len ≤ 63) : idx >>> keyBits len = 0 := by
  simp only [keyBits, bitsFor, BITS] at *
  bv_decide

/-! panic-freedom of the shifts and subtractions (overflow-checked profile) and
unmasked shifts (release profile) under the documented argument contract -/

theorem intoLsb_no_panic (w : BitVec 64) (hw : w ≠ 0) : intoLsb_pre w = true := by
  simp only [intoLsb_pre, BITS, CAPACITY, Bool.and_eq_true, decide_eq_true_eq]
  refine ⟨⟨?_, ?_⟩, ?_⟩ <;> bv_decide

theorem fromLsb_no_panic (w : BitVec 64) (hw : w ≠ 0) : fromLsb_pre w = true := by
  simp only [fromLsb_pre, BITS, Bool.and_eq_true, decide_eq_true_eq]
  refine ⟨?_, ?_⟩ <;> bv_decide

theorem bitsFor_no_panic (n : BitVec 64) : bitsFor_pre n = true := by
  simp only [bitsFor_pre, BITS, decide_eq_true_eq]; bv_decide

theorem len_no_panic (w : BitVec 64) (hw : w ≠ 0) : len_pre w = true := by
  simp only [len_pre, capacity, CAPACITY, decide_eq_true_eq]; bv_decide

theorem popMsb_no_panic (w b : BitVec 64) (hb : b ≤ 63) :
    popMsb_pre w b = true ∧ popMsb_inner w b = true := by
  simp only [popMsb_pre, popMsb_inner, BITS, CAPACITY, Bool.and_eq_true, decide_eq_true_eq]
  refine ⟨?_, ⟨?_, ?_⟩, ?_⟩ <;> bv_decide

theorem pushLsb_no_panic (w b v : BitVec 64) (hw : w ≠ 0) (hb : b ≤ 63) :
    pushLsb_pre w b v = true ∧ (pushLsb w b v ≠ none → pushLsb_inner w b v = true) := by
  simp only [pushLsb_pre, pushLsb_inner, pushLsb, BITS, Bool.and_eq_true, decide_eq_true_eq]
  refine ⟨⟨⟨?_, ?_⟩, ?_⟩, ?_⟩
  · bv_decide
  · bv_decide
  · bv_decide
  · split
    · intro h; exact absurd rfl h
    · intro _
      refine ⟨⟨?_, ?_⟩, ?_⟩ <;> bv_decide

end MiniconfVerif.PackedWord
