import MiniconfVerif.Lemmas.PackedPath

/-! Numeric order of packed keys = lexicographic order of the index paths (= iteration order). -/
namespace MiniconfVerif
open MiniconfVerif.Gen.Packed MiniconfVerif.Packed MiniconfVerif.PackedWord
set_option autoImplicit false

/-- the top `l1` bits of a word (the fields pushed first) -/
def topBits (l1 w : BitVec 64) : BitVec 64 := w >>> ((64 : BitVec 64) - l1)

theorem agree_above (l c b v : BitVec 64) (h1' : l ≤ 63) (h2 : c >>> l = 0) (hb : b ≤ 63) (hv : v >>> b = 0)
    (hf : l + b ≤ 63) (hf2 : l ≤ l + b) (hl : 1 ≤ l) :
    ((reprW (l + b) ((c <<< b) ||| v)) ^^^ (reprW l c)) >>> ((64 : BitVec 64) - l) = 0 := by
  simp only [reprW]
  bv_decide (config := { timeout := 300 })

theorem shift_mono (x l l1 : BitVec 64) (h : x >>> ((64 : BitVec 64) - l) = 0) (hl1 : l1 ≤ l) (h1 : 1 ≤ l1) (h63 : l ≤ 63) :
    x >>> ((64 : BitVec 64) - l1) = 0 := by
  bv_decide (config := { timeout := 300 })

theorem eq_of_xor_shift (w w' k : BitVec 64) (h : (w' ^^^ w) >>> k = 0) : w' >>> k = w >>> k := by
  bv_decide (config := { timeout := 300 })

/-- pushing a further field does not touch the bits above the old marker -/
theorem top_push (l c b v l1 : BitVec 64) (h : Valid l c) (hb : b ≤ 63) (hv : v >>> b = 0)
    (hfit : l.toNat + b.toNat ≤ 63) (hl1 : l1 ≤ l) (h1 : 1 ≤ l1) :
    topBits l1 (reprW (l + b) ((c <<< b) ||| v)) = topBits l1 (reprW l c) := by
  obtain ⟨h1', h2⟩ := h
  have hf : l + b ≤ 63 := by bv_omega
  have hf2 : l ≤ l + b := by bv_omega
  have hl : (1 : BitVec 64) ≤ l := by
    rw [BitVec.le_def] at h1 hl1 ⊢; omega
  have ha := agree_above l c b v h1' h2 hb hv hf hf2 hl
  have hs := shift_mono _ l l1 ha hl1 h1 h1'
  exact eq_of_xor_shift _ _ _ hs

theorem top_self (l c : BitVec 64) (h : Valid l c) (h1 : 1 ≤ l) : topBits l (reprW l c) = c := by
  obtain ⟨h1', h2⟩ := h
  simp only [topBits, reprW]
  bv_decide (config := { timeout := 300 })

theorem lt_of_top_lt (l1 w w' : BitVec 64) (h1 : 1 ≤ l1) (h63 : l1 ≤ 63) (h : topBits l1 w < topBits l1 w') : w < w' := by
  simp only [topBits] at h
  bv_decide (config := { timeout := 300 })

theorem field_lt (l c b i i' : BitVec 64) (h : Valid l c) (hb : b ≤ 63) (hfit : l.toNat + b.toNat ≤ 63)
    (hi : i' >>> b = 0) (hlt : i < i') : ((c <<< b) ||| i) < ((c <<< b) ||| i') := by
  obtain ⟨h1, h2⟩ := h
  have hf : l + b ≤ 63 := by bv_omega
  have hf2 : l ≤ l + b := by bv_omega
  bv_decide (config := { timeout := 300 })

/-- the top bits survive any further sequence of pushes -/
theorem top_pushAll (fs : List (BitVec 64 × BitVec 64)) : ∀ (l c w l1 : BitVec 64), Valid l c → (∀ f ∈ fs, FieldOk f) →
    l.toNat + totalBits fs ≤ 63 → pushAll (reprW l c) fs = some w → l1 ≤ l → 1 ≤ l1 →
    topBits l1 w = topBits l1 (reprW l c) := by
  induction fs with
  | nil => intro l c w l1 _ _ _ hp _ _; simp only [pushAll, Option.some.injEq] at hp; rw [hp]
  | cons f fs ih =>
    intro l c w l1 hV hok hfit hp hl1 h1
    obtain ⟨b, v⟩ := f
    obtain ⟨hb, hv⟩ := hok _ List.mem_cons_self
    simp only at hb hv
    rw [totalBits_cons] at hfit
    simp only at hfit
    have hfit1 : l.toNat + b.toNat ≤ 63 := by omega
    have hV' := push_valid l c b v hV hb hv hfit1
    have hadd := toNat_add_of_fit l b hfit1
    simp only [pushAll, push_ok l c b v hV hb hv hfit1] at hp
    have hl1' : l1 ≤ l + b := by
      rw [BitVec.le_def] at hl1 ⊢; omega
    rw [ih (l + b) _ w l1 hV' (fun f hf => hok f (List.mem_cons_of_mem _ hf)) (by omega) hp hl1' h1]
    exact top_push l c b v l1 hV hb hv hfit1 hl1 h1

/-- **Order**: of two node paths of one type that diverge (neither is a prefix of the other),
the lexicographically smaller one has the numerically smaller packed key -/
theorem pack_lt : ∀ (p p' : List Nat) (s t t' : Schema) (l c w w' : BitVec 64), s.WF → s.Small →
    s.at? p = some t → s.at? p' = some t' → Valid l c → LexLt p p' →
    l.toNat + totalBits (packFields s p) ≤ 63 → l.toNat + totalBits (packFields s p') ≤ 63 →
    pushAll (reprW l c) (packFields s p) = some w → pushAll (reprW l c) (packFields s p') = some w' → w < w' := by
  intro p
  induction p with
  | nil => intro p' s t t' l c w w' _ _ _ _ _ hlex; cases p' <;> simp [LexLt] at hlex
  | cons i r ih =>
    intro p' s t t' l c w w' hwf hsm ht ht' hV hlex hfit hfit' hp hp'
    cases p' with
    | nil => simp [LexLt] at hlex
    | cons i' r' =>
      rw [at?_cons] at ht ht'
      cases hk : s.kids[i]? with
      | none => simp [hk] at ht
      | some ch =>
        cases hk' : s.kids[i']? with
        | none => simp [hk'] at ht'
        | some ch' =>
          simp only [hk] at ht
          simp only [hk'] at ht'
          obtain ⟨hnl, hi⟩ := kid_facts s ch i hk
          obtain ⟨_, hi'⟩ := kid_facts s ch' i' hk'
          have hlen := cbArg_len_arity s hwf i hnl
          have hlen' := cbArg_len_arity s hwf i' hnl
          have har : s.arity ≤ 2 ^ 64 := hsm [] s rfl
          simp only [packFields, hk, hk', totalBits_cons, hlen, hlen'] at hfit hfit' hp hp'
          have hb : keyBits (BitVec.ofNat 64 s.arity) ≤ 63 := by
            rw [BitVec.le_def]; simp; omega
          obtain ⟨_, ⟨_, hv⟩, hti⟩ := level_field_ok s.arity i hi har hb
          obtain ⟨_, ⟨_, hv'⟩, hti'⟩ := level_field_ok s.arity i' hi' har hb
          simp only at hv hv'
          have hfit1 : l.toNat + (keyBits (BitVec.ofNat 64 s.arity)).toNat ≤ 63 := by omega
          have hadd := toNat_add_of_fit l _ hfit1
          have hV1 := push_valid l c _ _ hV hb hv hfit1
          have hV1' := push_valid l c _ _ hV hb hv' hfit1
          simp only [pushAll, push_ok l c _ _ hV hb hv hfit1] at hp
          simp only [pushAll, push_ok l c _ _ hV hb hv' hfit1] at hp'
          simp only [LexLt] at hlex
          rcases hlex with hlt | ⟨rfl, hlex⟩
          · -- the paths diverge here: compare the tops
            have hwfc := wf_kids s hwf ch (List.mem_of_getElem? hk)
            have hwfc' := wf_kids s hwf ch' (List.mem_of_getElem? hk')
            obtain ⟨_, _, _, hok⟩ := cbAlong_packed r ch t _ _ hwfc (small_kid s ch i hsm hk) ht hV1 (by omega)
            obtain ⟨_, _, _, hok'⟩ := cbAlong_packed r' ch' t' _ _ hwfc' (small_kid s ch' i' hsm hk') ht' hV1' (by omega)
            have hl1 : (1 : BitVec 64) ≤ l + keyBits (BitVec.ofNat 64 s.arity) := by
              have := (bitsFor_pos (BitVec.ofNat 64 s.arity - 1)).1
              simp only [keyBits]
              rw [BitVec.le_def] at this ⊢
              have h1 : (1 : BitVec 64).toNat = 1 := rfl
              rw [h1] at this ⊢
              simp only [keyBits] at hadd
              omega
            have ht1 := top_pushAll _ _ _ w (l + keyBits (BitVec.ofNat 64 s.arity)) hV1 hok (by omega) hp
              (BitVec.le_refl _) hl1
            have ht2 := top_pushAll _ _ _ w' (l + keyBits (BitVec.ofNat 64 s.arity)) hV1' hok' (by omega) hp'
              (BitVec.le_refl _) hl1
            rw [top_self _ _ hV1 hl1] at ht1
            rw [top_self _ _ hV1' hl1] at ht2
            have hilt : BitVec.ofNat 64 i < BitVec.ofNat 64 i' := by
              rw [BitVec.lt_def, hti, hti']; exact hlt
            have hclt := field_lt l c _ _ _ hV hb hfit1 hv' hilt
            apply lt_of_top_lt (l + keyBits (BitVec.ofNat 64 s.arity)) w w' hl1 hV1.1
            rw [ht1, ht2]; exact hclt
          · -- same child: go on below it
            rw [hk] at hk'
            cases hk'
            exact ih r' ch t t' _ _ w w' (wf_kids s hwf ch (List.mem_of_getElem? hk)) (small_kid s ch i hsm hk) ht ht' hV1
              hlex (by omega) (by omega) hp hp'

end MiniconfVerif

namespace MiniconfVerif
set_option autoImplicit false

end MiniconfVerif
