import MiniconfVerif.Lemmas.IterEnum
import MiniconfVerif.Lemmas.PackedSeq
import MiniconfVerif.Lemmas.PackedLsb
import MiniconfVerif.Lemmas.MetaMax

/-! Packed keys of whole paths: the `Transcode for Packed` callback along a node path is
`pushAll` of the per-level fields, and `Keys for Packed` pops them again. -/
namespace MiniconfVerif
open MiniconfVerif.Gen.Packed MiniconfVerif.Packed MiniconfVerif.PackedWord
set_option autoImplicit false

/-- the `(width, index)` fields pushed along an index path -/
def packFields : Schema → List Nat → List (BitVec 64 × BitVec 64)
  | _, [] => []
  | t, i :: p =>
    (keyBits (BitVec.ofNat 64 (t.cbArg i).len), BitVec.ofNat 64 i) ::
      (match t.kids[i]? with
       | some c => packFields c p
       | none => [])

theorem keyBits_zero : keyBits (0 : BitVec 64) = 64 := by decide

/-- a width of at most 63 bits means fewer than 2^64 children, and the index fits the field -/
theorem level_field_ok (n i : Nat) (hi : i < n) (hn : n ≤ 2 ^ 64) (hb : keyBits (BitVec.ofNat 64 n) ≤ 63) :
    n < 2 ^ 64 ∧ FieldOk (keyBits (BitVec.ofNat 64 n), BitVec.ofNat 64 i) ∧ (BitVec.ofNat 64 i).toNat = i := by
  have hn' : n < 2 ^ 64 := by
    rcases Nat.lt_or_ge n (2 ^ 64) with h | h
    · exact h
    · have : n = 2 ^ 64 := by omega
      subst this
      have : BitVec.ofNat 64 (2 ^ 64) = 0 := by decide
      rw [this, keyBits_zero] at hb
      exact absurd hb (by decide)
  have hi' : i < 2 ^ 64 := by omega
  have hti : (BitVec.ofNat 64 i).toNat = i := by simp [BitVec.toNat_ofNat]; omega
  have htn : (BitVec.ofNat 64 n).toNat = n := by simp [BitVec.toNat_ofNat]; omega
  refine ⟨hn', ⟨hb, ?_⟩, hti⟩
  apply index_fits _ _ ?_ ?_ hb
  · intro e
    have : (BitVec.ofNat 64 n).toNat = 0 := by rw [e]; rfl
    omega
  · rw [BitVec.lt_def, hti, htn]; exact hi

theorem cbArg_len_arity (t : Schema) (hwf : t.WF) (i : Nat) (h : t.isLeaf = false) : (t.cbArg i).len = t.arity := by
  cases t with
  | leaf => simp [Schema.isLeaf] at h
  | node lk cs => simp [Schema.cbArg, Schema.arity, Schema.kids, hwf.1]
  | array n c => simp [Schema.cbArg, Schema.arity, Schema.kids]

theorem cbArg_index (t : Schema) (i : Nat) : (t.cbArg i).index = i := by cases t <;> rfl

theorem totalBits_cons (f : BitVec 64 × BitVec 64) (fs : List (BitVec 64 × BitVec 64)) :
    totalBits (f :: fs) = f.1.toNat + totalBits fs := by simp [totalBits]

/-- **Encoding**: along a valid node path whose fields fit, the packed target's callbacks
succeed without panic and produce `pushAll` of the fields -/
theorem cbAlong_packed : ∀ (p : List Nat) (s t : Schema) (l c : BitVec 64), s.WF → s.Small → s.at? p = some t →
    Valid l c → l.toNat + totalBits (packFields s p) ≤ 63 →
    ∃ w', pushAll (reprW l c) (packFields s p) = some w' ∧
      cbAlong Target.cbP s p (.packed (reprW l c), false) = some (.packed w', false) ∧
      (∀ f ∈ packFields s p, FieldOk f) := by
  intro p
  induction p with
  | nil =>
    intro s t l c _ _ _ _ _
    exact ⟨reprW l c, rfl, rfl, by simp [packFields]⟩
  | cons i p ih =>
    intro s t l c hwf hsm ht hV hfit
    rw [at?_cons] at ht
    cases hk : s.kids[i]? with
    | none => simp [hk] at ht
    | some ch =>
      simp only [hk] at ht
      obtain ⟨hnl, hi⟩ := kid_facts s ch i hk
      have hlen := cbArg_len_arity s hwf i hnl
      have har : s.arity ≤ 2 ^ 64 := hsm [] s rfl
      simp only [packFields, hk, totalBits_cons] at hfit ⊢
      rw [hlen] at hfit ⊢
      have hb : keyBits (BitVec.ofNat 64 s.arity) ≤ 63 := by
        rw [BitVec.le_def]; simp; omega
      obtain ⟨_, hok, _⟩ := level_field_ok s.arity i hi har hb
      obtain ⟨hb', hv⟩ := hok
      simp only at hb' hv
      have hfit1 : l.toNat + (keyBits (BitVec.ofNat 64 s.arity)).toNat ≤ 63 := by omega
      have hpush := push_ok l c _ _ hV hb hv hfit1
      have hV' := push_valid l c _ _ hV hb hv hfit1
      have hadd := toNat_add_of_fit l _ hfit1
      have hnz := reprW_ne_zero l c hV
      obtain ⟨hpre, hinner⟩ := pushLsb_no_panic (reprW l c) (keyBits (BitVec.ofNat 64 s.arity)) (BitVec.ofNat 64 i) hnz hb
      have hinner' := hinner (by rw [hpush]; simp)
      obtain ⟨w', hw1, hw2, hw3⟩ := ih ch t _ _ (wf_kids s hwf ch (List.mem_of_getElem? hk)) (small_kid s ch i hsm hk) ht hV'
        (by omega)
      refine ⟨w', ?_, ?_, ?_⟩
      · simp only [pushAll, hpush]; exact hw1
      · have hdbg : pushLsb_dbg (reprW l c) (keyBits (BitVec.ofNat 64 s.arity)) (BitVec.ofNat 64 i) = true := by
          simp [pushLsb_dbg, hv]
        simp only [cbAlong, hk, Target.cbP, Bool.false_eq_true, if_false, Target.cbPanics, hlen, cbArg_index, hpre, hdbg,
          hpush, hinner', Option.isSome_some, Bool.not_true, Bool.or_self, Bool.and_false, Target.cb, Option.map_some]
        exact hw2
      · intro f hf
        simp only [List.mem_cons] at hf
        rcases hf with rfl | hf
        · exact ⟨hb, hv⟩
        · exact hw3 f hf

/-- the total width of the fields is the bit weight of the path -/
theorem totalBits_eq_pathW : ∀ (p : List Nat) (s t : Schema), s.WF → s.at? p = some t →
    totalBits (packFields s p) = pathW Wbits s p := by
  intro p
  induction p with
  | nil => intro s t _ _; simp [packFields, totalBits, pathW]
  | cons i p ih =>
    intro s t hwf ht
    rw [at?_cons] at ht
    cases hk : s.kids[i]? with
    | none => simp [hk] at ht
    | some ch =>
      simp only [hk] at ht
      have := ih ch t (wf_kids s hwf ch (List.mem_of_getElem? hk)) ht
      simp only [packFields, hk, totalBits_cons, pathW, this]
      congr 1
      cases s with
      | leaf => simp [Schema.kids] at hk
      | node lk cs => simp [Schema.cbArg, Schema.levelW, Wbits, widthFor]
      | array n c => simp [Schema.cbArg, Schema.levelW, Wbits, widthFor]

/-! ## decoding -/

def Schema.lookup : Schema → Lookup
  | .node lk _ => lk
  | .array n _ => .homog n
  | .leaf => .homog 0

theorem lookup_len (t : Schema) (i : Nat) : t.lookup.len = (t.cbArg i).len := by cases t <;> rfl

theorem traverse_step {σ : Type} (cb : σ → CbArg → Option σ) (t c : Schema) (ks ks' : KeySrc) (i : Nat) (st : σ)
    (hk : t.kids[i]? = some c) (hn : ks.next t.lookup = .ok (i, ks')) :
    t.traverse cb ks st =
      match cb st (t.cbArg i) with
      | none => (.inner 1, st)
      | some st' => ((c.traverse cb ks' st').1.incr, (c.traverse cb ks' st').2) := by
  cases t with
  | leaf => simp [Schema.kids] at hk
  | node lk cs =>
    simp only [Schema.lookup] at hn
    simp only [Schema.kids] at hk
    simp only [Schema.traverse, hn, Schema.cbArg]
    cases cb st ⟨i, lk.name? i, lk.len⟩ with
    | none => rfl
    | some st' => simp only [traverse_go_eq cb cs i ks' st' c hk]
  | array n c' =>
    simp only [Schema.lookup] at hn
    simp only [Schema.kids] at hk
    have hm := List.mem_of_getElem? hk
    rw [List.mem_replicate] at hm
    simp only [Schema.traverse, hn, Schema.cbArg, hm.2]
    cases cb st ⟨i, none, n⟩ <;> rfl

theorem traverse_next_err {σ : Type} (cb : σ → CbArg → Option σ) (t : Schema) (ks : KeySrc) (e : Trav) (st : σ)
    (hnl : t.isLeaf = false) (hn : ks.next t.lookup = .error e) : t.traverse cb ks st = (.trav e, st) := by
  cases t with
  | leaf => simp [Schema.isLeaf] at hnl
  | node lk cs => simp only [Schema.lookup] at hn; simp only [Schema.traverse, hn]
  | array n c => simp only [Schema.lookup] at hn; simp only [Schema.traverse, hn]

theorem packed_next (lk : Lookup) (w : BitVec 64) :
    (KeySrc.packed w).next lk =
      (let bits := keyBits (BitVec.ofNat 64 lk.len)
       if !(popMsb_pre w bits) then .error (.panic "pop_msb") else
       match popMsb w bits with
       | none => .error (.tooShort 0)
       | some (w', idx) =>
         if !(popMsb_inner w bits) then .error (.panic "pop_msb") else
         if idx.toNat < lk.len then .ok (idx.toNat, .packed w') else .error (.notFound 1)) := by
  simp only [KeySrc.next]
  split
  · rfl
  · cases popMsb w (keyBits (BitVec.ofNat 64 lk.len)) with
    | none => rfl
    | some r => cases r; rfl

theorem packed_next_ok (lk : Lookup) (w w' idx : BitVec 64) (hb : keyBits (BitVec.ofNat 64 lk.len) ≤ 63)
    (hp : popMsb w (keyBits (BitVec.ofNat 64 lk.len)) = some (w', idx)) (hi : idx.toNat < lk.len) :
    (KeySrc.packed w).next lk = .ok (idx.toNat, .packed w') := by
  obtain ⟨h1, h2⟩ := popMsb_no_panic w _ hb
  rw [packed_next]
  simp only [h1, h2, hp, hi, Bool.not_true, Bool.false_eq_true, if_false, if_true]

theorem packed_next_empty (lk : Lookup) (hb : keyBits (BitVec.ofNat 64 lk.len) ≤ 63) :
    (KeySrc.packed EMPTY).next lk = .error (.tooShort 0) := by
  obtain ⟨h1, _⟩ := popMsb_no_panic EMPTY _ hb
  have hpos : (0 : BitVec 64) < keyBits (BitVec.ofNat 64 lk.len) := by
    have := (bitsFor_pos (BitVec.ofNat 64 lk.len - 1)).1
    simp only [keyBits]
    rw [BitVec.lt_def]; rw [BitVec.le_def] at this
    have h1 : (1 : BitVec 64).toNat = 1 := rfl
    have h0 : (0 : BitVec 64).toNat = 0 := rfl
    rw [h1] at this; rw [h0]; omega
  have hV0 : Valid 0 0 := by constructor <;> decide
  have := pop_fail 0 0 _ hV0 hb hpos
  rw [← empty_repr] at this
  rw [packed_next]
  simp only [h1, this, Bool.not_true, Bool.false_eq_true, if_false]

/-- **Decoding**: a word from which the path's fields pop in order walks exactly that path -/
theorem traverse_packed {σ : Type} (cb : σ → CbArg → Option σ) : ∀ (p : List Nat) (s t : Schema) (w : BitVec 64)
    (st st' : σ), s.WF → s.Small → s.at? p = some t →
    popAll w ((packFields s p).map (·.1)) = some ((packFields s p).map (·.2), EMPTY) →
    (∀ f ∈ packFields s p, FieldOk f) → cbAlong cb s p st = some st' →
    s.traverse cb (.packed w) st =
      (Res.incrN p.length (t.traverse cb (.packed EMPTY) st').1, (t.traverse cb (.packed EMPTY) st').2) := by
  intro p
  induction p with
  | nil =>
    intro s t w st st' _ _ ht hpop _ hcb
    simp only [Schema.at?, Option.some.injEq] at ht
    simp only [packFields, List.map_nil, popAll, Option.some.injEq, Prod.mk.injEq, true_and] at hpop
    simp only [cbAlong, Option.some.injEq] at hcb
    subst ht; subst hpop; subst hcb
    simp [Res.incrN]
  | cons i p ih =>
    intro s t w st st' hwf hsm ht hpop hok hcb
    rw [at?_cons] at ht
    cases hk : s.kids[i]? with
    | none => simp [hk] at ht
    | some ch =>
      simp only [hk] at ht
      obtain ⟨hnl, hi⟩ := kid_facts s ch i hk
      have hlen := cbArg_len_arity s hwf i hnl
      have har : s.arity ≤ 2 ^ 64 := hsm [] s rfl
      simp only [packFields, hk, List.map_cons] at hpop hok
      have hf := hok _ List.mem_cons_self
      obtain ⟨hb, _⟩ := hf
      simp only at hb
      rw [hlen] at hb hpop
      obtain ⟨_, _, hti⟩ := level_field_ok s.arity i hi har hb
      simp only [popAll] at hpop
      cases hp1 : popMsb w (keyBits (BitVec.ofNat 64 s.arity)) with
      | none => simp [hp1] at hpop
      | some r =>
        obtain ⟨w1, x⟩ := r
        simp only [hp1] at hpop
        cases hp2 : popAll w1 ((packFields ch p).map (·.1)) with
        | none => simp [hp2] at hpop
        | some r2 =>
          obtain ⟨xs, w2⟩ := r2
          simp only [hp2, Option.some.injEq, Prod.mk.injEq, List.cons.injEq] at hpop
          obtain ⟨⟨hx, hxs⟩, hw2⟩ := hpop
          subst hx; subst hxs; subst hw2
          have hll : s.lookup.len = s.arity := by rw [lookup_len s i, hlen]
          have hnext : (KeySrc.packed w).next s.lookup = .ok (i, .packed w1) := by
            have := packed_next_ok s.lookup w w1 (BitVec.ofNat 64 i) (by rw [hll]; exact hb) (by rw [hll]; exact hp1)
              (by rw [hll, hti]; exact hi)
            rw [hti] at this; exact this
          simp only [cbAlong, hk] at hcb
          cases hc : cb st (s.cbArg i) with
          | none => simp [hc] at hcb
          | some st1 =>
            simp only [hc] at hcb
            rw [traverse_step cb s ch _ _ i st hk hnext]
            simp only [hc]
            rw [ih ch t w1 st1 st' (wf_kids s hwf ch (List.mem_of_getElem? hk)) (small_kid s ch i hsm hk) ht hp2
              (fun f hf => hok f (List.mem_cons_of_mem _ hf)) hcb]
            simp only [List.length_cons]
            rfl

/-- where the walk ends when the key is used up -/
theorem traverse_packed_empty {σ : Type} (cb : σ → CbArg → Option σ) (t : Schema) (st : σ)
    (hb : t.isLeaf = false → keyBits (BitVec.ofNat 64 t.lookup.len) ≤ 63) :
    t.traverse cb (.packed EMPTY) st = if t.isLeaf then (.ok 0, st) else (.trav (.tooShort 0), st) := by
  cases hl : t.isLeaf with
  | true =>
    cases t with
    | leaf =>
      have : isEmpty EMPTY = true := by decide
      simp [Schema.traverse, KeySrc.finalize, this]
    | node lk cs => simp [Schema.isLeaf] at hl
    | array n c => simp [Schema.isLeaf] at hl
  | false =>
    simp only [Bool.false_eq_true, if_false]
    exact traverse_next_err cb t _ _ st hl (packed_next_empty t.lookup (hb hl))

/-! ## path weights and leaves -/

theorem pathW_append (W : Weights) : ∀ (p : List Nat) (s t : Schema) (q : List Nat), s.at? p = some t →
    pathW W s (p ++ q) = pathW W s p + pathW W t q := by
  intro p
  induction p with
  | nil => intro s t q h; simp only [Schema.at?, Option.some.injEq] at h; subst h; simp [pathW]
  | cons i p ih =>
    intro s t q h
    rw [at?_cons] at h
    cases hk : s.kids[i]? with
    | none => simp [hk] at h
    | some c =>
      simp only [hk] at h
      simp only [List.cons_append, pathW, hk, ih c t q h, Nat.add_assoc]

/-- the bit weight of any node path is at most the metadata's `max_bits` -/
theorem node_bits_le_max (s t : Schema) (hwf : s.WF) (p : List Nat) (ht : s.at? p = some t) :
    pathW Wbits s p ≤ s.meta.maxBits := by
  have htwf := wf_at? s t p hwf ht
  have hleaf := at?_append_some s t .leaf p t.firstLeaf ht (at?_firstLeaf t htwf)
  have hm := at?_leaf_mem _ s hleaf
  have := pathW_le Wbits _ s hm
  rw [pathW_append Wbits p s t _ ht] at this
  rw [meta_bits]; omega

end MiniconfVerif
