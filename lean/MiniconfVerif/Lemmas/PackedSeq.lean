import MiniconfVerif.Model.Packed
import MiniconfVerif.Lemmas.PackedWord

namespace MiniconfVerif.PackedWord
open MiniconfVerif.Gen.Packed MiniconfVerif.Packed

theorem pop_none_of_lt (l c b : BitVec 64) (h : Valid l c) (hlt : l < b) :
    popMsb (reprW l c) b = none := by
  obtain ⟨h1, h2⟩ := h
  generalize hw : reprW l c = w
  simp only [reprW] at hw
  simp only [popMsb]
  split
  · rfl
  · exfalso; bv_decide

/-- popping `a ≤ l` bits from the front commutes with a later push at the back -/
theorem commute (l c a b v : BitVec 64) (h : Valid l c) (hb : b ≤ 63) (hv : v >>> b = 0)
    (hfit : l.toNat + b.toNat ≤ 63) (ha : a ≤ l) :
    ((c <<< b) ||| v) >>> (l + b - a) = c >>> (l - a) ∧
    l + b - a = (l - a) + b ∧
    ((c <<< b) ||| v) &&& (((1 : BitVec 64) <<< (l + b - a)) - 1)
      = ((c &&& (((1 : BitVec 64) <<< (l - a)) - 1)) <<< b) ||| v := by
  obtain ⟨h1, h2⟩ := h
  have hf1 : l + b ≤ 63 := by bv_omega
  have hf2 : l ≤ l + b := by bv_omega
  refine ⟨?_, ?_, ?_⟩ <;> bv_decide

theorem pop_last (b v : BitVec 64) (hb : b ≤ 63) (hv : v >>> b = 0) :
    (0 : BitVec 64) + b - b = 0 ∧
    (((0 : BitVec 64) <<< b) ||| v) &&& (((1 : BitVec 64) <<< ((0 : BitVec 64) + b - b)) - 1) = 0 ∧
    (((0 : BitVec 64) <<< b) ||| v) >>> ((0 : BitVec 64) + b - b) = v ∧ b ≤ 0 + b := by
  refine ⟨?_, ?_, ?_, ?_⟩ <;> bv_decide

theorem popAll_push (ws : List (BitVec 64)) :
    ∀ (l c : BitVec 64) (xs : List (BitVec 64)) (b v : BitVec 64), Valid l c → b ≤ 63 →
      v >>> b = 0 → l.toNat + b.toNat ≤ 63 →
      popAll (reprW l c) ws = some (xs, EMPTY) →
      popAll (reprW (l + b) ((c <<< b) ||| v)) (ws ++ [b]) = some (xs ++ [v], EMPTY) := by
  induction ws with
  | nil =>
    intro l c xs b v hV hb hv hfit hp
    simp only [popAll, Option.some.injEq, Prod.mk.injEq] at hp
    obtain ⟨hxs, hE⟩ := hp
    subst hxs
    have hV0 : Valid 0 0 := by constructor <;> decide
    rw [empty_repr] at hE
    obtain ⟨hl, hc⟩ := reprW_inj l c 0 0 hV hV0 hE
    subst hl; subst hc
    obtain ⟨e1, e2, e3, e4⟩ := pop_last b v hb hv
    have hV' := push_valid 0 0 b v hV0 hb hv hfit
    simp only [List.nil_append, popAll]
    rw [pop_ok _ _ _ hV' e4, e2, e3, e1, ← empty_repr]
  | cons a ws ih =>
    intro l c xs b v hV hb hv hfit hp
    by_cases ha : a ≤ l
    · simp only [popAll] at hp
      rw [pop_ok l c a hV ha] at hp
      obtain ⟨hV2, _⟩ := pop_valid l c a hV ha
      simp only [] at hp
      cases hrest : popAll (reprW (l - a) (c &&& (((1 : BitVec 64) <<< (l - a)) - 1))) ws with
      | none => rw [hrest] at hp; simp at hp
      | some r =>
        obtain ⟨xs', wE⟩ := r
        rw [hrest] at hp
        simp only [Option.some.injEq, Prod.mk.injEq] at hp
        obtain ⟨hxs, hE⟩ := hp
        subst hxs; subst hE
        have hfit2 : (l - a).toNat + b.toNat ≤ 63 := by
          have := hV.1; bv_omega
        have ih' := ih (l - a) _ xs' b v hV2 hb hv hfit2 hrest
        obtain ⟨c1, c2, c3⟩ := commute l c a b v hV hb hv hfit ha
        have hV' := push_valid l c b v hV hb hv hfit
        have ha' : a ≤ l + b := by
          have := hV.1; bv_omega
        simp only [List.cons_append, popAll]
        rw [pop_ok _ _ _ hV' ha', c3, c1, c2]
        simp only []
        rw [ih']
    · have hlt : l < a := by bv_omega
      simp only [popAll] at hp
      rw [pop_none_of_lt l c a hV hlt] at hp
      simp at hp

theorem toNat_add_of_fit (l b : BitVec 64) (h : l.toNat + b.toNat ≤ 63) :
    (l + b).toNat = l.toNat + b.toNat := by bv_omega

theorem pushAll_popAll (fs : List (BitVec 64 × BitVec 64)) :
    ∀ (l c : BitVec 64) (ws xs : List (BitVec 64)), Valid l c → (∀ f ∈ fs, FieldOk f) →
      l.toNat + totalBits fs ≤ 63 →
      popAll (reprW l c) ws = some (xs, EMPTY) →
      ∃ w, pushAll (reprW l c) fs = some w ∧
        popAll w (ws ++ fs.map (·.1)) = some (xs ++ fs.map (·.2), EMPTY) ∧
        (len w).toNat = l.toNat + totalBits fs := by
  induction fs with
  | nil =>
    intro l c ws xs hV _ _ hp
    refine ⟨reprW l c, rfl, ?_, ?_⟩
    · simpa using hp
    · simp [totalBits, len_reprW l c hV]
  | cons f fs ih =>
    intro l c ws xs hV hok hfit hp
    obtain ⟨b, v⟩ := f
    have hf : FieldOk (b, v) := hok _ (List.mem_cons_self)
    obtain ⟨hb, hv⟩ := hf
    simp only at hb hv
    have htot : totalBits ((b, v) :: fs) = b.toNat + totalBits fs := by
      simp [totalBits]
    have hfit1 : l.toNat + b.toNat ≤ 63 := by omega
    have hV' := push_valid l c b v hV hb hv hfit1
    have hp' := popAll_push ws l c xs b v hV hb hv hfit1 hp
    have hadd := toNat_add_of_fit l b hfit1
    have hfit' : (l + b).toNat + totalBits fs ≤ 63 := by omega
    obtain ⟨w, hw1, hw2, hw3⟩ :=
      ih (l + b) _ (ws ++ [b]) (xs ++ [v]) hV' (fun f hf => hok f (List.mem_cons_of_mem _ hf)) hfit' hp'
    refine ⟨w, ?_, ?_, ?_⟩
    · simp only [pushAll, push_ok l c b v hV hb hv hfit1]
      exact hw1
    · simpa [List.append_assoc] using hw2
    · omega

theorem pushAll_overflow (fs : List (BitVec 64 × BitVec 64)) :
    ∀ (l c : BitVec 64), Valid l c → (∀ f ∈ fs, FieldOk f) → 63 < l.toNat + totalBits fs →
      pushAll (reprW l c) fs = none := by
  induction fs with
  | nil =>
    intro l c hV _ h
    have := hV.1
    simp [totalBits] at h
    bv_omega
  | cons f fs ih =>
    intro l c hV hok h
    obtain ⟨b, v⟩ := f
    obtain ⟨hb, hv⟩ := hok _ (List.mem_cons_self)
    simp only at hb hv
    have htot : totalBits ((b, v) :: fs) = b.toNat + totalBits fs := by
      simp [totalBits]
    by_cases hfit1 : l.toNat + b.toNat ≤ 63
    · have hV' := push_valid l c b v hV hb hv hfit1
      have hadd := toNat_add_of_fit l b hfit1
      simp only [pushAll, push_ok l c b v hV hb hv hfit1]
      exact ih (l + b) _ hV' (fun f hf => hok f (List.mem_cons_of_mem _ hf)) (by omega)
    · simp only [pushAll, push_fail l c b v hV hb (by omega)]

end MiniconfVerif.PackedWord
