import MiniconfVerif.Gen.Packed
import Std.Tactic.BVDecide

/-! Single-word lemmas about the *generated* packed.rs arithmetic, discharged by
`bv_decide` (each use adds one `._native.bv_decide.ax_*` axiom; listed in the audit). -/
namespace MiniconfVerif.PackedWord
open MiniconfVerif.Gen.Packed

/-- The word holding `l` bits of content `c` (MSB aligned) above the marker bit. -/
def reprW (l c : BitVec 64) : BitVec 64 := ((c <<< (1 : BitVec 64)) ||| 1) <<< ((63 : BitVec 64) - l)

/-- `l ≤ 63` stored bits, `c < 2^l`. -/
def Valid (l c : BitVec 64) : Prop := l ≤ 63 ∧ c >>> l = 0

theorem reprW_ne_zero (l c : BitVec 64) (h : Valid l c) : reprW l c ≠ 0 := by
  obtain ⟨h1, h2⟩ := h
  simp only [reprW]
  bv_decide

theorem len_reprW (l c : BitVec 64) (h : Valid l c) : len (reprW l c) = l := by
  obtain ⟨h1, h2⟩ := h
  simp only [reprW, len, capacity, CAPACITY]
  bv_decide

/-- every non-zero word is the representation of exactly its `len` and content -/
theorem word_is_repr (w : BitVec 64) (hw : w ≠ 0) :
    Valid (len w) ((w >>> BitVec.ctz w) >>> (1 : BitVec 64)) ∧
      w = reprW (len w) ((w >>> BitVec.ctz w) >>> (1 : BitVec 64)) := by
  simp only [Valid, reprW, len, capacity, CAPACITY]
  refine ⟨⟨?_, ?_⟩, ?_⟩ <;> bv_decide

theorem reprW_inj (l c l' c' : BitVec 64) (h : Valid l c) (h' : Valid l' c')
    (e : reprW l c = reprW l' c') : l = l' ∧ c = c' := by
  obtain ⟨h1, h2⟩ := h
  obtain ⟨h1', h2'⟩ := h'
  simp only [reprW] at e
  constructor <;> bv_decide

theorem empty_repr : EMPTY = reprW 0 0 := by
  simp only [EMPTY, reprW]; bv_decide

theorem push_ok (l c b v : BitVec 64) (h : Valid l c) (hb : b ≤ 63) (hv : v >>> b = 0)
    (hfit : l.toNat + b.toNat ≤ 63) :
    pushLsb (reprW l c) b v = some (reprW (l + b) ((c <<< b) ||| v), 63 - (l + b)) := by
  obtain ⟨h1, h2⟩ := h
  have hf1 : l + b ≤ 63 := by bv_omega
  have hf2 : l ≤ l + b := by bv_omega
  generalize hw : reprW l c = w
  generalize hw' : reprW (l + b) ((c <<< b) ||| v) = w'
  simp only [reprW] at hw hw'
  simp only [pushLsb]
  split
  · exfalso; bv_decide
  · congr 1
    apply Prod.ext
    · show _ = _
      bv_decide
    · show _ = _
      bv_decide

theorem push_fail (l c b v : BitVec 64) (h : Valid l c) (hb : b ≤ 63)
    (hfit : 63 < l.toNat + b.toNat) :
    pushLsb (reprW l c) b v = none := by
  obtain ⟨h1, h2⟩ := h
  have hfit' : 63 - l < b := by bv_omega
  generalize hw : reprW l c = w
  simp only [reprW] at hw
  simp only [pushLsb]
  split
  · rfl
  · exfalso; bv_decide

theorem pop_ok (l c b : BitVec 64) (h : Valid l c) (hb : b ≤ l) :
    popMsb (reprW l c) b =
      some (reprW (l - b) (c &&& (((1 : BitVec 64) <<< (l - b)) - 1)), c >>> (l - b)) := by
  obtain ⟨h1, h2⟩ := h
  generalize hw : reprW l c = w
  generalize hw' : reprW (l - b) (c &&& (((1 : BitVec 64) <<< (l - b)) - 1)) = w'
  simp only [reprW] at hw hw'
  simp only [popMsb, CAPACITY]
  split
  · exfalso; bv_decide
  · congr 1
    apply Prod.ext
    · show _ = _
      bv_decide
    · show _ = _
      bv_decide

theorem pop_fail (l c b : BitVec 64) (h : Valid l c) (hb : b ≤ 63) (hlt : l < b) :
    popMsb (reprW l c) b = none := by
  obtain ⟨h1, h2⟩ := h
  generalize hw : reprW l c = w
  simp only [reprW] at hw
  simp only [popMsb]
  split
  · rfl
  · exfalso; bv_decide

/-- the remainder after a pop is again a valid representation -/
theorem pop_valid (l c b : BitVec 64) (h : Valid l c) (hb : b ≤ l) :
    Valid (l - b) (c &&& (((1 : BitVec 64) <<< (l - b)) - 1)) ∧ (c >>> (l - b)) >>> b = 0 := by
  obtain ⟨h1, h2⟩ := h
  simp only [Valid]
  refine ⟨⟨?_, ?_⟩, ?_⟩ <;> bv_decide

theorem push_valid (l c b v : BitVec 64) (h : Valid l c) (hb : b ≤ 63) (hv : v >>> b = 0)
    (hfit : l.toNat + b.toNat ≤ 63) : Valid (l + b) ((c <<< b) ||| v) := by
  obtain ⟨h1, h2⟩ := h
  have hf1 : l + b ≤ 63 := by bv_omega
  have hf2 : l ≤ l + b := by bv_omega
  simp only [Valid]
  refine ⟨hf1, ?_⟩
  bv_decide

end MiniconfVerif.PackedWord
