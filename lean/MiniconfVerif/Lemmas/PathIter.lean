import MiniconfVerif.Model.PathIter

namespace MiniconfVerif.PathIter

theorem utf8Size_pos (c : Char) : 0 < c.utf8Size := Char.utf8Size_pos c

@[simp] theorem byteLen_nil : byteLen [] = 0 := rfl
@[simp] theorem byteLen_cons (c : Char) (s : Str) : byteLen (c :: s) = c.utf8Size + byteLen s := by
  simp [byteLen]
@[simp] theorem byteLen_append (a b : Str) : byteLen (a ++ b) = byteLen a + byteLen b := by
  simp [byteLen]

theorem splitAtByte_zero (s : Str) : splitAtByte s 0 = some ([], s) := by
  cases s <;> rfl

theorem splitAtByte_cons_add (c : Char) (cs : Str) (k : Nat) :
    splitAtByte (c :: cs) (c.utf8Size + k) =
      match splitAtByte cs k with
      | some (l, r) => some (c :: l, r)
      | none => none := by
  have hp := utf8Size_pos c
  obtain ⟨n, hn⟩ : ∃ n, c.utf8Size + k = n + 1 := ⟨c.utf8Size + k - 1, by omega⟩
  rw [hn]
  simp only [splitAtByte]
  have h1 : c.utf8Size ≤ n + 1 := by omega
  have h2 : n + 1 - c.utf8Size = k := by omega
  rw [if_pos h1, h2]
  cases splitAtByte cs k <;> rfl

/-- splitting at the byte length of a prefix is on a char boundary and recovers it -/
theorem splitAtByte_prefix (a b : Str) : splitAtByte (a ++ b) (byteLen a) = some (a, b) := by
  induction a with
  | nil => simpa using splitAtByte_zero b
  | cons c a ih =>
    simp only [List.cons_append, byteLen_cons]
    rw [splitAtByte_cons_add, ih]

theorem getFrom_nil_pos (n : Nat) (h : 0 < n) : getFrom [] n = none := by
  cases n with
  | zero => omega
  | succ n => rfl

theorem getFrom_cons_self (c : Char) (tl : Str) : getFrom (c :: tl) c.utf8Size = some tl := by
  have := splitAtByte_prefix [c] tl
  simp only [List.singleton_append, byteLen_cons, byteLen_nil, Nat.add_zero] at this
  simp [getFrom, this]

/-- what `next` computes, without byte arithmetic -/
theorem next_some (S : Char) (s : Str) :
    next S (some s) = .item (s.takeWhile (· ≠ S))
      (match s.dropWhile (· ≠ S) with
       | [] => none
       | _ :: tl => some tl) := by
  simp only [next]
  have hs : s = s.takeWhile (· ≠ S) ++ s.dropWhile (· ≠ S) := (List.takeWhile_append_dropWhile).symm
  have h := splitAtByte_prefix (s.takeWhile (· ≠ S)) (s.dropWhile (· ≠ S))
  rw [← hs] at h
  rw [h]
  simp only []
  congr 1
  cases hd : s.dropWhile (· ≠ S) with
  | nil => exact getFrom_nil_pos _ (utf8Size_pos S)
  | cons c tl =>
    have hc : c = S := by
      have := List.head_dropWhile_not (· ≠ S) (l := s) (by rw [hd]; simp)
      simp only [hd, List.head_cons] at this
      simpa using this
    subst hc
    exact getFrom_cons_self c tl

theorem splitSpec_ne_nil (S : Char) (s : Str) : splitSpec S s ≠ [] := by
  induction s with
  | nil => simp [splitSpec]
  | cons c cs ih =>
    simp only [splitSpec]
    split
    · simp
    · split <;> simp

theorem splitSpec_eq (S : Char) (s : Str) :
    splitSpec S s = s.takeWhile (· ≠ S) ::
      (match s.dropWhile (· ≠ S) with
       | [] => []
       | _ :: tl => splitSpec S tl) := by
  induction s with
  | nil => simp [splitSpec]
  | cons c cs ih =>
    by_cases hc : c = S
    · subst hc
      simp [splitSpec]
    · simp only [splitSpec, if_neg hc]
      rw [ih]
      simp [hc]

/-- the items still to come from a state -/
def remaining (S : Char) : Option Str → List Str
  | none => []
  | some s => splitSpec S s

theorem drain_spec (S : Char) (fuel : Nat) :
    ∀ st : Option Str, (match st with | none => 0 | some s => s.length + 1) < fuel →
      drain S fuel st = some (remaining S st, none) := by
  induction fuel with
  | zero => intro st h; omega
  | succ fuel ih =>
    intro st h
    cases st with
    | none => simp [drain, next, remaining]
    | some s =>
      simp only [drain, next_some, remaining]
      rw [splitSpec_eq]
      cases hd : s.dropWhile (· ≠ S) with
      | nil =>
        have := ih none (by simp only at h ⊢; omega)
        simp only [this, remaining]
      | cons c tl =>
        have hlen : tl.length + 1 ≤ s.length := by
          have := (List.dropWhile_sublist (l := s) (· ≠ S)).length_le
          rw [hd] at this
          simpa using this
        have := ih (some tl) (by simp only at h ⊢; omega)
        simp only [this, remaining]

end MiniconfVerif.PathIter
