import MiniconfVerif.Lemmas.JsonRT

/-! Round trip of the postcard model (LEB128 varints, zig-zag, fixed-order composites).
Strings (UTF-8 transcoding) are not covered by a theorem here. -/
namespace MiniconfVerif.Codec
open MiniconfVerif
set_option autoImplicit false

theorem varint_eq (n : Nat) : varint n = if n < 128 then [n] else (n % 128 + 128) :: varint (n / 128) := by
  rw [varint]; split <;> rfl

theorem pow_ge_of_le (a b : Nat) (h : a ≤ b) : 2 ^ a ≤ 2 ^ b := Nat.pow_le_pow_right (by decide) h

/-- reading back a varint: at byte index `k`, with `acc` collected so far -/
theorem unvarint_varint (bits : Nat) (hb : 1 ≤ bits) (rest : Bytes) :
    ∀ (m k fuel acc : Nat), (1 ≤ m ∨ k = 0) → acc + m * 2 ^ (7 * k) < 2 ^ bits →
      maxVarBytes bits + 1 ≤ fuel + k →
      unvarint bits (maxVarBytes bits) fuel (varint m ++ rest) (7 * k) acc = some (acc + m * 2 ^ (7 * k), rest) := by
  intro m
  induction m using Nat.strongRecOn with
  | _ m ih =>
    intro k fuel acc hm hlt hfuel
    -- the current byte index is within the limit
    have hk : k < maxVarBytes bits := by
      unfold maxVarBytes
      rcases hm with hm | hm
      · have h1 : 2 ^ (7 * k) ≤ m * 2 ^ (7 * k) := Nat.le_mul_of_pos_left _ hm
        have h2 : 2 ^ (7 * k) < 2 ^ bits := by omega
        have h3 : 7 * k < bits := (Nat.pow_lt_pow_iff_right (by decide)).mp h2
        omega
      · subst hm; omega
    obtain ⟨f, rfl⟩ : ∃ f, fuel = f + 1 := ⟨fuel - 1, by omega⟩
    rw [varint_eq]
    by_cases hsmall : m < 128
    · simp only [hsmall, if_true, List.cons_append, List.nil_append, unvarint]
      have hmod : m % 128 = m := Nat.mod_eq_of_lt hsmall
      simp only [hmod, hsmall, if_true, hlt]
    · simp only [hsmall, if_false, List.cons_append, unvarint]
      have hbyte : ¬ (m % 128 + 128 < 128) := by omega
      have hmod : (m % 128 + 128) % 128 = m % 128 := by omega
      simp only [hbyte, if_false, hmod]
      -- one more byte is allowed
      have hpow : 2 ^ (7 * (k + 1)) = 128 * 2 ^ (7 * k) := by
        rw [show 7 * (k + 1) = 7 + 7 * k by omega, Nat.pow_add]
      have hsplit : m * 2 ^ (7 * k) = (m % 128) * 2 ^ (7 * k) + (m / 128) * 2 ^ (7 * (k + 1)) := by
        rw [hpow]
        have : m = m % 128 + 128 * (m / 128) := by omega
        conv => lhs; rw [this]
        rw [Nat.add_mul, Nat.mul_assoc]
        congr 1
        rw [Nat.mul_left_comm]
      have hnext : k + 1 < maxVarBytes bits := by
        unfold maxVarBytes
        have h1 : 1 ≤ m / 128 := by omega
        have h2 : 2 ^ (7 * (k + 1)) ≤ (m / 128) * 2 ^ (7 * (k + 1)) := Nat.le_mul_of_pos_left _ h1
        have h3 : 2 ^ (7 * (k + 1)) < 2 ^ bits := by omega
        have h4 : 7 * (k + 1) < bits := (Nat.pow_lt_pow_iff_right (by decide)).mp h3
        omega
      have hdiv : 7 * k / 7 = k := by omega
      have hcont : ¬ (7 * k / 7 + 1 ≥ maxVarBytes bits) := by rw [hdiv]; omega
      simp only [hcont, if_false]
      have hshift : 7 * k + 7 = 7 * (k + 1) := by omega
      rw [hshift]
      have := ih (m / 128) (by omega) (k + 1) f (acc + m % 128 * 2 ^ (7 * k)) (Or.inl (by omega))
        (by rw [Nat.add_assoc, ← hsplit]; exact hlt) (by omega)
      rw [this, Nat.add_assoc, ← hsplit]

/-- the top-level form used by the decoders -/
theorem unvarint_roundtrip (bits n : Nat) (hb : 1 ≤ bits) (hn : n < 2 ^ bits) (rest : Bytes) :
    unvarint bits (maxVarBytes bits) (maxVarBytes bits + 1) (varint n ++ rest) 0 0 = some (n, rest) := by
  have := unvarint_varint bits hb rest n 0 (maxVarBytes bits + 1) 0 (Or.inr rfl) (by simpa using hn) (by omega)
  simpa using this

theorem unzigzag_zigzag' (v : Int) : unzigzag (zigzag v) = v := by
  unfold zigzag unzigzag
  split
  · next h =>
    have : (2 * v.toNat) % 2 = 0 := by omega
    simp only [this, if_true]
    omega
  · next h =>
    have h1 : (2 * (-v).toNat - 1) % 2 = 1 := by omega
    simp only [h1]
    simp only [show ¬ ((1 : Nat) = 0) from by decide, if_false]
    omega

theorem zigzag_lt (bits : Nat) (v : Int) (hb : 1 ≤ bits) (hlo : -(2 ^ (bits - 1) : Int) ≤ v) (hhi : v ≤ 2 ^ (bits - 1) - 1) :
    zigzag v < 2 ^ bits := by
  have hp : (2 : Int) ^ bits = 2 * 2 ^ (bits - 1) := by
    have : bits = (bits - 1) + 1 := by omega
    conv => lhs; rw [this, Int.pow_succ]
    omega
  have hpn : ((2 ^ bits : Nat) : Int) = (2 : Int) ^ bits := by push_cast; rfl
  have hpos : (0 : Int) < 2 ^ (bits - 1) := Int.pow_pos (by decide)
  unfold zigzag
  split
  · have : ((2 * v.toNat : Nat) : Int) < ((2 ^ bits : Nat) : Int) := by rw [hpn, hp]; omega
    exact_mod_cast this
  · have : ((2 * (-v).toNat - 1 : Nat) : Int) < ((2 ^ bits : Nat) : Int) := by rw [hpn, hp]; omega
    exact_mod_cast this

end MiniconfVerif.Codec

namespace MiniconfVerif.Codec
open MiniconfVerif
set_option autoImplicit false

mutual
/-- value of the type within the postcard input class of the model (no strings, no floats) -/
def pcFits : Ty → Val → Bool
  | .int sg b, .int v => decide (1 ≤ b) && decide (intMin sg b ≤ v) && decide (v ≤ intMax sg b)
  | .bool, .bool _ => true
  | .opt _, .none => true
  | .opt t, .some v => pcFits t v
  | .arr n t, .arr vs => decide (vs.length = n) && pcFitsList t vs
  | .unit, .unit => true
  | .struct fs, .struct vs => pcFitsFields fs vs
  | .unitEnum names, .variant i => decide (i < names.length) && decide (i < 2 ^ 32)
  | .string cap, .str s => decide ((utf8Bytes s).length < 2 ^ 64) &&
      (match cap with | some c => decide ((utf8Bytes s).length ≤ c) | none => true)
  | _, _ => false
def pcFitsList (t : Ty) : List Val → Bool
  | [] => true
  | v :: vs => pcFits t v && pcFitsList t vs
def pcFitsFields : List (String × Ty) → List Val → Bool
  | [], [] => true
  | (_, t) :: fs, v :: vs => pcFits t v && pcFitsFields fs vs
  | _, _ => false
end

theorem char_toNat_lt (c : Char) : c.toNat < 0x110000 := by
  have h := c.valid
  simp only [UInt32.isValidChar, Nat.isValidChar] at h
  have : c.toNat = c.val.toNat := rfl
  omega

theorem utf8Dec_enc : ∀ (s : List Char) (fuel : Nat), (utf8Bytes s).length < fuel → utf8Dec fuel (utf8Bytes s) = some s
  | [], fuel, h => by
    cases fuel with
    | zero => simp at h
    | succ f => rfl
  | c :: cs, fuel, h => by
    cases fuel with
    | zero => simp at h
    | succ f =>
      have hlt := char_toNat_lt c
      have hof : Char.ofNat c.toNat = c := Char.ofNat_toNat c
      simp only [utf8Bytes, List.flatMap_cons] at h ⊢
      have ih := utf8Dec_enc cs f
      simp only [utf8Bytes] at ih
      by_cases h1 : c.toNat < 0x80
      · have henc : utf8Enc c = [c.toNat] := by simp [utf8Enc, h1]
        rw [henc] at h ⊢
        simp only [List.cons_append, List.nil_append, List.length_cons] at h ⊢
        simp only [utf8Dec, h1, if_true]
        rw [ih (by omega), hof]; rfl
      · by_cases h2 : c.toNat < 0x800
        · have henc : utf8Enc c = [0xC0 + c.toNat / 64, 0x80 + c.toNat % 64] := by simp [utf8Enc, h1, h2]
          rw [henc] at h ⊢
          simp only [List.cons_append, List.nil_append, List.length_cons] at h ⊢
          have a1 : ¬ (0xC0 + c.toNat / 64 < 0x80) := by omega
          have a2 : 0xC2 ≤ 0xC0 + c.toNat / 64 ∧ 0xC0 + c.toNat / 64 < 0xE0 := by omega
          have a3 : 0x80 ≤ 0x80 + c.toNat % 64 ∧ 0x80 + c.toNat % 64 < 0xC0 := by omega
          have e : (0xC0 + c.toNat / 64 - 0xC0) * 64 + (0x80 + c.toNat % 64 - 0x80) = c.toNat := by omega
          simp only [utf8Dec, a1, a2, a3, and_self, if_true, if_false, e]
          rw [ih (by omega), hof]; rfl
        · by_cases h3 : c.toNat < 0x10000
          · have henc : utf8Enc c = [0xE0 + c.toNat / 4096, 0x80 + (c.toNat / 64) % 64, 0x80 + c.toNat % 64] := by
              simp [utf8Enc, h1, h2, h3]
            rw [henc] at h ⊢
            simp only [List.cons_append, List.nil_append, List.length_cons] at h ⊢
            have a1 : ¬ (0xE0 + c.toNat / 4096 < 0x80) := by omega
            have a2 : ¬ (0xC2 ≤ 0xE0 + c.toNat / 4096 ∧ 0xE0 + c.toNat / 4096 < 0xE0) := by omega
            have a3 : 0xE0 ≤ 0xE0 + c.toNat / 4096 ∧ 0xE0 + c.toNat / 4096 < 0xF0 := by omega
            have a4 : 0x80 ≤ 0x80 + c.toNat / 64 % 64 ∧ 0x80 + c.toNat / 64 % 64 < 0xC0 ∧
                0x80 ≤ 0x80 + c.toNat % 64 ∧ 0x80 + c.toNat % 64 < 0xC0 := by omega
            have e : (0xE0 + c.toNat / 4096 - 0xE0) * 4096 + (0x80 + c.toNat / 64 % 64 - 0x80) * 64 +
                (0x80 + c.toNat % 64 - 0x80) = c.toNat := by omega
            simp only [utf8Dec, a1, a2, a3, a4, and_self, if_true, if_false, e]
            rw [ih (by omega), hof]; rfl
          · have henc : utf8Enc c = [0xF0 + c.toNat / 262144, 0x80 + (c.toNat / 4096) % 64, 0x80 + (c.toNat / 64) % 64,
                0x80 + c.toNat % 64] := by simp [utf8Enc, h1, h2, h3]
            rw [henc] at h ⊢
            simp only [List.cons_append, List.nil_append, List.length_cons] at h ⊢
            have a1 : ¬ (0xF0 + c.toNat / 262144 < 0x80) := by omega
            have a2 : ¬ (0xC2 ≤ 0xF0 + c.toNat / 262144 ∧ 0xF0 + c.toNat / 262144 < 0xE0) := by omega
            have a3 : ¬ (0xE0 ≤ 0xF0 + c.toNat / 262144 ∧ 0xF0 + c.toNat / 262144 < 0xF0) := by omega
            have a4 : 0xF0 ≤ 0xF0 + c.toNat / 262144 ∧ 0xF0 + c.toNat / 262144 < 0xF5 := by omega
            have a5 : 0x80 ≤ 0x80 + c.toNat / 4096 % 64 ∧ 0x80 + c.toNat / 4096 % 64 < 0xC0 ∧
                0x80 ≤ 0x80 + c.toNat / 64 % 64 ∧ 0x80 + c.toNat / 64 % 64 < 0xC0 ∧
                0x80 ≤ 0x80 + c.toNat % 64 ∧ 0x80 + c.toNat % 64 < 0xC0 := by omega
            have e : (0xF0 + c.toNat / 262144 - 0xF0) * 262144 + (0x80 + c.toNat / 4096 % 64 - 0x80) * 4096 +
                (0x80 + c.toNat / 64 % 64 - 0x80) * 64 + (0x80 + c.toNat % 64 - 0x80) = c.toNat := by omega
            simp only [utf8Dec, a1, a2, a3, a4, a5, and_self, if_true, if_false, e]
            rw [ih (by omega), hof]; rfl

theorem pc_int_rt (sg : Bool) (bits : Nat) (v : Int) (rest : Bytes) (hb : 1 ≤ bits)
    (hlo : intMin sg bits ≤ v) (hhi : v ≤ intMax sg bits) (bs : Bytes) (he : pcEnc (.int sg bits) (.int v) = some bs) :
    pcDec (.int sg bits) (bs ++ rest) = some (.int v, rest) := by
  simp only [pcEnc] at he
  by_cases h8 : bits = 8
  · subst h8
    simp only [if_true, Option.some.injEq] at he
    subst he
    simp only [pcDec, if_true, List.cons_append, List.nil_append]
    cases sg with
    | true =>
      simp only [intMin, intMax, if_true] at hlo hhi
      have h1 : -(128 : Int) ≤ v := by simpa using hlo
      have h2 : v ≤ 127 := by simpa using hhi
      by_cases hneg : v < 0
      · simp only [hneg, if_true]
        have : (v + 256).toNat ≥ 128 := by omega
        simp only [true_and, this, if_true]
        have e : (((v + 256).toNat : Nat) : Int) - 256 = v := by omega
        rw [e]
      · simp only [hneg, if_false]
        have : ¬ v.toNat ≥ 128 := by omega
        simp only [true_and, this, if_false]
        have e : ((v.toNat : Nat) : Int) = v := by omega
        rw [e]
    | false =>
      simp only [intMin, Bool.false_eq_true, if_false] at hlo
      have hneg : ¬ v < 0 := by omega
      simp only [hneg, if_false, Bool.false_eq_true, false_and, if_false]
      have e : ((v.toNat : Nat) : Int) = v := by omega
      rw [e]
  · simp only [h8, if_false] at he
    cases sg with
    | true =>
      simp only [if_true, Option.some.injEq] at he
      subst he
      simp only [intMin, intMax, if_true] at hlo hhi
      have hz := zigzag_lt bits v hb hlo hhi
      unfold pcDec
      simp only [h8, if_false, unvarint_roundtrip bits (zigzag v) hb hz rest]
      simp only [if_true, unzigzag_zigzag']
    | false =>
      simp only [Bool.false_eq_true, if_false, Option.some.injEq] at he
      subst he
      simp only [intMin, intMax, Bool.false_eq_true, if_false] at hlo hhi
      have hn : v.toNat < 2 ^ bits := by
        have : ((v.toNat : Nat) : Int) < ((2 ^ bits : Nat) : Int) := by
          have hc : ((v.toNat : Nat) : Int) = v := by omega
          rw [hc]; push_cast; omega
        exact_mod_cast this
      unfold pcDec
      simp only [h8, if_false, unvarint_roundtrip bits v.toNat hb hn rest]
      have e : ((v.toNat : Nat) : Int) = v := by omega
      simp only [Bool.false_eq_true, if_false, e]

mutual
/-- **postcard round trip** -/
theorem pc_rt : ∀ (v : Val) (t : Ty) (bs rest : Bytes), pcFits t v = true → pcEnc t v = some bs →
    pcDec t (bs ++ rest) = some (v, rest)
  | .int v, t, bs, rest, hf, he => by
    cases t with
    | int sg b =>
      simp only [pcFits, Bool.and_eq_true, decide_eq_true_eq] at hf
      exact pc_int_rt sg b v rest hf.1.1 hf.1.2 hf.2 bs he
    | _ => simp [pcFits] at hf
  | .bool b, t, bs, rest, hf, he => by
    cases t with
    | bool =>
      simp only [pcEnc, Option.some.injEq] at he
      subst he
      cases b <;> simp [pcDec]
    | _ => simp [pcFits] at hf
  | .float _, t, _, _, hf, _ => by cases t <;> simp [pcFits] at hf
  | .str str, t, bs, rest, hf, he => by
    cases t with
    | string cap =>
      simp only [pcFits, Bool.and_eq_true, decide_eq_true_eq] at hf
      simp only [pcEnc, Option.some.injEq] at he
      subst he
      have hv := unvarint_roundtrip 64 (utf8Bytes str).length (by omega) hf.1 (utf8Bytes str ++ rest)
      simp only [maxVarBytes] at hv
      have hnl : ¬ ((utf8Bytes str ++ rest).length < (utf8Bytes str).length) := by simp
      have htake : (utf8Bytes str ++ rest).take (utf8Bytes str).length = utf8Bytes str := List.take_left
      have hdrop : (utf8Bytes str ++ rest).drop (utf8Bytes str).length = rest := List.drop_left
      simp only [pcDec, List.append_assoc, hv, hnl, if_false, htake, hdrop,
        utf8Dec_enc str ((utf8Bytes str).length + 1) (by omega)]
      cases cap with
      | none => rfl
      | some c =>
        have hc : (utf8Bytes str).length ≤ c := by simpa using hf.2
        simp [hc]
    | _ => simp [pcFits] at hf
  | .none, t, bs, rest, hf, he => by
    cases t with
    | opt t' =>
      simp only [pcEnc, Option.some.injEq] at he
      subst he
      simp [pcDec]
    | _ => simp [pcFits] at hf
  | .some v, t, bs, rest, hf, he => by
    cases t with
    | opt t' =>
      simp only [pcFits] at hf
      simp only [pcEnc] at he
      cases hx : pcEnc t' v with
      | none => simp [hx] at he
      | some x =>
        simp only [hx, Option.map_some, Option.some.injEq] at he
        subst he
        simp only [List.cons_append, pcDec, pc_rt v t' x rest hf hx, Option.map_some]
    | _ => simp [pcFits] at hf
  | .arr vs, t, bs, rest, hf, he => by
    cases t with
    | arr n t' =>
      simp only [pcFits, Bool.and_eq_true, decide_eq_true_eq] at hf
      simp only [pcEnc] at he
      obtain ⟨hlen, hfl⟩ := hf
      subst hlen
      simp only [pcDec, pc_rt_list vs t' bs rest hfl he, Option.map_some]
    | _ => simp [pcFits] at hf
  | .unit, t, bs, rest, hf, he => by
    cases t with
    | unit =>
      simp only [pcEnc, Option.some.injEq] at he
      subst he
      simp [pcDec]
    | _ => simp [pcFits] at hf
  | .struct vs, t, bs, rest, hf, he => by
    cases t with
    | struct fs =>
      simp only [pcFits] at hf
      simp only [pcEnc] at he
      simp only [pcDec, pc_rt_fields vs fs bs rest hf he, Option.map_some]
    | _ => simp [pcFits] at hf
  | .variant i, t, bs, rest, hf, he => by
    cases t with
    | unitEnum names =>
      simp only [pcFits, Bool.and_eq_true, decide_eq_true_eq] at hf
      simp only [pcEnc, Option.some.injEq] at he
      subst he
      have := unvarint_roundtrip 32 i (by decide) hf.2 rest
      simp only [maxVarBytes] at this
      simp only [pcDec, this, hf.1, if_true]
    | _ => simp [pcFits] at hf
theorem pc_rt_list : ∀ (vs : List Val) (t : Ty) (bs rest : Bytes), pcFitsList t vs = true → pcEncList t vs = some bs →
    pcDecList t vs.length (bs ++ rest) = some (vs, rest)
  | [], t, bs, rest, _, he => by
    simp only [pcEncList, Option.some.injEq] at he
    subst he
    simp [pcDecList]
  | v :: vs, t, bs, rest, hf, he => by
    simp only [pcFitsList, Bool.and_eq_true] at hf
    simp only [pcEncList] at he
    cases hx : pcEnc t v with
    | none => simp [hx] at he
    | some x =>
      cases hxs : pcEncList t vs with
      | none => simp [hx, hxs] at he
      | some xs =>
        simp [hx, hxs] at he
        subst he
        simp only [List.length_cons, pcDecList, List.append_assoc, pc_rt v t x (xs ++ rest) hf.1 hx,
          pc_rt_list vs t xs rest hf.2 hxs, Option.map_some]
theorem pc_rt_fields : ∀ (vs : List Val) (fs : List (String × Ty)) (bs rest : Bytes), pcFitsFields fs vs = true →
    pcEncFields fs vs = some bs → pcDecFields fs (bs ++ rest) = some (vs, rest)
  | [], fs, bs, rest, hf, he => by
    cases fs with
    | nil =>
      simp only [pcEncFields, Option.some.injEq] at he
      subst he
      simp [pcDecFields]
    | cons _ _ => simp [pcFitsFields] at hf
  | v :: vs, fs, bs, rest, hf, he => by
    cases fs with
    | nil => simp [pcFitsFields] at hf
    | cons f fs' =>
      obtain ⟨name, t⟩ := f
      simp only [pcFitsFields, Bool.and_eq_true] at hf
      simp only [pcEncFields] at he
      cases hx : pcEnc t v with
      | none => simp [hx] at he
      | some x =>
        cases hxs : pcEncFields fs' vs with
        | none => simp [hx, hxs] at he
        | some xs =>
          simp [hx, hxs] at he
          subst he
          simp only [pcDecFields, List.append_assoc, pc_rt v t x (xs ++ rest) hf.1 hx,
            pc_rt_fields vs fs' xs rest hf.2 hxs, Option.map_some]
end

end MiniconfVerif.Codec
