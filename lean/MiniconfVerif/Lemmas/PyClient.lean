import MiniconfVerif.Model.PyClient

namespace MiniconfVerif.PyClient
open MiniconfVerif.PathIter
set_option autoImplicit false

/-! association-list facts -/

theorem lookup_setRet_self (l : List (Cd × List Str)) (cd : Cd) (v : List Str) (h : (lookup l cd).isSome) :
    lookup (setRet l cd v) cd = some v := by
  induction l with
  | nil => simp [lookup] at h
  | cons e r ih =>
    obtain ⟨k, w⟩ := e
    by_cases hk : k = cd
    · simp [lookup, setRet, hk]
    · simp only [lookup, hk, if_false] at h
      have := ih h
      simp only [setRet, List.map_cons, hk, if_false, lookup]
      simpa [setRet] using this

theorem lookup_setRet_other (l : List (Cd × List Str)) (cd cd' : Cd) (v : List Str) (hne : cd' ≠ cd) :
    lookup (setRet l cd v) cd' = lookup l cd' := by
  induction l with
  | nil => rfl
  | cons e r ih =>
    obtain ⟨k, w⟩ := e
    by_cases hk : k = cd
    · subst hk
      have : k ≠ cd' := fun e => hne e.symm
      simp [lookup, setRet, this]
      simpa [setRet] using ih
    · by_cases hk' : k = cd'
      · subst hk'
        simp [lookup, setRet, hk]
      · simp [lookup, setRet, hk, hk']
        simpa [setRet] using ih

theorem lookup_del_self (l : List (Cd × List Str)) (cd : Cd) : lookup (del l cd) cd = none := by
  induction l with
  | nil => rfl
  | cons e r ih =>
    obtain ⟨k, w⟩ := e
    by_cases hk : k = cd
    · simp [del, hk]; simpa [del] using ih
    · simp [del, hk, lookup]; simpa [del] using ih

theorem lookup_del_other (l : List (Cd × List Str)) (cd cd' : Cd) (hne : cd' ≠ cd) :
    lookup (del l cd) cd' = lookup l cd' := by
  induction l with
  | nil => rfl
  | cons e r ih =>
    obtain ⟨k, w⟩ := e
    by_cases hk : k = cd
    · subst hk
      have : k ≠ cd' := fun e => hne e.symm
      simp [del, lookup, this]; simpa [del] using ih
    · by_cases hk' : k = cd'
      · subst hk'
        simp [del, hk, lookup]
      · simp [del, hk, lookup, hk']; simpa [del] using ih

theorem lookup_append_new (l : List (Cd × List Str)) (cd : Cd) (h : lookup l cd = none) :
    lookup (l ++ [(cd, [])]) cd = some [] := by
  induction l with
  | nil => simp [lookup]
  | cons e r ih =>
    obtain ⟨k, w⟩ := e
    by_cases hk : k = cd
    · simp [lookup, hk] at h
    · simp only [lookup, hk, if_false] at h
      simp [lookup, hk, ih h]

/-- a message is for request `cd` if it arrives on the response topic, carries that
correlation data and a response code -/
def Own (rt : Str) (cd : Cd) (m : Msg) : Bool :=
  decide (m.topic = rt) && decide (m.cd = some cd) && m.code.isSome

/-- done-entries for `cd` -/
def doneFor (st : PySt) (cd : Cd) : List Done := (st.done.filter (·.1 = cd)).map (·.2)

/-- a message that is not `cd`'s own leaves everything about `cd` untouched -/
theorem dispatch_other (rt : Str) (st : PySt) (m : Msg) (cd : Cd) (h : Own rt cd m = false) :
    lookup (dispatch rt st m).inflight cd = lookup st.inflight cd ∧ doneFor (dispatch rt st m) cd = doneFor st cd := by
  unfold dispatch
  split
  · exact ⟨rfl, rfl⟩
  · next htop =>
    have htop' : m.topic = rt := by simpa using htop
    cases hcd : m.cd with
    | none => exact ⟨rfl, rfl⟩
    | some c =>
      simp only []
      cases hl : lookup st.inflight c with
      | none => exact ⟨rfl, rfl⟩
      | some ret =>
        simp only []
        cases hcode : m.code with
        | none => exact ⟨rfl, rfl⟩
        | some code =>
          have hne : cd ≠ c := by
            intro e
            subst e
            simp [Own, htop', hcd, hcode] at h
          simp only []
          split
          · exact ⟨lookup_setRet_other _ _ _ _ hne, rfl⟩
          · split
            · refine ⟨lookup_del_other _ _ _ hne, ?_⟩
              simp [doneFor, List.filter_append, hne.symm]
            · refine ⟨lookup_del_other _ _ _ hne, ?_⟩
              simp [doneFor, List.filter_append, hne.symm]

/-- a message for a request that is not (or no longer) in flight changes nothing at all -/
theorem dispatch_not_inflight (rt : Str) (st : PySt) (m : Msg) (cd : Cd) (hcd : m.cd = some cd)
    (h : lookup st.inflight cd = none) : dispatch rt st m = st := by
  unfold dispatch
  split
  · rfl
  · simp [hcd, h]

/-- the reference reading of a request's own messages: `Continue` payloads accumulate, the
first other code ends the request; `none` = still waiting (with what was collected) -/
def collect (acc : List Str) : List Msg → Done ⊕ List Str
  | [] => .inr acc
  | m :: ms =>
    match m.code with
    | none => collect acc ms
    | some code =>
      if code = codeContinue then collect (acc ++ [m.payload]) ms
      else if code = codeOk then .inl (.ok (if m.payload.isEmpty then acc else acc ++ [m.payload]))
      else .inl (.exc code m.payload)

/-- once completed and removed, nothing later touches the request: exactly one completion -/
theorem completed_stays (rt : Str) (cd : Cd) (ms : List Msg) :
    ∀ (st : PySt) (d : Done), doneFor st cd = [d] → lookup st.inflight cd = none →
      doneFor (ms.foldl (dispatch rt) st) cd = [d] ∧ lookup (ms.foldl (dispatch rt) st).inflight cd = none := by
  induction ms with
  | nil => intro st d h1 h2; exact ⟨h1, h2⟩
  | cons m ms ih =>
    intro st d h1 h2
    simp only [List.foldl_cons]
    by_cases hc : m.cd = some cd
    · rw [dispatch_not_inflight rt st m cd hc h2]
      exact ih st d h1 h2
    · have : Own rt cd m = false := by simp [Own, hc]
      obtain ⟨e1, e2⟩ := dispatch_other rt st m cd this
      exact ih _ d (by rw [e2]; exact h1) (by rw [e1]; exact h2)

/-- **Main lemma**: for a request in flight with collected payloads `acc` and no completion
yet, dispatching any message sequence leaves it exactly as the reference reading of its own
messages says: completed once with that result (and removed), or still in flight with the
accumulated payloads. -/
theorem dispatch_fold (rt : Str) (cd : Cd) (ms : List Msg) :
    ∀ (st : PySt) (acc : List Str), lookup st.inflight cd = some acc → doneFor st cd = [] →
      let st' := ms.foldl (dispatch rt) st
      match collect acc (ms.filter (Own rt cd)) with
      | .inl d => doneFor st' cd = [d] ∧ lookup st'.inflight cd = none
      | .inr acc' => doneFor st' cd = [] ∧ lookup st'.inflight cd = some acc' := by
  induction ms with
  | nil => intro st acc h1 h2; simp [collect, h1, h2]
  | cons m ms ih =>
    intro st acc h1 h2
    simp only [List.foldl_cons]
    by_cases hown : Own rt cd m = true
    · -- own message
      have hf : (m :: ms).filter (Own rt cd) = m :: ms.filter (Own rt cd) := by simp [hown]
      rw [hf]
      have ht : m.topic = rt := by simp [Own] at hown; exact hown.1.1
      have hc : m.cd = some cd := by simp [Own] at hown; exact hown.1.2
      obtain ⟨code, hcode⟩ : ∃ code, m.code = some code := by
        simp [Own] at hown; exact Option.isSome_iff_exists.mp hown.2
      simp only [collect, hcode]
      have hd : dispatch rt st m =
          (if code = codeContinue then { st with inflight := setRet st.inflight cd (acc ++ [m.payload]) }
           else if code = codeOk then
             { inflight := del st.inflight cd,
               done := st.done ++ [(cd, .ok (if m.payload.isEmpty then acc else acc ++ [m.payload]))] }
           else { inflight := del st.inflight cd, done := st.done ++ [(cd, .exc code m.payload)] }) := by
        unfold dispatch
        simp [ht, hc, h1, hcode]
      rw [hd]
      by_cases hC : code = codeContinue
      · simp only [hC, if_true]
        exact ih _ _ (lookup_setRet_self _ _ _ (by simp [h1])) h2
      · by_cases hO : code = codeOk
        · have hC' : ¬ codeOk = codeContinue := by decide
          subst hO
          simp only [hC', if_false, if_true]
          have hdone : doneFor (PySt.mk (del st.inflight cd)
              (st.done ++ [(cd, Done.ok (if m.payload.isEmpty then acc else acc ++ [m.payload]))])) cd =
              [Done.ok (if m.payload.isEmpty then acc else acc ++ [m.payload])] := by
            simp only [doneFor, List.filter_append, List.map_append] at h2 ⊢
            simp [h2]
          exact completed_stays rt cd ms _ _ hdone (lookup_del_self _ _)
        · simp only [hC, hO, if_false]
          have hdone : doneFor (PySt.mk (del st.inflight cd) (st.done ++ [(cd, Done.exc code m.payload)])) cd =
              [Done.exc code m.payload] := by
            simp only [doneFor, List.filter_append, List.map_append] at h2 ⊢
            simp [h2]
          exact completed_stays rt cd ms _ _ hdone (lookup_del_self _ _)
    · have hown' : Own rt cd m = false := by simpa using hown
      have hf : (m :: ms).filter (Own rt cd) = ms.filter (Own rt cd) := by simp [hown']
      rw [hf]
      obtain ⟨e1, e2⟩ := dispatch_other rt st m cd hown'
      exact ih _ _ (by rw [e1]; exact h1) (by rw [e2]; exact h2)

theorem strsOf_map (l : List Str) : strsOf (l.map PyItem.str) = some l := by
  induction l with
  | nil => rfl
  | cons x xs ih => simp [strsOf, ih]

end MiniconfVerif.PyClient
