import MiniconfVerif.Lemmas.Factor
import MiniconfVerif.Props.C15
import MiniconfVerif.Lemmas.JsonRT
import MiniconfVerif.Model.TreeDriver

/-! Round trip of the separator-path text form: the `Path` target renders the keys of a node
path; `PathIter` splits that text into the same keys; looking those up resolves to the same
indices.  (`JsonPath` texts: C15's `json_notations` + the runs.) -/
namespace MiniconfVerif
open MiniconfVerif.PathIter MiniconfVerif.TreeDriver
set_option autoImplicit false

/-- the text of key `i` at this node: the field name, or the decimal index -/
def Schema.keyText (t : Schema) (i : Nat) : Str :=
  match (t.cbArg i).name with
  | some n => n.toList
  | none => itoa i

def keyTexts : Schema → List Nat → List Str
  | _, [] => []
  | t, i :: p => t.keyText i :: (match t.kids[i]? with | some c => keyTexts c p | none => [])

def renderPath (S : Char) (ks : List Str) : Str := ks.flatMap (S :: ·)

theorem byteLen_append (a b : Str) : byteLen (a ++ b) = byteLen a + byteLen b := by
  simp [byteLen, List.map_append, List.sum_append]

theorem contains_false_of_not_mem (S : Char) (k : Str) (h : S ∉ k) : k.contains S = false := by
  rw [Bool.eq_false_iff]
  intro hc
  exact h (List.contains_iff_mem.mp hc)

theorem byteLen_cons (c : Char) (s : Str) : byteLen (c :: s) = c.utf8Size + byteLen s := by
  simp [byteLen]

theorem path_cb (S : Char) (cap : Nat) (buf : Str) (t : Schema) (i : Nat) (hf : S ∉ t.keyText i)
    (hcap : byteLen buf + (S.utf8Size + byteLen (t.keyText i)) ≤ cap) :
    Target.cbP (.path S buf cap, false) (t.cbArg i) = some (.path S (buf ++ S :: t.keyText i) cap, false) := by
  have hidx := cbArg_index t i
  have hS : byteLen [S] = S.utf8Size := by rw [byteLen_cons]; simp [byteLen]
  have hb1 : byteLen buf + byteLen [S] ≤ cap := by rw [hS]; omega
  have hw1 : capWrite buf cap [S] = some (buf ++ [S]) := by simp only [capWrite, hb1, if_true]
  have hb2 : byteLen (buf ++ [S]) + byteLen (t.keyText i) ≤ cap := by
    rw [byteLen_append, hS]; omega
  have hw2 : capWrite (buf ++ [S]) cap (t.keyText i) = some (buf ++ [S] ++ t.keyText i) := by
    simp only [capWrite, hb2, if_true]
  cases hn : (t.cbArg i).name with
  | none =>
    have hkt : t.keyText i = itoa i := by simp [Schema.keyText, hn]
    have hpanic : Target.cbPanics (.path S buf cap) (t.cbArg i) = false := by simp [Target.cbPanics, hn]
    simp only [Target.cbP, Bool.false_eq_true, if_false, hpanic, Target.cb, hw1, hn, hidx, ← hkt, hw2, Option.map_some]
    simp
  | some n =>
    have hkt : t.keyText i = n.toList := by simp [Schema.keyText, hn]
    rw [hkt] at hf
    have hpanic : Target.cbPanics (.path S buf cap) (t.cbArg i) = false := by
      simp only [Target.cbPanics, hn, contains_false_of_not_mem S n.toList hf, Bool.and_false]
    simp only [Target.cbP, Bool.false_eq_true, if_false, hpanic, Target.cb, hw1, hn, ← hkt, hw2, Option.map_some]
    simp

/-- **Rendering**: the `Path` target's callbacks along a node path write `S key S key …` -/
theorem cbAlong_path (S : Char) (cap : Nat) : ∀ (p : List Nat) (s t : Schema) (buf : Str), s.at? p = some t →
    (∀ k ∈ keyTexts s p, S ∉ k) → byteLen buf + byteLen (renderPath S (keyTexts s p)) ≤ cap →
    cbAlong Target.cbP s p (.path S buf cap, false) = some (.path S (buf ++ renderPath S (keyTexts s p)) cap, false) := by
  intro p
  induction p with
  | nil => intro s t buf _ _ _; simp [cbAlong, keyTexts, renderPath]
  | cons i p ih =>
    intro s t buf ht hfree hcap
    rw [at?_cons] at ht
    cases hk : s.kids[i]? with
    | none => simp [hk] at ht
    | some c =>
      simp only [hk] at ht
      simp only [keyTexts, hk, renderPath, List.flatMap_cons, List.mem_cons, forall_eq_or_imp] at hfree hcap ⊢
      obtain ⟨hf1, hf2⟩ := hfree
      simp only [List.cons_append, byteLen_cons, byteLen_append] at hcap
      have hstep := path_cb S cap buf s i hf1 (by omega)
      simp only [cbAlong, hk, hstep]
      rw [ih c t _ ht hf2 (by simp only [byteLen_append, byteLen_cons, renderPath]; omega)]
      simp [renderPath]

/-- a segment without separator in front of a text splits off whole -/
theorem splitSpec_free_prefix (S : Char) : ∀ (k r : Str), S ∉ k →
    splitSpec S (k ++ r) = (match splitSpec S r with | h :: t => (k ++ h) :: t | [] => [k]) := by
  intro k
  induction k with
  | nil =>
    intro r _
    simp only [List.nil_append]
    cases h : splitSpec S r with
    | nil => exact absurd h (splitSpec_ne_nil S r)
    | cons x xs => rfl
  | cons c k ih =>
    intro r hf
    have hc : c ≠ S := by intro e; subst e; simp at hf
    have hk : S ∉ k := by intro h; exact hf (List.mem_cons_of_mem _ h)
    simp only [List.cons_append, splitSpec, hc, if_false, ih r hk]
    cases splitSpec S r <;> rfl

/-- **Splitting** what was rendered gives the empty first segment and the keys -/
theorem splitSpec_render (S : Char) : ∀ (ks : List Str), (∀ k ∈ ks, S ∉ k) → splitSpec S (renderPath S ks) = [] :: ks
  | [], _ => by simp [renderPath, splitSpec]
  | k :: ks, h => by
    have ih := splitSpec_render S ks (fun x hx => h x (List.mem_cons_of_mem _ hx))
    have e : renderPath S (k :: ks) = S :: (k ++ renderPath S ks) := by simp [renderPath]
    rw [e]
    simp only [splitSpec, if_true]
    rw [splitSpec_free_prefix S k _ (h k (by simp)), ih]
    simp

theorem pathKeys_render (S : Char) (ks : List Str) (h : ∀ k ∈ ks, S ∉ k) :
    pathKeys S (renderPath S ks) = .list (ks.map Key.str) := by
  unfold pathKeys
  rw [C15.pathIter_spec S (renderPath S ks), splitSpec_render S ks h]
  rfl

end MiniconfVerif

namespace MiniconfVerif
open MiniconfVerif.PathIter MiniconfVerif.TreeDriver
set_option autoImplicit false

/-- **Lookup**: the text of key `i` of a node resolves back to index `i` -/
theorem find_keyText (t c : Schema) (hwf : t.WF) (hsm : t.Small) (i : Nat) (hk : t.kids[i]? = some c) :
    (Key.str (t.keyText i)).find t.lookup = .ok i := by
  obtain ⟨_, hi⟩ := kid_facts t c i hk
  have har : t.arity ≤ 2 ^ 64 := hsm [] t rfl
  cases t with
  | leaf => simp [Schema.kids] at hk
  | node lk cs =>
    obtain ⟨hlen, hpos, hnd, _⟩ := hwf
    have hi' : i < lk.len := by simpa [Schema.arity, Schema.kids, hlen] using hi
    cases lk with
    | named ns =>
      simp only [Lookup.len] at hi'
      have hget : ns[i]? = some ns[i] := by simp [hi']
      simp only [Schema.keyText, Schema.cbArg, Lookup.name?, hget, Schema.lookup, Key.find]
      rw [Codec.findIdx_nodup ns i hi' hnd]
    | numbered n =>
      simp only [Lookup.len] at hi'
      have h64 : i < 2 ^ 64 := by
        simp only [Schema.arity, Schema.kids, hlen, Lookup.len] at har; omega
      simp only [Schema.keyText, Schema.cbArg, Lookup.name?, Schema.lookup, Key.find, parseUsize_itoa i h64, hi', if_true]
    | homog n => exact absurd hnd (by simp)
  | array n c' =>
    have hi' : i < n := by simpa [Schema.arity, Schema.kids] using hi
    have h64 : i < 2 ^ 64 := by
      simp only [Schema.arity, Schema.kids, List.length_replicate] at har; omega
    simp only [Schema.keyText, Schema.cbArg, Schema.lookup, Key.find, parseUsize_itoa i h64, hi', if_true]

/-- **Same walk**: the rendered keys of a node path drive the traversal exactly as its indices do -/
theorem traverse_keyTexts {σ : Type} (cb : σ → CbArg → Option σ) : ∀ (p : List Nat) (s t : Schema) (st : σ),
    s.WF → s.Small → s.at? p = some t →
    s.traverse cb (.list ((keyTexts s p).map Key.str)) st = s.traverse cb (.list (intKeys p)) st := by
  intro p
  induction p with
  | nil => intro s t st _ _ _; rfl
  | cons i p ih =>
    intro s t st hwf hsm ht
    rw [at?_cons] at ht
    cases hk : s.kids[i]? with
    | none => simp [hk] at ht
    | some c =>
      simp only [hk] at ht
      obtain ⟨_, hi⟩ := kid_facts s c i hk
      have har : s.arity ≤ 2 ^ 64 := hsm [] s rfl
      have hll : s.lookup.len = s.arity := by
        cases s with
        | leaf => simp [Schema.kids] at hk
        | node lk cs => simp [Schema.lookup, Schema.arity, Schema.kids, hwf.1]
        | array n c' => simp [Schema.lookup, Schema.arity, Schema.kids, Lookup.len]
      have hn1 : (KeySrc.list ((keyTexts s (i :: p)).map Key.str)).next s.lookup =
          .ok (i, .list ((keyTexts c p).map Key.str)) := by
        simp only [keyTexts, hk, List.map_cons, list_next_cons, find_keyText s c hwf hsm i hk]
      have hn2 : (KeySrc.list (intKeys (i :: p))).next s.lookup = .ok (i, .list (intKeys p)) := by
        simp only [intKeys, List.map_cons, list_next_cons, intKey_find s.lookup i (by rw [hll]; exact har), hll, hi, if_true]
      rw [traverse_step cb s c _ _ i st hk hn1, traverse_step cb s c _ _ i st hk hn2]
      cases cb st (s.cbArg i) with
      | none => rfl
      | some st' =>
        simp only []
        rw [ih c t st' (wf_kids s hwf c (List.mem_of_getElem? hk)) (small_kid s c i hsm hk) ht]

/-- **`Path` round trip**: transcode the position tuple of a node into a `Path` with separator
`S` (not occurring in any key text on the way) and enough capacity; the produced text, read
again as a `Path` key, drives every traversal — hence every by-key operation and every further
transcoding — exactly as the position tuple does. -/
theorem path_roundtrip {σ : Type} (cb : σ → CbArg → Option σ) (s t : Schema) (hwf : s.WF) (hsm : s.Small)
    (S : Char) (cap : Nat) (p : List Nat) (ht : s.at? p = some t) (hfree : ∀ k ∈ keyTexts s p, S ∉ k)
    (hcap : byteLen (renderPath S (keyTexts s p)) ≤ cap) (st : σ) :
    tgtAt s (.path S [] cap) p = .path S (renderPath S (keyTexts s p)) cap ∧
    s.traverse cb (pathKeys S (renderPath S (keyTexts s p))) st = s.traverse cb (.list (intKeys p)) st := by
  constructor
  · have := cbAlong_path S cap p s t [] ht hfree (by simpa [byteLen] using hcap)
    simp [tgtAt, this]
  · rw [pathKeys_render S _ hfree]
    exact traverse_keyTexts cb p s t st hwf hsm ht

end MiniconfVerif

namespace MiniconfVerif
open MiniconfVerif.PathIter MiniconfVerif.TreeDriver
set_option autoImplicit false

/-- the notation the `JsonPath` target writes for key `i` of a node: `.name` or `[index]` -/
def Schema.jsonKey (t : Schema) (i : Nat) : Notation × Str :=
  match (t.cbArg i).name with
  | some n => (.dot, n.toList)
  | none => (.bracket, itoa i)

def jsonKeysOf : Schema → List Nat → List (Notation × Str)
  | _, [] => []
  | t, i :: p => t.jsonKey i :: (match t.kids[i]? with | some c => jsonKeysOf c p | none => [])

theorem jsonKey_snd (t : Schema) (i : Nat) : (t.jsonKey i).2 = t.keyText i := by
  simp only [Schema.jsonKey, Schema.keyText]; cases (t.cbArg i).name <;> rfl

theorem jsonKeysOf_snd : ∀ (p : List Nat) (s : Schema), (jsonKeysOf s p).map (·.2) = keyTexts s p
  | [], _ => rfl
  | i :: p, s => by
    simp only [jsonKeysOf, keyTexts, List.map_cons, jsonKey_snd]
    cases s.kids[i]? with
    | none => rfl
    | some c => simp only [jsonKeysOf_snd p c]

theorem any_false_of_delimFree (n : Str) (h : DelimFree n) :
    (n.any fun c => c == '.' || c == '\'' || c == '[' || c == ']') = false := by
  rw [Bool.eq_false_iff]
  intro hc
  rw [List.any_eq_true] at hc
  obtain ⟨c, hc1, hc2⟩ := hc
  have := h c hc1
  simp only [delims, List.mem_cons, List.not_mem_nil, or_false, not_or] at this
  simp only [Bool.or_eq_true, beq_iff_eq] at hc2
  rcases hc2 with ((h1 | h1) | h1) | h1
  · exact this.1 h1
  · exact this.2.1 h1
  · exact this.2.2.1 h1
  · exact this.2.2.2 h1

theorem json_cb (cap : Nat) (buf : Str) (t : Schema) (i : Nat) (hf : DelimFree (t.keyText i))
    (hcap : byteLen buf + byteLen (render (t.jsonKey i).1 (t.jsonKey i).2) ≤ cap) :
    Target.cbP (.json buf cap, false) (t.cbArg i) =
      some (.json (buf ++ render (t.jsonKey i).1 (t.jsonKey i).2) cap, false) := by
  have hidx := cbArg_index t i
  have hone : ∀ c : Char, byteLen [c] = c.utf8Size := by intro c; rw [byteLen_cons]; simp [byteLen]
  cases hn : (t.cbArg i).name with
  | some n =>
    have hkt : t.keyText i = n.toList := by simp [Schema.keyText, hn]
    rw [hkt] at hf
    simp only [Schema.jsonKey, hn, render, byteLen_cons] at hcap ⊢
    have hpanic : Target.cbPanics (.json buf cap) (t.cbArg i) = false := by
      simp only [Target.cbPanics, hn, any_false_of_delimFree n.toList hf]
    have hw1 : capWrite buf cap ['.'] = some (buf ++ ['.']) := by
      simp only [capWrite]; rw [if_pos]; rw [hone]; omega
    have hw2 : capWrite (buf ++ ['.']) cap n.toList = some (buf ++ ['.'] ++ n.toList) := by
      simp only [capWrite]; rw [if_pos]; rw [byteLen_append, hone]; omega
    simp only [Target.cbP, Bool.false_eq_true, if_false, hpanic, Target.cb, hn, hw1, hw2, Option.map_some]
    simp
  | none =>
    simp only [Schema.jsonKey, hn, render, byteLen_cons, byteLen_append] at hcap ⊢
    have hpanic : Target.cbPanics (.json buf cap) (t.cbArg i) = false := by simp only [Target.cbPanics, hn]
    have hnil : byteLen ([] : Str) = 0 := rfl
    rw [hnil] at hcap
    have hw1 : capWrite buf cap ['['] = some (buf ++ ['[']) := by
      simp only [capWrite]; rw [if_pos]; rw [hone]; omega
    have hw2 : capWrite (buf ++ ['[']) cap (itoa i) = some (buf ++ ['['] ++ itoa i) := by
      simp only [capWrite]; rw [if_pos]; rw [byteLen_append, hone]; omega
    have hw3 : capWrite (buf ++ ['['] ++ itoa i) cap [']'] = some (buf ++ ['['] ++ itoa i ++ [']']) := by
      simp only [capWrite]; rw [if_pos]; rw [byteLen_append, byteLen_append, hone, hone]; omega
    simp only [Target.cbP, Bool.false_eq_true, if_false, hpanic, Target.cb, hn, hidx, hw1, hw2, hw3, Option.map_some]
    simp

/-- **Rendering** of the `JsonPath` target along a node path -/
theorem cbAlong_json (cap : Nat) : ∀ (p : List Nat) (s t : Schema) (buf : Str), s.at? p = some t →
    (∀ k ∈ keyTexts s p, DelimFree k) → byteLen buf + byteLen (renderAll (jsonKeysOf s p)) ≤ cap →
    cbAlong Target.cbP s p (.json buf cap, false) = some (.json (buf ++ renderAll (jsonKeysOf s p)) cap, false) := by
  intro p
  induction p with
  | nil => intro s t buf _ _ _; simp [cbAlong, jsonKeysOf, renderAll]
  | cons i p ih =>
    intro s t buf ht hfree hcap
    rw [at?_cons] at ht
    cases hk : s.kids[i]? with
    | none => simp [hk] at ht
    | some c =>
      simp only [hk] at ht
      simp only [keyTexts, hk, List.mem_cons, forall_eq_or_imp] at hfree
      obtain ⟨hf1, hf2⟩ := hfree
      have hra : renderAll (jsonKeysOf s (i :: p)) = render (s.jsonKey i).1 (s.jsonKey i).2 ++ renderAll (jsonKeysOf c p) := by
        simp only [jsonKeysOf, hk]
        cases hj : s.jsonKey i with
        | mk nt n => rfl
      rw [hra, byteLen_append] at hcap
      have hstep := json_cb cap buf s i hf1 (by omega)
      simp only [cbAlong, hk, hstep]
      rw [ih c t _ ht hf2 (by rw [byteLen_append]; omega), hra]
      simp

theorem renderAll_length_ge : ∀ (ks : List (Notation × Str)), ks.length ≤ (renderAll ks).length
  | [] => by simp [renderAll]
  | (nt, n) :: ks => by
    have := renderAll_length_ge ks
    simp only [renderAll, List.length_cons, List.length_append]
    have : 1 ≤ (render nt n).length := by cases nt <;> simp [render]
    omega

/-- **`JsonPath` round trip** -/
theorem jsonpath_roundtrip {σ : Type} (cb : σ → CbArg → Option σ) (s t : Schema) (hwf : s.WF) (hsm : s.Small)
    (cap : Nat) (p : List Nat) (ht : s.at? p = some t) (hfree : ∀ k ∈ keyTexts s p, DelimFree k)
    (hcap : byteLen (renderAll (jsonKeysOf s p)) ≤ cap) (st : σ) :
    tgtAt s (.json [] cap) p = .json (renderAll (jsonKeysOf s p)) cap ∧
    s.traverse cb (jsonKeys (renderAll (jsonKeysOf s p))) st = s.traverse cb (.list (intKeys p)) st := by
  constructor
  · have := cbAlong_json cap p s t [] ht hfree (by simpa [byteLen] using hcap)
    simp [tgtAt, this]
  · have hdf : ∀ k ∈ jsonKeysOf s p, DelimFree k.2 := by
      intro k hk
      apply hfree
      rw [← jsonKeysOf_snd]
      exact List.mem_map_of_mem hk
    have := jdrain_renderAll (jsonKeysOf s p) hdf ((renderAll (jsonKeysOf s p)).length + 1)
      (by have := renderAll_length_ge (jsonKeysOf s p); omega)
    unfold jsonKeys
    rw [this]
    simp only [jsonKeysOf_snd]
    exact traverse_keyTexts cb p s t st hwf hsm ht

end MiniconfVerif

namespace MiniconfVerif
open MiniconfVerif.PathIter
set_option autoImplicit false

theorem ofList_size : ∀ (l : List Char), (String.ofList l).utf8ByteSize = byteLen l
  | [] => by simp [byteLen]
  | c :: l => by
    have : c :: l = [c] ++ l := rfl
    rw [this, String.ofList_append, String.utf8ByteSize_append, ofList_size l]
    have h1 : (String.ofList [c]).utf8ByteSize = c.utf8Size := by
      have : String.ofList [c] = String.singleton c := by rfl
      rw [this, String.utf8ByteSize_singleton]
    rw [h1]; simp [byteLen]

theorem string_size_eq (n : String) : n.utf8ByteSize = byteLen n.toList := by
  rw [← ofList_size, String.ofList_toList]

theorem digitChar_size : ∀ (d : Nat), d < 10 → (digitChar d).utf8Size = 1
  | 0, _ => by decide
  | 1, _ => by decide
  | 2, _ => by decide
  | 3, _ => by decide
  | 4, _ => by decide
  | 5, _ => by decide
  | 6, _ => by decide
  | 7, _ => by decide
  | 8, _ => by decide
  | 9, _ => by decide
  | n + 10, h => by omega

theorem byteLen_itoa : ∀ (n : Nat), byteLen (itoa n) = digits n := by
  intro n
  induction n using Nat.strongRecOn with
  | _ n ih =>
    rw [itoa_eq, digits_eq]
    split
    · next h => simp [byteLen, digitChar_size n h]
    · next h =>
      rw [byteLen_append, ih (n / 10) (by omega)]
      simp [byteLen, digitChar_size (n % 10) (by omega)]; omega

/-- the byte length of the key text at a level is the length weight of that level -/
theorem byteLen_keyText (t c : Schema) (hwf : t.WF) (i : Nat) (hk : t.kids[i]? = some c) :
    byteLen (t.keyText i) = t.levelW Wlen i := by
  obtain ⟨_, hi⟩ := kid_facts t c i hk
  cases t with
  | leaf => simp [Schema.kids] at hk
  | node lk cs =>
    obtain ⟨hlen, _, hnd, _⟩ := hwf
    cases lk with
    | named ns =>
      have hi' : i < ns.length := by simpa [Schema.arity, Schema.kids, hlen, Lookup.len] using hi
      have hn : ns[i]? = some ns[i] := by simp [hi']
      simp [Schema.keyText, Schema.cbArg, Lookup.name?, Schema.levelW, Wlen, Lookup.keyLen, hn, string_size_eq]
    | numbered n => simp [Schema.keyText, Schema.cbArg, Lookup.name?, Schema.levelW, Wlen, Lookup.keyLen, byteLen_itoa]
    | homog n => exact absurd hnd (by simp)
  | array n c' => simp [Schema.keyText, Schema.cbArg, Schema.levelW, Wlen, byteLen_itoa]

/-- the rendered path of a node path has one separator per level plus the path's length weight -/
theorem byteLen_renderPath (S : Char) : ∀ (p : List Nat) (s t : Schema), s.WF → s.at? p = some t →
    byteLen (renderPath S (keyTexts s p)) = p.length * S.utf8Size + pathW Wlen s p := by
  intro p
  induction p with
  | nil => intro s t _ _; simp [renderPath, keyTexts, pathW, byteLen]
  | cons i p ih =>
    intro s t hwf ht
    rw [at?_cons] at ht
    cases hk : s.kids[i]? with
    | none => simp [hk] at ht
    | some c =>
      simp only [hk] at ht
      have hrec := ih c t (wf_kids s hwf c (List.mem_of_getElem? hk)) ht
      have hkt := byteLen_keyText s c hwf i hk
      have e : renderPath S (keyTexts s (i :: p)) = S :: (s.keyText i ++ renderPath S (keyTexts c p)) := by
        simp [renderPath, keyTexts, hk]
      rw [e, byteLen_cons, byteLen_append, hrec, hkt]
      simp only [pathW, hk, List.length_cons, Nat.add_mul, Nat.one_mul]
      omega

end MiniconfVerif
