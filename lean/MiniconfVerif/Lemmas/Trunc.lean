import MiniconfVerif.Lemmas.IterEnum

/-! The type cut off at a depth limit: subtrees below depth `m` become leaves.  Depth-limited
iteration over `s` is full iteration over `s.trunc D` (up to the leaf/internal label). -/
namespace MiniconfVerif
set_option autoImplicit false

def Schema.trunc : Nat → Schema → Schema
  | 0, _ => .leaf
  | _ + 1, .leaf => .leaf
  | m + 1, .node lk cs => .node lk (cs.map fun c => Schema.trunc m c)
  | m + 1, .array n c => .array n (Schema.trunc m c)

theorem trunc_zero (s : Schema) : s.trunc 0 = .leaf := by cases s <;> rfl

theorem trunc_kids (m : Nat) (t : Schema) : (t.trunc (m + 1)).kids = t.kids.map (Schema.trunc m) := by
  cases t with
  | leaf => rfl
  | node lk cs => rfl
  | array n c => simp [Schema.trunc, Schema.kids]

theorem trunc_arity (m : Nat) (t : Schema) : (t.trunc (m + 1)).arity = t.arity := by
  simp [Schema.arity, trunc_kids]

theorem trunc_cbArg (m : Nat) (t : Schema) (i : Nat) : (t.trunc (m + 1)).cbArg i = t.cbArg i := by
  cases t <;> rfl

theorem trunc_isLeaf_succ (m : Nat) (t : Schema) : (t.trunc (m + 1)).isLeaf = t.isLeaf := by
  cases t <;> rfl

theorem trunc_kid (m : Nat) (t c : Schema) (i : Nat) (h : t.kids[i]? = some c) :
    (t.trunc (m + 1)).kids[i]? = some (c.trunc m) := by
  rw [trunc_kids]; simp [h]

/-- the node at a path of the cut type is the cut node -/
theorem trunc_at? : ∀ (p : List Nat) (m : Nat) (s t : Schema), p.length ≤ m → s.at? p = some t →
    (s.trunc m).at? p = some (t.trunc (m - p.length)) := by
  intro p
  induction p with
  | nil => intro m s t _ h; simp only [Schema.at?, Option.some.injEq] at h; subst h; simp [Schema.at?]
  | cons i p ih =>
    intro m s t hm h
    obtain ⟨m', rfl⟩ : ∃ m', m = m' + 1 := ⟨m - 1, by simp at hm; omega⟩
    rw [at?_cons] at h ⊢
    cases hk : s.kids[i]? with
    | none => simp [hk] at h
    | some c =>
      simp only [hk] at h
      rw [trunc_kid m' s c i hk]
      simp only []
      have := ih m' c t (by simp at hm; omega) h
      rw [this]
      congr 2
      simp

theorem wfList_map_trunc (m : Nat) (ih : ∀ c : Schema, c.WF → (c.trunc m).WF) : ∀ (cs : List Schema),
    Schema.WF.wfList cs → Schema.WF.wfList (cs.map fun c => Schema.trunc m c)
  | [], _ => trivial
  | c :: cs, h => ⟨ih c h.1, wfList_map_trunc m ih cs h.2⟩

theorem trunc_wf : ∀ (m : Nat) (s : Schema), s.WF → (s.trunc m).WF := by
  intro m
  induction m with
  | zero => intro s _; rw [trunc_zero]; trivial
  | succ m ih =>
    intro s h
    cases s with
    | leaf => trivial
    | node lk cs =>
      obtain ⟨h1, h2, h3, h4⟩ := h
      exact ⟨by simp [h1], h2, h3, wfList_map_trunc m ih cs h4⟩
    | array n c => exact ⟨h.1, ih c h.2⟩

/-- a valid path of the cut type is a valid path of the type, of length at most the limit -/
theorem at?_of_trunc : ∀ (p : List Nat) (m : Nat) (s u : Schema), (s.trunc m).at? p = some u →
    p.length ≤ m ∧ ∃ t, s.at? p = some t ∧ u = t.trunc (m - p.length) := by
  intro p
  induction p with
  | nil => intro m s u h; simp only [Schema.at?, Option.some.injEq] at h; exact ⟨by simp, s, rfl, by simp [h]⟩
  | cons i p ih =>
    intro m s u h
    cases m with
    | zero => rw [trunc_zero] at h; simp [Schema.at?, Schema.child?] at h
    | succ m' =>
      rw [at?_cons, trunc_kids] at h
      cases hk : s.kids[i]? with
      | none => simp [hk] at h
      | some c =>
        simp only [List.getElem?_map, hk, Option.map_some] at h
        obtain ⟨h1, t, h2, h3⟩ := ih m' c u h
        refine ⟨by simp; omega, t, by rw [at?_cons, hk]; exact h2, ?_⟩
        rw [h3]; congr 1; simp

theorem trunc_small (m : Nat) (s : Schema) (h : s.Small) : (s.trunc m).Small := by
  intro q u hu
  obtain ⟨hq, t, ht, rfl⟩ := at?_of_trunc q m s u hu
  have := h q t ht
  cases hm : m - q.length with
  | zero => rw [trunc_zero]; simp [Schema.arity, Schema.kids]
  | succ k => rw [trunc_arity]; exact this

theorem maxDepth_go_map_le (m : Nat) (ih : ∀ c : Schema, (c.trunc m).maxDepth ≤ m) : ∀ (cs : List Schema),
    Schema.maxDepth.go (cs.map fun c => Schema.trunc m c) ≤ m
  | [] => by simp [Schema.maxDepth.go]
  | c :: cs => by
    simp only [List.map_cons, Schema.maxDepth.go]
    have := ih c
    have := maxDepth_go_map_le m ih cs
    omega

theorem trunc_maxDepth : ∀ (m : Nat) (s : Schema), (s.trunc m).maxDepth ≤ m := by
  intro m
  induction m with
  | zero => intro s; rw [trunc_zero]; simp [Schema.maxDepth]
  | succ m ih =>
    intro s
    cases s with
    | leaf => simp [Schema.trunc, Schema.maxDepth]
    | node lk cs =>
      simp only [Schema.trunc, Schema.maxDepth]
      have := maxDepth_go_map_le m ih cs
      omega
    | array n c =>
      simp only [Schema.trunc, Schema.maxDepth]
      have := ih c
      omega

theorem firstLeaf_trunc : ∀ (m : Nat) (t : Schema), (t.trunc m).firstLeaf = t.firstLeaf.take m := by
  intro m
  induction m with
  | zero => intro t; rw [trunc_zero]; simp [Schema.firstLeaf]
  | succ m ih =>
    intro t
    cases t with
    | leaf => simp [Schema.trunc, Schema.firstLeaf]
    | node lk cs =>
      cases cs with
      | nil => simp [Schema.trunc, Schema.firstLeaf, Schema.firstLeaf.go]
      | cons c cs => simp [Schema.trunc, Schema.firstLeaf, Schema.firstLeaf.go, ih c]
    | array n c =>
      by_cases hn : n = 0
      · simp [Schema.trunc, Schema.firstLeaf, hn]
      · simp [Schema.trunc, Schema.firstLeaf, hn, ih c]

/-- with a limit of at least the maximum depth nothing is cut -/
theorem trunc_id_list (m : Nat) (ih : ∀ c : Schema, c.maxDepth ≤ m → c.trunc m = c) : ∀ (cs : List Schema),
    Schema.maxDepth.go cs ≤ m → (cs.map fun c => Schema.trunc m c) = cs
  | [], _ => rfl
  | c :: cs, h => by
    simp only [Schema.maxDepth.go] at h
    simp only [List.map_cons]
    rw [ih c (by omega), trunc_id_list m ih cs (by omega)]

theorem trunc_id : ∀ (m : Nat) (s : Schema), s.maxDepth ≤ m → s.trunc m = s := by
  intro m
  induction m with
  | zero =>
    intro s h
    cases s with
    | leaf => rfl
    | node lk cs => simp [Schema.maxDepth] at h
    | array n c => simp [Schema.maxDepth] at h
  | succ m ih =>
    intro s h
    cases s with
    | leaf => rfl
    | node lk cs =>
      simp only [Schema.maxDepth] at h
      simp only [Schema.trunc]
      rw [trunc_id_list m ih cs (by omega)]
    | array n c =>
      simp only [Schema.maxDepth] at h
      simp only [Schema.trunc]
      rw [ih c (by omega)]

end MiniconfVerif
