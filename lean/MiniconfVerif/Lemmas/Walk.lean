import MiniconfVerif.Model.Tree

namespace MiniconfVerif

def Op.isRead : Op → Bool
  | .ser | .refAny => true
  | _ => false

theorem leafOp_read_tree (io : Io) (op : Op) (k : LeafKind) (v : Val) (h : op.isRead = true) :
    (leafOp io op k v).tree = .leaf k v := by
  cases op <;> simp [Op.isRead] at h <;> cases k <;> simp [leafOp] <;> (try split) <;> rfl

@[simp] theorem applyValidator_tree (a : Attrs) (op : Op) (o : Out) : (applyValidator a op o).tree = o.tree := by
  unfold applyValidator
  split
  · split <;> rfl
  · rfl

mutual
/-- a read never modifies the tree -/
theorem walk_read_tree (io : Io) (op : Op) (h : op.isRead = true) :
    ∀ (t : Tree) (ks : KeySrc), (t.walk io op ks).tree = t
  | .leaf k v, ks => by
    simp only [Tree.walk]
    split
    · rfl
    · exact leafOp_read_tree io op k v h
  | .gate g closed inner, ks => by
    simp only [Tree.walk]
    split
    · rfl
    · simp only [walk_read_tree io op h inner ks]
  | .array elems, ks => by
    simp only [Tree.walk]
    split
    · rfl
    · simp only [goArr_read io op h elems]
  | .node flat active lk fs, ks => by
    simp only [Tree.walk]
    split
    · rfl
    · split
      · split
        · simp only [goFld_read io op h fs]
        · rfl
      · simp only [goFld_read io op h fs]
theorem goArr_read (io : Io) (op : Op) (h : op.isRead = true) :
    ∀ (es : List Tree) (i : Nat) (ks : KeySrc), (Tree.walk.goArr io op es i ks).2 = es
  | [], _, _ => rfl
  | t :: rest, 0, ks => by simp only [Tree.walk.goArr, walk_read_tree io op h t ks]
  | t :: rest, i + 1, ks => by simp only [Tree.walk.goArr, goArr_read io op h rest i ks]
theorem goFld_read (io : Io) (op : Op) (h : op.isRead = true) :
    ∀ (fs : List (Attrs × Tree)) (i : Nat) (ks : KeySrc), (Tree.walk.goFld io op fs i ks).2 = fs
  | [], _, _ => rfl
  | (a, t) :: rest, 0, ks => by
    simp only [Tree.walk.goFld]
    split
    · rfl
    · split
      · rfl
      · simp only [applyValidator_tree, walk_read_tree io op h t ks]
  | f :: rest, i + 1, ks => by simp only [Tree.walk.goFld, goFld_read io op h rest i ks]
end

end MiniconfVerif

namespace MiniconfVerif

/-- results after which the tree must be unchanged: every error except a validator
rejection (`Invalid`) -/
def Res.keepsTree : Res → Bool
  | .ok _ => false
  | .trav (.invalid _ _) => false
  | _ => true

@[simp] theorem keepsTree_incr (r : Res) : r.incr.keepsTree = r.keepsTree := by
  cases r with
  | trav t => cases t <;> rfl
  | _ => rfl

theorem leafOp_err_tree (io : Io) (op : Op) (k : LeafKind) (v : Val)
    (h : (leafOp io op k v).res.keepsTree = true) : (leafOp io op k v).tree = .leaf k v := by
  revert h
  cases k <;> cases op <;> simp only [leafOp] <;> (repeat' split) <;> simp [Res.keepsTree]

theorem applyValidator_keeps (a : Attrs) (op : Op) (o : Out)
    (h : (applyValidator a op o).res.keepsTree = true) : o.res.keepsTree = true := by
  revert h
  unfold applyValidator
  split
  · split <;> simp [Res.keepsTree]
  · exact id

mutual
/-- a by-key access that fails (other than by a validator rejection) leaves the whole tree unchanged -/
theorem walk_err_tree (io : Io) (op : Op) :
    ∀ (t : Tree) (ks : KeySrc), (t.walk io op ks).res.keepsTree = true → (t.walk io op ks).tree = t
  | .leaf k v, ks => by
    simp only [Tree.walk]
    split
    · intro _; rfl
    · exact leafOp_err_tree io op k v
  | .gate g closed inner, ks => by
    simp only [Tree.walk]
    split
    · intro _; rfl
    · intro h; simp only [walk_err_tree io op inner ks h]
  | .array elems, ks => by
    simp only [Tree.walk]
    split
    · intro _; rfl
    · intro h
      simp only [keepsTree_incr] at h
      simp only [goArr_err io op elems _ _ h]
  | .node flat active lk fs, ks => by
    simp only [Tree.walk]
    split
    · intro _; rfl
    · next i ks' _ =>
      split
      · split
        · intro h
          have h' : (Tree.walk.goFld io op fs i ks').1.res.keepsTree = true := by
            revert h; simp only []; split <;> simp
          simp only [goFld_err io op fs i ks' h']
        · intro _; rfl
      · intro h
        have h' : (Tree.walk.goFld io op fs i ks').1.res.keepsTree = true := by
          revert h; simp only []; split <;> simp
        simp only [goFld_err io op fs i ks' h']
theorem goArr_err (io : Io) (op : Op) :
    ∀ (es : List Tree) (i : Nat) (ks : KeySrc), (Tree.walk.goArr io op es i ks).1.res.keepsTree = true →
      (Tree.walk.goArr io op es i ks).2 = es
  | [], _, _ => fun _ => rfl
  | t :: rest, 0, ks => by
    simp only [Tree.walk.goArr]
    intro h; simp only [walk_err_tree io op t ks h]
  | t :: rest, i + 1, ks => by
    simp only [Tree.walk.goArr]
    intro h; simp only [goArr_err io op rest i ks h]
theorem goFld_err (io : Io) (op : Op) :
    ∀ (fs : List (Attrs × Tree)) (i : Nat) (ks : KeySrc), (Tree.walk.goFld io op fs i ks).1.res.keepsTree = true →
      (Tree.walk.goFld io op fs i ks).2 = fs
  | [], _, _ => fun _ => rfl
  | (a, t) :: rest, 0, ks => by
    simp only [Tree.walk.goFld]
    split
    · intro _; rfl
    · split
      · intro _; rfl
      · intro h
        have h2 := applyValidator_keeps _ _ _ h
        simp only [applyValidator_tree, walk_err_tree io op t ks h2]
  | f :: rest, i + 1, ks => by
    simp only [Tree.walk.goFld]
    intro h; simp only [goFld_err io op rest i ks h]
end

end MiniconfVerif

namespace MiniconfVerif

def Ev.isValidate : Ev → Bool
  | .validate _ _ => true
  | _ => false

theorem getterLog_no_validate (a : Attrs) (op : Op) : ∀ e ∈ getterLog (a.getter op), e.isValidate = false := by
  intro e he
  cases op <;> simp only [Attrs.getter] at he <;>
    (cases hg : a.get <;> cases hm : a.getMut <;> simp_all [getterLog, Ev.isValidate])

theorem applyValidator_log_ne_de (a : Attrs) (op : Op) (o : Out) (h : op ≠ .de) :
    (applyValidator a op o).log = o.log := by
  unfold applyValidator
  split
  · exact absurd rfl h
  · rfl

theorem leafOp_log (io : Io) (op : Op) (k : LeafKind) (v : Val) : (leafOp io op k v).log = [] := by
  cases k <;> cases op <;> simp only [leafOp] <;> (repeat' split) <;> rfl

mutual
/-- validators run only on deserializing writes -/
theorem walk_no_validate (io : Io) (op : Op) (h : op ≠ .de) :
    ∀ (t : Tree) (ks : KeySrc), ∀ e ∈ (t.walk io op ks).log, e.isValidate = false
  | .leaf k v, ks => by
    simp only [Tree.walk]
    split
    · simp
    · simp [leafOp_log]
  | .gate g closed inner, ks => by
    simp only [Tree.walk]
    split
    · simp
    · exact walk_no_validate io op h inner ks
  | .array elems, ks => by
    simp only [Tree.walk]
    split
    · simp
    · exact goArr_no_validate io op h elems _ _
  | .node flat active lk fs, ks => by
    simp only [Tree.walk]
    split
    · simp
    · next i ks' _ =>
      split
      · split
        · exact goFld_no_validate io op h fs i ks'
        · simp
      · exact goFld_no_validate io op h fs i ks'
theorem goArr_no_validate (io : Io) (op : Op) (h : op ≠ .de) :
    ∀ (es : List Tree) (i : Nat) (ks : KeySrc), ∀ e ∈ (Tree.walk.goArr io op es i ks).1.log, e.isValidate = false
  | [], _, _ => by simp [Tree.walk.goArr]
  | t :: rest, 0, ks => by simp only [Tree.walk.goArr]; exact walk_no_validate io op h t ks
  | t :: rest, i + 1, ks => by simp only [Tree.walk.goArr]; exact goArr_no_validate io op h rest i ks
theorem goFld_no_validate (io : Io) (op : Op) (h : op ≠ .de) :
    ∀ (fs : List (Attrs × Tree)) (i : Nat) (ks : KeySrc), ∀ e ∈ (Tree.walk.goFld io op fs i ks).1.log, e.isValidate = false
  | [], _, _ => by simp [Tree.walk.goFld]
  | (a, t) :: rest, 0, ks => by
    simp only [Tree.walk.goFld]
    split
    · simp
    · split
      · next ev msg hg =>
        intro e he
        simp only [List.mem_singleton] at he
        have := getterLog_no_validate a op ev (by simp [hg, getterLog])
        rw [he]; exact this
      · next g hg =>
        simp only [applyValidator_log_ne_de _ _ _ h]
        intro e he
        simp only [List.mem_append] at he
        rcases he with he | he
        · exact getterLog_no_validate a op e he
        · exact walk_no_validate io op h t ks e he
  | f :: rest, i + 1, ks => by simp only [Tree.walk.goFld]; exact goFld_no_validate io op h rest i ks
end

end MiniconfVerif
