import MiniconfVerif.Lemmas.GenTie

/-! `TreeKey::traverse_all::<W>()` for an arbitrary `Walk` implementation `W`: the fold over the type in which every
internal node is presented to `W::internal` exactly once, bottom-up, with the walks of its children in declaration
order and its lookup; arrays present their single child once with `Homogeneous(n)`. -/
namespace MiniconfVerif
set_option autoImplicit false

theorem walkAll_go_eq_map {W : Type} (leafW : W) (internalW : List W → Lookup → W) (cs : List Schema) :
    Schema.walkAll.go leafW internalW cs = cs.map (Schema.walkAll leafW internalW) := by
  induction cs with
  | nil => rfl
  | cons c cs ih => simp [Schema.walkAll.go, ih]

/-- what a walker is shown: the free `Walk` (it records exactly the calls it receives) -/
inductive Shown where
  | leaf
  | internal (children : List Shown) (lookup : Lookup)
  deriving Repr, Inhabited

/-- the structure of a type as `traverse_all` presents it -/
def Schema.shown : Schema → Shown
  | .leaf => .leaf
  | .node lk cs => .internal (go cs) lk
  | .array n c => .internal [c.shown] (.homog n)
where
  go : List Schema → List Shown
    | [] => []
    | c :: cs => c.shown :: go cs

/-- evaluating a walker on what was shown -/
def Shown.eval {W : Type} (leafW : W) (internalW : List W → Lookup → W) : Shown → W
  | .leaf => leafW
  | .internal cs lk => internalW (go cs) lk
where
  go : List Shown → List W
    | [] => []
    | c :: cs => c.eval leafW internalW :: go cs

/-- the recording walker sees exactly the declared structure -/
theorem walkAll_free (s : Schema) : s.walkAll Shown.leaf Shown.internal = s.shown := by
  refine Schema.walkAll.induct
    (motive_1 := fun cs => Schema.walkAll.go Shown.leaf Shown.internal cs = Schema.shown.go cs)
    (motive_2 := fun s => s.walkAll Shown.leaf Shown.internal = s.shown) ?_ ?_ ?_ ?_ ?_ s
  · rfl
  · intro lk cs ih; simp [Schema.walkAll, Schema.shown, ih]
  · intro n c ih; simp [Schema.walkAll, Schema.shown, ih]
  · rfl
  · intro c cs ih1 ih2; simp [Schema.walkAll.go, Schema.shown.go, ih1, ih2]

/-- **every walker's result is a function of what the recording walker is shown**: each internal node is presented
once, with its children's walks in order and its lookup -/
theorem walkAll_factors {W : Type} (leafW : W) (internalW : List W → Lookup → W) (s : Schema) :
    s.walkAll leafW internalW = s.shown.eval leafW internalW := by
  refine Schema.walkAll.induct
    (motive_1 := fun cs => Schema.walkAll.go leafW internalW cs = Shown.eval.go leafW internalW (Schema.shown.go cs))
    (motive_2 := fun s => s.walkAll leafW internalW = s.shown.eval leafW internalW) ?_ ?_ ?_ ?_ ?_ s
  · rfl
  · intro lk cs ih; simp [Schema.walkAll, Schema.shown, Shown.eval, ih]
  · intro n c ih; simp [Schema.walkAll, Schema.shown, Shown.eval, Shown.eval.go, ih]
  · rfl
  · intro c cs ih1 ih2; simp [Schema.walkAll.go, Schema.shown.go, Shown.eval.go, ih1, ih2]

/-- number of `W::internal` calls = number of internal nodes (arrays count once), number of `W::leaf()` results used
= number of leaf *types* (an array's element type is walked once, whatever its length) -/
def Shown.internals : Shown → Nat
  | .leaf => 0
  | .internal cs _ => 1 + go cs
where
  go : List Shown → Nat
    | [] => 0
    | c :: cs => c.internals + go cs

/-- `Metadata`'s `internal`, on the model's `Meta` -/
def Meta.internalW (cs : List Meta) (lk : Lookup) : Meta :=
  match lk with
  | .homog n => (match cs with
    | [c] => Meta.zero.merge c (digits (n - 1)) n n
    | _ => Meta.zero)
  | _ => GenTie.mergeList lk cs 0 Meta.zero

/-- the metadata is the generic walk with `Metadata`'s own `leaf` / `internal` -/
theorem meta_is_walkAll (s : Schema) (hwf : s.WF) : s.meta = s.walkAll Meta.leaf Meta.internalW := by
  refine Schema.walkAll.induct
    (motive_1 := fun cs => Schema.WF.wfList cs → cs.map Schema.meta = Schema.walkAll.go Meta.leaf Meta.internalW cs)
    (motive_2 := fun s => s.WF → s.meta = s.walkAll Meta.leaf Meta.internalW) ?_ ?_ ?_ ?_ ?_ s hwf
  · intro _; rfl
  · intro lk cs ih hwf
    obtain ⟨_, _, hn, hcs⟩ := hwf
    have := ih hcs
    cases lk with
    | homog n => exact absurd hn id
    | named ns => simp [Schema.meta, Schema.walkAll, Meta.internalW, GenTie.go_eq_mergeList, this]
    | numbered n => simp [Schema.meta, Schema.walkAll, Meta.internalW, GenTie.go_eq_mergeList, this]
  · intro n c ih hwf
    simp [Schema.meta, Schema.walkAll, Meta.internalW, ih hwf.2]
  · intro _; rfl
  · intro c cs ih1 ih2 hwf
    simp [Schema.walkAll.go, ih1 hwf.1, ih2 hwf.2]

end MiniconfVerif
