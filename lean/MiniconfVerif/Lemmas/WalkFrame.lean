import MiniconfVerif.Lemmas.Walk
import MiniconfVerif.Lemmas.Chain

/-! Frame and read-back for by-key writes: a walk replaces the value of at most one leaf and
leaves every other part of the tree (structure, attributes, runtime state, all other values)
identical; a successful read through the same key afterwards returns the written value. -/
namespace MiniconfVerif
set_option autoImplicit false

/-- `t'` is `t` with the value of exactly one leaf position replaced (possibly by an equal value) -/
def Tree.One : Tree → Tree → Prop
  | .leaf k _, t' => ∃ v', t' = .leaf k v'
  | .gate g c a, t' => ∃ b, t' = .gate g c b ∧ a.One b
  | .array es, t' => ∃ es', t' = .array es' ∧ oneList es es'
  | .node f a lk fs, t' => ∃ fs', t' = .node f a lk fs' ∧ oneFs fs fs'
where
  oneList : List Tree → List Tree → Prop
    | [], _ => False
    | t :: r, l' => ∃ t' r', l' = t' :: r' ∧ ((t.One t' ∧ r = r') ∨ (t = t' ∧ oneList r r'))
  oneFs : List (Attrs × Tree) → List (Attrs × Tree) → Prop
    | [], _ => False
    | (a, t) :: r, l' => ∃ t' r', l' = (a, t') :: r' ∧ ((t.One t' ∧ r = r') ∨ (t = t' ∧ oneFs r r'))

theorem leafOp_one (io : Io) (op : Op) (k : LeafKind) (v : Val) :
    (leafOp io op k v).tree = .leaf k v ∨ (Tree.leaf k v).One (leafOp io op k v).tree := by
  cases k <;> cases op <;> simp only [leafOp] <;> (repeat' split) <;>
    first
    | (left; rfl)
    | (right; exact ⟨_, rfl⟩)

mutual
/-- **Frame**: whatever the outcome, the tree after a by-key access is the tree before, or
differs from it in the value of exactly one leaf -/
theorem walk_one (io : Io) (op : Op) :
    ∀ (t : Tree) (ks : KeySrc), (t.walk io op ks).tree = t ∨ t.One (t.walk io op ks).tree
  | .leaf k v, ks => by
    simp only [Tree.walk]
    split
    · left; rfl
    · exact leafOp_one io op k v
  | .gate g closed inner, ks => by
    simp only [Tree.walk]
    split
    · left; rfl
    · rcases walk_one io op inner ks with h | h
      · left; simp only [h]
      · right; exact ⟨_, rfl, h⟩
  | .array elems, ks => by
    simp only [Tree.walk]
    split
    · left; rfl
    · next i ks' _ =>
      rcases goArr_one io op elems i ks' with h | h
      · left; simp only [h]
      · right; exact ⟨_, rfl, h⟩
  | .node flat active lk fs, ks => by
    simp only [Tree.walk]
    split
    · left; rfl
    · next i ks' _ =>
      have hg := goFld_one io op fs i ks'
      split
      · split
        · rcases hg with h | h
          · left; simp only [h]
          · right; exact ⟨_, rfl, h⟩
        · left; rfl
      · rcases hg with h | h
        · left; simp only [h]
        · right; exact ⟨_, rfl, h⟩
theorem goArr_one (io : Io) (op : Op) :
    ∀ (es : List Tree) (i : Nat) (ks : KeySrc),
      (Tree.walk.goArr io op es i ks).2 = es ∨ Tree.One.oneList es (Tree.walk.goArr io op es i ks).2
  | [], _, _ => Or.inl rfl
  | t :: rest, 0, ks => by
    simp only [Tree.walk.goArr]
    rcases walk_one io op t ks with h | h
    · left; simp only [h]
    · right; exact ⟨_, _, rfl, Or.inl ⟨h, rfl⟩⟩
  | t :: rest, i + 1, ks => by
    simp only [Tree.walk.goArr]
    rcases goArr_one io op rest i ks with h | h
    · left; simp only [h]
    · right; exact ⟨_, _, rfl, Or.inr ⟨rfl, h⟩⟩
theorem goFld_one (io : Io) (op : Op) :
    ∀ (fs : List (Attrs × Tree)) (i : Nat) (ks : KeySrc),
      (Tree.walk.goFld io op fs i ks).2 = fs ∨ Tree.One.oneFs fs (Tree.walk.goFld io op fs i ks).2
  | [], _, _ => Or.inl rfl
  | (a, t) :: rest, 0, ks => by
    simp only [Tree.walk.goFld]
    split
    · left; rfl
    · split
      · left; rfl
      · simp only [applyValidator_tree]
        rcases walk_one io op t ks with h | h
        · left; simp only [h]
        · right; exact ⟨_, _, rfl, Or.inl ⟨h, rfl⟩⟩
  | (a, t) :: rest, i + 1, ks => by
    simp only [Tree.walk.goFld]
    rcases goFld_one io op rest i ks with h | h
    · left; simp only [h]
    · right; exact ⟨_, _, rfl, Or.inr ⟨rfl, h⟩⟩
end

/-! ## read-back -/

theorem goArr_length (io : Io) (op : Op) : ∀ (es : List Tree) (i : Nat) (ks : KeySrc),
    (Tree.walk.goArr io op es i ks).2.length = es.length
  | [], _, _ => rfl
  | t :: rest, 0, ks => by simp [Tree.walk.goArr]
  | t :: rest, i + 1, ks => by simp [Tree.walk.goArr, goArr_length io op rest i ks]

/-- a deserializing write that reports a value has stored exactly that value -/
theorem leafOp_write (io : Io) (k : LeafKind) (v v' : Val) (hw : (leafOp io .de k v).val = some v') :
    (leafOp io .de k v).tree = .leaf k v' := by
  cases k with
  | deny ty => simp [leafOp] at hw
  | leaf ty =>
    simp only [leafOp] at hw ⊢
    cases hd : io.dec (.leaf ty) with
    | none => simp [hd] at hw
    | some v1 => simp only [hd, Option.some.injEq] at hw ⊢; subst hw; rfl
  | strLeaf variants =>
    simp only [leafOp] at hw ⊢
    cases hd : io.dec (.strLeaf variants) with
    | none => simp [hd] at hw
    | some v1 =>
      cases v1 with
      | str s =>
        simp only [hd] at hw ⊢
        cases hf : variants.findIdx? (fun n => n.toList == s) with
        | none => simp [hf] at hw
        | some i => simp only [hf, Option.some.injEq] at hw ⊢; subst hw; rfl
      | _ => simp [hd] at hw

/-- a successful read of a leaf returns the value it holds -/
theorem leafOp_read (io : Io) (rop : Op) (hr : rop.isRead = true) (k : LeafKind) (v : Val)
    (hok : (leafOp io rop k v).res.isOk = true) : (leafOp io rop k v).val = some v := by
  cases k with
  | deny ty => simp [leafOp, Res.isOk] at hok
  | leaf ty =>
    cases rop with
    | ser =>
      simp only [leafOp] at hok ⊢
      cases he : io.enc (.leaf ty) v with
      | true => simp [he]
      | false => simp [he, Res.isOk] at hok
    | refAny => rfl
    | de => simp [Op.isRead] at hr
    | mutAny => simp [Op.isRead] at hr
  | strLeaf variants =>
    cases rop with
    | ser =>
      simp only [leafOp] at hok ⊢
      cases he : io.enc (.strLeaf variants) v with
      | true => simp [he]
      | false => simp [he, Res.isOk] at hok
    | refAny => simp [leafOp, Res.isOk] at hok
    | de => simp [Op.isRead] at hr
    | mutAny => simp [Op.isRead] at hr

theorem isOk_incr (r : Res) : r.incr.isOk = r.isOk := by cases r <;> rfl

theorem applyValidator_val (a : Attrs) (op : Op) (o : Out) : (applyValidator a op o).val = o.val := by
  unfold applyValidator
  split
  · split <;> rfl
  · rfl

theorem applyValidator_read (a : Attrs) (op : Op) (h : op.isRead = true) (o : Out) : applyValidator a op o = o := by
  cases op <;> simp_all [applyValidator, Op.isRead]

mutual
/-- **Read-back**: after a deserializing write that stored `v'`, a successful read through the
same key returns `v'` -/
theorem walk_readback (io io2 : Io) (rop : Op) (hr : rop.isRead = true) :
    ∀ (t : Tree) (ks : KeySrc) (v' : Val), (t.walk io .de ks).val = some v' →
      ((t.walk io .de ks).tree.walk io2 rop ks).res.isOk = true →
      ((t.walk io .de ks).tree.walk io2 rop ks).val = some v'
  | .leaf k v, ks, v' => by
    simp only [Tree.walk]
    cases hf : ks.finalize with
    | error e => simp
    | ok u =>
      simp only []
      intro hw
      have ht := leafOp_write io k v v' hw
      rw [ht]
      simp only [Tree.walk, hf]
      exact leafOp_read io2 rop hr k v'
  | .gate g closed inner, ks, v' => by
    simp only [Tree.walk]
    cases hg : gateErr g .de closed with
    | some e => simp
    | none =>
      simp only []
      intro hw
      simp only [Tree.walk]
      cases hg2 : gateErr g rop closed with
      | some e => simp [Res.isOk]
      | none =>
        simp only []
        exact walk_readback io io2 rop hr inner ks v' hw
  | .array elems, ks, v' => by
    simp only [Tree.walk]
    cases hn : ks.next (.homog elems.length) with
    | error e => simp
    | ok r =>
      obtain ⟨i, ks'⟩ := r
      simp only []
      intro hw
      simp only [Tree.walk, goArr_length, hn, isOk_incr]
      exact goArr_readback io io2 rop hr elems i ks' v' hw
  | .node flat active lk fs, ks, v' => by
    simp only [Tree.walk]
    cases hn : (if flat then Except.ok (0, ks) else ks.next lk) with
    | error e => simp
    | ok r =>
      obtain ⟨i, ks'⟩ := r
      simp only []
      have hg := goFld_readback io io2 rop hr fs i ks' v'
      cases active with
      | none =>
        simp only []
        intro hw
        simp only [Tree.walk, hn]
        intro hok
        have hok' : (Tree.walk.goFld io2 rop (Tree.walk.goFld io .de fs i ks').2 i ks').1.res.isOk = true := by
          revert hok; cases flat <;> simp [isOk_incr]
        exact hg hw hok'
      | some act =>
        simp only []
        by_cases ha : act = some i
        · simp only [ha, if_true]
          intro hw
          simp only [Tree.walk, hn, if_true]
          intro hok
          have hok' : (Tree.walk.goFld io2 rop (Tree.walk.goFld io .de fs i ks').2 i ks').1.res.isOk = true := by
            revert hok; cases flat <;> simp [isOk_incr]
          exact hg hw hok'
        · simp [ha]
theorem goArr_readback (io io2 : Io) (rop : Op) (hr : rop.isRead = true) :
    ∀ (es : List Tree) (i : Nat) (ks : KeySrc) (v' : Val), (Tree.walk.goArr io .de es i ks).1.val = some v' →
      (Tree.walk.goArr io2 rop (Tree.walk.goArr io .de es i ks).2 i ks).1.res.isOk = true →
      (Tree.walk.goArr io2 rop (Tree.walk.goArr io .de es i ks).2 i ks).1.val = some v'
  | [], _, _, _ => by simp [Tree.walk.goArr]
  | t :: rest, 0, ks, v' => by
    simp only [Tree.walk.goArr]
    exact walk_readback io io2 rop hr t ks v'
  | t :: rest, i + 1, ks, v' => by
    simp only [Tree.walk.goArr]
    exact goArr_readback io io2 rop hr rest i ks v'
theorem goFld_readback (io io2 : Io) (rop : Op) (hr : rop.isRead = true) :
    ∀ (fs : List (Attrs × Tree)) (i : Nat) (ks : KeySrc) (v' : Val), (Tree.walk.goFld io .de fs i ks).1.val = some v' →
      (Tree.walk.goFld io2 rop (Tree.walk.goFld io .de fs i ks).2 i ks).1.res.isOk = true →
      (Tree.walk.goFld io2 rop (Tree.walk.goFld io .de fs i ks).2 i ks).1.val = some v'
  | [], _, _, _ => by simp [Tree.walk.goFld]
  | (a, t) :: rest, 0, ks, v' => by
    simp only [Tree.walk.goFld]
    cases hd : a.deny .de with
    | some msg => simp
    | none =>
      simp only []
      cases hgt : a.getter .de with
      | some r =>
        obtain ⟨ev, m⟩ := r
        cases m with
        | some msg => simp
        | none =>
          simp only [applyValidator_val, applyValidator_tree]
          intro hw
          simp only [Tree.walk.goFld]
          cases a.deny rop with
          | some msg => simp [Res.isOk]
          | none =>
            simp only []
            split
            · simp [Res.isOk]
            · simp only [applyValidator_read a rop hr]
              exact walk_readback io io2 rop hr t ks v' hw
      | none =>
        simp only [applyValidator_val, applyValidator_tree]
        intro hw
        simp only [Tree.walk.goFld]
        cases a.deny rop with
        | some msg => simp [Res.isOk]
        | none =>
          simp only []
          split
          · simp [Res.isOk]
          · simp only [applyValidator_read a rop hr]
            exact walk_readback io io2 rop hr t ks v' hw
  | f :: rest, i + 1, ks, v' => by
    obtain ⟨a, t⟩ := f
    simp only [Tree.walk.goFld]
    exact goFld_readback io io2 rop hr rest i ks v'
end

/-! ## equivalent key sources -/

mutual
/-- key sources that agree step by step (same indices, same errors, same `finalize`) are
interchangeable for every by-key operation on every tree -/
theorem walk_bisim {R : KeySrc → KeySrc → Prop} (hR : Bisim R) (io : Io) (op : Op) :
    ∀ (t : Tree) (k1 k2 : KeySrc), R k1 k2 → t.walk io op k1 = t.walk io op k2
  | .leaf k v, k1, k2, h => by
    simp only [Tree.walk, hR.fin k1 k2 h]
  | .gate g closed inner, k1, k2, h => by
    simp only [Tree.walk]
    cases gateErr g op closed with
    | some e => rfl
    | none => simp only [walk_bisim hR io op inner k1 k2 h]
  | .array elems, k1, k2, h => by
    have hn := hR.next k1 k2 (.homog elems.length) h
    simp only [Tree.walk]
    cases h1 : k1.next (.homog elems.length) with
    | error e1 =>
      cases h2 : k2.next (.homog elems.length) with
      | error e2 => simp only [h1, h2] at hn; simp [hn]
      | ok r2 => simp only [h1, h2] at hn
    | ok r1 =>
      cases h2 : k2.next (.homog elems.length) with
      | error e2 => simp only [h1, h2] at hn
      | ok r2 =>
        obtain ⟨i, k1'⟩ := r1
        obtain ⟨j, k2'⟩ := r2
        simp only [h1, h2] at hn
        obtain ⟨rfl, hr⟩ := hn
        simp only [goArr_bisim hR io op elems i k1' k2' hr]
  | .node flat active lk fs, k1, k2, h => by
    simp only [Tree.walk]
    cases flat with
    | true =>
      simp only [if_true]
      simp only [goFld_bisim hR io op fs 0 k1 k2 h]
    | false =>
      have hn := hR.next k1 k2 lk h
      simp only [Bool.false_eq_true, if_false]
      cases h1 : k1.next lk with
      | error e1 =>
        cases h2 : k2.next lk with
        | error e2 => simp only [h1, h2] at hn; simp [hn]
        | ok r2 => simp only [h1, h2] at hn
      | ok r1 =>
        cases h2 : k2.next lk with
        | error e2 => simp only [h1, h2] at hn
        | ok r2 =>
          obtain ⟨i, k1'⟩ := r1
          obtain ⟨j, k2'⟩ := r2
          simp only [h1, h2] at hn
          obtain ⟨rfl, hr⟩ := hn
          simp only [goFld_bisim hR io op fs i k1' k2' hr]
theorem goArr_bisim {R : KeySrc → KeySrc → Prop} (hR : Bisim R) (io : Io) (op : Op) :
    ∀ (es : List Tree) (i : Nat) (k1 k2 : KeySrc), R k1 k2 →
      Tree.walk.goArr io op es i k1 = Tree.walk.goArr io op es i k2
  | [], _, _, _, _ => rfl
  | t :: rest, 0, k1, k2, h => by simp only [Tree.walk.goArr, walk_bisim hR io op t k1 k2 h]
  | t :: rest, i + 1, k1, k2, h => by simp only [Tree.walk.goArr, goArr_bisim hR io op rest i k1 k2 h]
theorem goFld_bisim {R : KeySrc → KeySrc → Prop} (hR : Bisim R) (io : Io) (op : Op) :
    ∀ (fs : List (Attrs × Tree)) (i : Nat) (k1 k2 : KeySrc), R k1 k2 →
      Tree.walk.goFld io op fs i k1 = Tree.walk.goFld io op fs i k2
  | [], _, _, _, _ => rfl
  | (a, t) :: rest, 0, k1, k2, h => by simp only [Tree.walk.goFld, walk_bisim hR io op t k1 k2 h]
  | f :: rest, i + 1, k1, k2, h => by
    obtain ⟨a, t⟩ := f
    simp only [Tree.walk.goFld, goFld_bisim hR io op rest i k1 k2 h]
end

end MiniconfVerif

namespace MiniconfVerif
set_option autoImplicit false

theorem applyValidator_leaf (a : Attrs) (op : Op) (o : Out) : (applyValidator a op o).leaf = o.leaf := by
  unfold applyValidator
  split
  · split <;> rfl
  · rfl

theorem leafOp_ser_val (io : Io) (k : LeafKind) (v0 v : Val) (ty : Ty) (hv : (leafOp io .ser k v0).val = some v)
    (hk : (leafOp io .ser k v0).leaf = some (.leaf ty)) : k = .leaf ty ∧ v = v0 := by
  have hk' : k = .leaf ty := by
    cases k <;> simp_all [leafOp]
  subst hk'
  refine ⟨rfl, ?_⟩
  simp only [leafOp] at hv
  split at hv
  · simp only [Option.some.injEq] at hv; exact hv.symm
  · cases hv

mutual
/-- **Write-back is the identity**: if serializing by a key yields the value `v` of a plain
leaf, then deserializing `v` by the same key leaves the whole tree unchanged, whatever the
write's outcome (denied, refused by an accessor, validated, rejected) -/
theorem walk_writeback (io io' : Io) (v : Val) (ty : Ty) (hdec : io'.dec (.leaf ty) = some v) :
    ∀ (t : Tree) (ks : KeySrc), (t.walk io .ser ks).val = some v → (t.walk io .ser ks).leaf = some (.leaf ty) →
      (t.walk io' .de ks).tree = t
  | .leaf k v0, ks => by
    simp only [Tree.walk]
    cases hf : ks.finalize with
    | error e => simp
    | ok u =>
      simp only []
      intro hv hk
      obtain ⟨rfl, rfl⟩ := leafOp_ser_val io k v0 v ty hv hk
      simp [leafOp, hdec]
  | .gate g closed inner, ks => by
    simp only [Tree.walk]
    cases hg : gateErr g .ser closed with
    | some e => simp
    | none =>
      simp only []
      intro hv hk
      cases hg2 : gateErr g .de closed with
      | some e => rfl
      | none => simp only [walk_writeback io io' v ty hdec inner ks hv hk]
  | .array elems, ks => by
    simp only [Tree.walk]
    cases hn : ks.next (.homog elems.length) with
    | error e => simp
    | ok r =>
      obtain ⟨i, ks'⟩ := r
      simp only []
      intro hv hk
      simp only [goArr_writeback io io' v ty hdec elems i ks' hv hk]
  | .node flat active lk fs, ks => by
    simp only [Tree.walk]
    cases hn : (if flat then Except.ok (0, ks) else ks.next lk) with
    | error e => simp
    | ok r =>
      obtain ⟨i, ks'⟩ := r
      simp only []
      have hg := goFld_writeback io io' v ty hdec fs i ks'
      cases active with
      | none =>
        simp only []
        intro hv hk
        simp only [hg hv hk]
      | some act =>
        simp only []
        by_cases ha : act = some i
        · simp only [ha, if_true]
          intro hv hk
          simp only [hg hv hk]
        · simp [ha]
theorem goArr_writeback (io io' : Io) (v : Val) (ty : Ty) (hdec : io'.dec (.leaf ty) = some v) :
    ∀ (es : List Tree) (i : Nat) (ks : KeySrc), (Tree.walk.goArr io .ser es i ks).1.val = some v →
      (Tree.walk.goArr io .ser es i ks).1.leaf = some (.leaf ty) → (Tree.walk.goArr io' .de es i ks).2 = es
  | [], _, _ => fun _ _ => rfl
  | t :: rest, 0, ks => by
    simp only [Tree.walk.goArr]
    intro hv hk
    simp only [walk_writeback io io' v ty hdec t ks hv hk]
  | t :: rest, i + 1, ks => by
    simp only [Tree.walk.goArr]
    intro hv hk
    simp only [goArr_writeback io io' v ty hdec rest i ks hv hk]
theorem goFld_writeback (io io' : Io) (v : Val) (ty : Ty) (hdec : io'.dec (.leaf ty) = some v) :
    ∀ (fs : List (Attrs × Tree)) (i : Nat) (ks : KeySrc), (Tree.walk.goFld io .ser fs i ks).1.val = some v →
      (Tree.walk.goFld io .ser fs i ks).1.leaf = some (.leaf ty) → (Tree.walk.goFld io' .de fs i ks).2 = fs
  | [], _, _ => fun _ _ => rfl
  | (a, t) :: rest, 0, ks => by
    simp only [Tree.walk.goFld]
    cases hd : a.deny .ser with
    | some msg => simp
    | none =>
      simp only []
      have hread : ∀ o : Out, applyValidator a .ser o = o := fun o => applyValidator_read a .ser rfl o
      cases hgt : a.getter .ser with
      | some r =>
        obtain ⟨ev, m⟩ := r
        cases m with
        | some msg => simp
        | none =>
          simp only [hread]
          intro hv hk
          cases a.deny .de with
          | some msg => rfl
          | none =>
            simp only []
            split
            · rfl
            · simp only [applyValidator_tree, walk_writeback io io' v ty hdec t ks hv hk]
      | none =>
        simp only [hread]
        intro hv hk
        cases a.deny .de with
        | some msg => rfl
        | none =>
          simp only []
          split
          · rfl
          · simp only [applyValidator_tree, walk_writeback io io' v ty hdec t ks hv hk]
  | f :: rest, i + 1, ks => by
    obtain ⟨a, t⟩ := f
    simp only [Tree.walk.goFld]
    intro hv hk
    simp only [goFld_writeback io io' v ty hdec rest i ks hv hk]
end

end MiniconfVerif
