import MiniconfVerif.Lemmas.WalkFrame

/-! Histories of by-key accesses: everything except leaf values is invariant. -/
namespace MiniconfVerif
set_option autoImplicit false

/-- the tree with every leaf value forgotten: structure, lookups, attributes, runtime state of
Options / enums / wrappers, leaf kinds -/
def Tree.skel : Tree → Tree
  | .leaf k _ => .leaf k .unit
  | .gate g c a => .gate g c a.skel
  | .array es => .array (skelList es)
  | .node f a lk fs => .node f a lk (skelFs fs)
where
  skelList : List Tree → List Tree
    | [] => []
    | t :: r => t.skel :: skelList r
  skelFs : List (Attrs × Tree) → List (Attrs × Tree)
    | [] => []
    | (a, t) :: r => (a, t.skel) :: skelFs r

mutual
theorem one_skel : ∀ (t t' : Tree), t.One t' → t.skel = t'.skel
  | .leaf k v, t', h => by
    obtain ⟨v', rfl⟩ := h
    rfl
  | .gate g c a, t', h => by
    obtain ⟨b, rfl, hab⟩ := h
    simp only [Tree.skel, one_skel a b hab]
  | .array es, t', h => by
    obtain ⟨es', rfl, hl⟩ := h
    simp only [Tree.skel, oneList_skel es es' hl]
  | .node f a lk fs, t', h => by
    obtain ⟨fs', rfl, hl⟩ := h
    simp only [Tree.skel, oneFs_skel fs fs' hl]
theorem oneList_skel : ∀ (l l' : List Tree), Tree.One.oneList l l' → Tree.skel.skelList l = Tree.skel.skelList l'
  | [], _, h => by simp [Tree.One.oneList] at h
  | t :: r, l', h => by
    obtain ⟨t', r', rfl, h⟩ := h
    rcases h with ⟨h1, rfl⟩ | ⟨rfl, h2⟩
    · simp only [Tree.skel.skelList, one_skel t t' h1]
    · simp only [Tree.skel.skelList, oneList_skel r r' h2]
theorem oneFs_skel : ∀ (l l' : List (Attrs × Tree)), Tree.One.oneFs l l' → Tree.skel.skelFs l = Tree.skel.skelFs l'
  | [], _, h => by simp [Tree.One.oneFs] at h
  | (a, t) :: r, l', h => by
    obtain ⟨t', r', rfl, h⟩ := h
    rcases h with ⟨h1, rfl⟩ | ⟨rfl, h2⟩
    · simp only [Tree.skel.skelFs, one_skel t t' h1]
    · simp only [Tree.skel.skelFs, oneFs_skel r r' h2]
end

theorem skelList_length : ∀ es : List Tree, (Tree.skel.skelList es).length = es.length
  | [] => rfl
  | _ :: r => by simp [Tree.skel.skelList, skelList_length r]

mutual
/-- the type of a tree does not depend on its leaf values -/
theorem erase_skel : ∀ t : Tree, t.skel.erase = t.erase
  | .leaf k v => rfl
  | .gate g c a => by simp only [Tree.skel, Tree.erase, erase_skel a]
  | .array es => by
    cases es with
    | nil => rfl
    | cons t r => simp [Tree.skel, Tree.skel.skelList, Tree.erase, erase_skel t, skelList_length r]
  | .node f a lk fs => by
    cases f with
    | true =>
      match fs with
      | [] => rfl
      | [(a0, t0)] => simp [Tree.skel, Tree.skel.skelFs, Tree.erase, erase_skel t0]
      | (a0, t0) :: (a1, t1) :: rest => simp [Tree.skel, Tree.skel.skelFs, Tree.erase]
    | false =>
      simp only [Tree.skel]
      unfold Tree.erase
      simp [eraseFs_skel fs]
theorem eraseFs_skel : ∀ fs : List (Attrs × Tree), Tree.erase.eraseFs (Tree.skel.skelFs fs) = Tree.erase.eraseFs fs
  | [] => rfl
  | (a, t) :: r => by simp [Tree.skel.skelFs, Tree.erase.eraseFs, erase_skel t, eraseFs_skel r]
end

/-- a history: operations with their (de)serializer and key source, applied in order -/
def Tree.runOps (t : Tree) : List (Io × Op × KeySrc) → Tree
  | [] => t
  | (io, op, ks) :: r => Tree.runOps (t.walk io op ks).tree r

theorem runOps_skel (ops : List (Io × Op × KeySrc)) : ∀ t : Tree, (t.runOps ops).skel = t.skel := by
  induction ops with
  | nil => intro t; rfl
  | cons o r ih =>
    intro t
    obtain ⟨io, op, ks⟩ := o
    simp only [Tree.runOps]
    rw [ih]
    rcases walk_one io op t ks with h | h
    · rw [h]
    · exact (one_skel _ _ h).symm

theorem runOps_reads (ops : List (Io × Op × KeySrc)) (hr : ∀ o ∈ ops, o.2.1.isRead = true) :
    ∀ t : Tree, t.runOps ops = t := by
  induction ops with
  | nil => intro t; rfl
  | cons o r ih =>
    intro t
    obtain ⟨io, op, ks⟩ := o
    have h1 : op.isRead = true := hr (io, op, ks) (by simp)
    simp only [Tree.runOps]
    rw [walk_read_tree io op h1 t ks]
    exact ih (fun o ho => hr o (by simp [ho])) t

end MiniconfVerif
