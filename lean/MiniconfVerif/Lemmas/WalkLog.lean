import MiniconfVerif.Lemmas.Walk

/-! The call log of a by-key access: accessor calls first (top-down), validator calls last
(bottom-up), validators only after the leaf access succeeded. -/
namespace MiniconfVerif
set_option autoImplicit false

def Res.okOrInvalid : Res → Bool
  | .ok _ => true
  | .trav (.invalid _ _) => true
  | _ => false

theorem okOrInvalid_incr (r : Res) : r.incr.okOrInvalid = r.okOrInvalid := by
  cases r with
  | trav t => cases t <;> rfl
  | _ => rfl

/-- accessor calls, then validator calls; validator calls only if the result is `Ok` or a
validator rejection -/
def LogShape (log : List Ev) (res : Res) : Prop :=
  ∃ g v, log = g ++ v ∧ (∀ e ∈ g, e.isValidate = false) ∧ (∀ e ∈ v, e.isValidate = true) ∧
    (v ≠ [] → res.okOrInvalid = true)

theorem logShape_nil (r : Res) : LogShape [] r := ⟨[], [], rfl, by simp, by simp, by simp⟩

theorem logShape_incr (log : List Ev) (r : Res) (h : LogShape log r) : LogShape log r.incr := by
  obtain ⟨g, v, h1, h2, h3, h4⟩ := h
  exact ⟨g, v, h1, h2, h3, by rw [okOrInvalid_incr]; exact h4⟩

theorem logShape_up (log : List Ev) (r : Res) (flat : Bool) (h : LogShape log r) :
    LogShape log (if flat then r else r.incr) := by
  cases flat
  · exact logShape_incr log r h
  · exact h

/-- one field: accessor call in front, validator call (if any) at the end -/
theorem logShape_field (a : Attrs) (op : Op) (o : Out) (h : LogShape o.log o.res) :
    LogShape (applyValidator a op { o with log := getterLog (a.getter op) ++ o.log }).log
      (applyValidator a op { o with log := getterLog (a.getter op) ++ o.log }).res := by
  obtain ⟨g, v, h1, h2, h3, h4⟩ := h
  have hgl := getterLog_no_validate a op
  have hg' : ∀ e ∈ getterLog (a.getter op) ++ g, e.isValidate = false := by
    intro e he
    simp only [List.mem_append] at he
    rcases he with he | he
    · exact hgl e he
    · exact h2 e he
  have plain : LogShape (getterLog (a.getter op) ++ o.log) o.res :=
    ⟨getterLog (a.getter op) ++ g, v, by simp [h1], hg', h3, h4⟩
  have withV : ∀ (d : Nat) (r' : Res), r'.okOrInvalid = true →
      LogShape (getterLog (a.getter op) ++ o.log ++ [Ev.validate a.id d]) r' := by
    intro d r' hr'
    refine ⟨getterLog (a.getter op) ++ g, v ++ [Ev.validate a.id d], by rw [h1]; simp, hg', ?_, fun _ => hr'⟩
    intro e he
    simp only [List.mem_append, List.mem_singleton] at he
    rcases he with he | he
    · exact h3 e he
    · rw [he]; rfl
  cases op with
  | de =>
    cases hres : o.res with
    | ok d =>
      cases hv : a.validate with
      | none => simp only [applyValidator, hres, hv]; rw [← hres]; exact plain
      | some vr =>
        cases vr with
        | keep => simp only [applyValidator, hres, hv]; exact withV d _ rfl
        | replace k => simp only [applyValidator, hres, hv]; exact withV d _ rfl
        | err msg => simp only [applyValidator, hres, hv]; exact withV d _ rfl
    | trav t => simp only [applyValidator, hres]; rw [← hres]; exact plain
    | inner d => simp only [applyValidator, hres]; rw [← hres]; exact plain
    | final => simp only [applyValidator, hres]; rw [← hres]; exact plain
  | ser => simp only [applyValidator]; exact plain
  | refAny => simp only [applyValidator]; exact plain
  | mutAny => simp only [applyValidator]; exact plain

mutual
theorem walk_logShape (io : Io) (op : Op) :
    ∀ (t : Tree) (ks : KeySrc), LogShape (t.walk io op ks).log (t.walk io op ks).res
  | .leaf k v, ks => by
    simp only [Tree.walk]
    split
    · exact logShape_nil _
    · rw [leafOp_log]; exact logShape_nil _
  | .gate g closed inner, ks => by
    simp only [Tree.walk]
    split
    · exact logShape_nil _
    · exact walk_logShape io op inner ks
  | .array elems, ks => by
    simp only [Tree.walk]
    split
    · exact logShape_nil _
    · exact logShape_incr _ _ (goArr_logShape io op elems _ _)
  | .node flat active lk fs, ks => by
    simp only [Tree.walk]
    split
    · exact logShape_nil _
    · next i ks' _ =>
      split
      · split
        · exact logShape_up _ _ flat (goFld_logShape io op fs i ks')
        · exact logShape_nil _
      · exact logShape_up _ _ flat (goFld_logShape io op fs i ks')
theorem goArr_logShape (io : Io) (op : Op) :
    ∀ (es : List Tree) (i : Nat) (ks : KeySrc),
      LogShape (Tree.walk.goArr io op es i ks).1.log (Tree.walk.goArr io op es i ks).1.res
  | [], _, _ => logShape_nil _
  | t :: rest, 0, ks => by simp only [Tree.walk.goArr]; exact walk_logShape io op t ks
  | t :: rest, i + 1, ks => by simp only [Tree.walk.goArr]; exact goArr_logShape io op rest i ks
theorem goFld_logShape (io : Io) (op : Op) :
    ∀ (fs : List (Attrs × Tree)) (i : Nat) (ks : KeySrc),
      LogShape (Tree.walk.goFld io op fs i ks).1.log (Tree.walk.goFld io op fs i ks).1.res
  | [], _, _ => logShape_nil _
  | (a, t) :: rest, 0, ks => by
    simp only [Tree.walk.goFld]
    split
    · exact logShape_nil _
    · split
      · next ev msg hg =>
        refine ⟨[ev], [], rfl, ?_, by simp, by simp⟩
        intro e he
        simp only [List.mem_singleton] at he
        rw [he]
        exact getterLog_no_validate a op ev (by simp [hg, getterLog])
      · next g hg =>
        have := logShape_field a op (t.walk io op ks) (walk_logShape io op t ks)
        exact this
  | f :: rest, i + 1, ks => by
    obtain ⟨a, t⟩ := f
    simp only [Tree.walk.goFld]; exact goFld_logShape io op rest i ks
end

end MiniconfVerif
