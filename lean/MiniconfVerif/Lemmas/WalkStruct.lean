import MiniconfVerif.Lemmas.Walk

/-! The structural outcome of every by-key operation is that of the type-level traversal
of the erased type, unless an absent variant / closed container / denied or failing
accessor / (de)serializer / validator pre-empts it. -/
namespace MiniconfVerif
set_option autoImplicit false

/-- outcomes that depend on the runtime state or the value -/
def Res.preempt : Res → Bool
  | .trav (.absent _) | .trav (.access _ _) | .trav (.invalid _ _) | .trav (.panic _) | .inner _ | .final => true
  | _ => false

/-- agreement of an operation's result `r` with the type-level traversal's `r0`: pre-empted,
or identical, or both reached a leaf (a validator may replace the reported depth) -/
def Agree (r r0 : Res) : Prop := r.preempt = true ∨ r = r0 ∨ (∃ d d', r = .ok d ∧ r0 = .ok d')

theorem preempt_incr (r : Res) : r.incr.preempt = r.preempt := by
  cases r with
  | trav t => cases t <;> rfl
  | _ => rfl

theorem agree_incr (r r0 : Res) (h : Agree r r0) : Agree r.incr r0.incr := by
  rcases h with h | h | ⟨d, d', h1, h2⟩
  · left; rw [preempt_incr]; exact h
  · right; left; rw [h]
  · right; right; exact ⟨d + 1, d' + 1, by rw [h1]; rfl, by rw [h2]; rfl⟩

/-- the callback of a plain lookup -/
def cb0 : Unit → CbArg → Option Unit := fun _ _ => some ()

/-- structural well-formedness of a runtime tree: field lists match their lookup, a
flattened container has exactly one field, array elements have one type -/
def Tree.WF : Tree → Prop
  | .leaf _ _ => True
  | .gate _ _ inner => inner.WF
  | .array elems => wfArr elems
  | .node flat _ lk fs => (if flat then fs.length = 1 else fs.length = lk.len) ∧ wfFs fs
where
  wfArr : List Tree → Prop
    | [] => True
    | t :: rest => t.WF ∧ (∀ u ∈ rest.head?, u.erase = t.erase) ∧ wfArr rest
  wfFs : List (Attrs × Tree) → Prop
    | [] => True
    | (_, t) :: rest => t.WF ∧ wfFs rest

/-- every index a key source yields is in range -/
theorem next_lt : ∀ (ks : KeySrc) (lk : Lookup) (i : Nat) (ks' : KeySrc), ks.next lk = .ok (i, ks') → i < lk.len
  | .list [], lk, i, ks', h => by simp [KeySrc.next] at h
  | .list (k :: rest), lk, i, ks', h => by
    simp only [KeySrc.next] at h
    cases hf : k.find lk with
    | error e => simp [hf] at h
    | ok j =>
      simp only [hf, Except.ok.injEq, Prod.mk.injEq] at h
      obtain ⟨rfl, _⟩ := h
      cases k with
      | int v =>
        simp only [Key.find] at hf
        split at hf
        · next hc => simp only [Except.ok.injEq] at hf; rw [← hf]; exact hc.2.2
        · cases hf
      | str s =>
        simp only [Key.find] at hf
        cases lk with
        | named ns =>
          simp only [] at hf
          cases hfi : ns.findIdx? (fun n => n.toList == s) with
          | none => simp [hfi] at hf
          | some j' =>
            simp only [hfi, Except.ok.injEq] at hf
            subst hf
            have := List.findIdx?_eq_some_iff_findIdx_eq.mp hfi
            simpa [Lookup.len] using this.1
        | numbered n =>
          simp only [] at hf
          cases hp : parseUsize s with
          | none => simp [hp] at hf
          | some j' =>
            simp only [hp] at hf
            split at hf
            · next hlt => simp only [Except.ok.injEq] at hf; subst hf; exact hlt
            · cases hf
        | homog n =>
          simp only [] at hf
          cases hp : parseUsize s with
          | none => simp [hp] at hf
          | some j' =>
            simp only [hp] at hf
            split at hf
            · next hlt => simp only [Except.ok.injEq] at hf; subst hf; exact hlt
            · cases hf
  | .packed w, lk, i, ks', h => by
    simp only [KeySrc.next] at h
    split at h
    · cases h
    · split at h
      · cases h
      · split at h
        · cases h
        · split at h
          · next hlt => simp only [Except.ok.injEq, Prod.mk.injEq] at h; rw [← h.1]; exact hlt
          · cases h
  | .chain a b, lk, i, ks', h => by
    simp only [KeySrc.next] at h
    cases ha : a.next lk with
    | ok r =>
      obtain ⟨j, a'⟩ := r
      simp only [ha, Except.ok.injEq, Prod.mk.injEq] at h
      rw [← h.1]; exact next_lt a lk j a' ha
    | error e =>
      simp only [ha] at h
      cases e with
      | tooShort d =>
        simp only [] at h
        cases hb : b.next lk with
        | ok r =>
          obtain ⟨j, b'⟩ := r
          simp only [hb, Except.ok.injEq, Prod.mk.injEq] at h
          rw [← h.1]; exact next_lt b lk j b' hb
        | error e' => simp [hb] at h
      | _ => simp at h
  | .consume a, lk, i, ks', h => by
    simp only [KeySrc.next] at h
    cases ha : a.next lk with
    | ok r =>
      obtain ⟨j, a'⟩ := r
      simp only [ha, Except.ok.injEq, Prod.mk.injEq] at h
      rw [← h.1]; exact next_lt a lk j a' ha
    | error e => simp [ha] at h

theorem leafOp_agree (io : Io) (op : Op) (k : LeafKind) (v : Val) : Agree (leafOp io op k v).res (.ok 0) := by
  cases k <;> cases op <;> simp only [leafOp] <;> (repeat' split) <;>
    first
    | (right; left; rfl)
    | (left; rfl)

theorem applyValidator_agree (a : Attrs) (op : Op) (o : Out) (r0 : Res) (h : Agree o.res r0) :
    Agree (applyValidator a op o).res r0 := by
  cases op with
  | de =>
    cases hres : o.res with
    | ok d =>
      cases hv : a.validate with
      | none => simp only [applyValidator, hres, hv]; rw [← hres]; exact h
      | some v =>
        cases v with
        | keep => simp only [applyValidator, hres, hv]; rw [← hres]; exact h
        | replace k =>
          simp only [applyValidator, hres, hv]
          rcases h with h | h | ⟨d1, d', _, h2⟩
          · rw [hres] at h; simp [Res.preempt] at h
          · right; right; exact ⟨k, d, rfl, by rw [← h, hres]⟩
          · right; right; exact ⟨k, d', rfl, h2⟩
        | err msg => simp only [applyValidator, hres, hv]; left; rfl
    | trav t => simp only [applyValidator, hres]; rw [← hres]; exact h
    | inner d => simp only [applyValidator, hres]; rw [← hres]; exact h
    | final => simp only [applyValidator, hres]; rw [← hres]; exact h
  | ser => simp only [applyValidator]; exact h
  | refAny => simp only [applyValidator]; exact h
  | mutAny => simp only [applyValidator]; exact h

theorem erase_node_false (a : Option (Option Nat)) (lk : Lookup) (fs : List (Attrs × Tree)) :
    (Tree.node false a lk fs).erase = .node lk (Tree.erase.eraseFs fs) := by
  cases fs with
  | nil => rfl
  | cons f rest => cases rest <;> rfl

theorem eraseFs_getElem : ∀ (fs : List (Attrs × Tree)) (i : Nat) (h : i < fs.length),
    (Tree.erase.eraseFs fs)[i]? = some (fs[i]).2.erase
  | [], i, h => by simp at h
  | (a, t) :: rest, 0, _ => by simp [Tree.erase.eraseFs]
  | (a, t) :: rest, i + 1, h => by
    simp only [Tree.erase.eraseFs, List.getElem?_cons_succ, List.getElem_cons_succ]
    exact eraseFs_getElem rest i (by simpa using h)

theorem wfArr_erase : ∀ (es : List Tree) (t : Tree), Tree.WF.wfArr (t :: es) → ∀ e ∈ es, e.erase = t.erase
  | [], _, _, e, he => by simp at he
  | u :: rest, t, h, e, he => by
    obtain ⟨_, h1, h2⟩ := h
    have hu : u.erase = t.erase := h1 u (by simp)
    simp only [List.mem_cons] at he
    rcases he with rfl | he
    · exact hu
    · rw [← hu]; exact wfArr_erase rest u h2 e he

mutual
/-- **Structural agreement**: for every operation, runtime state, codec and key source -/
theorem walk_agree (io : Io) (op : Op) :
    ∀ (t : Tree) (ks : KeySrc), t.WF → Agree (t.walk io op ks).res (t.erase.traverse cb0 ks ()).1
  | .leaf k v, ks, _ => by
    simp only [Tree.walk, Tree.erase, Schema.traverse]
    cases ks.finalize with
    | error e => right; left; rfl
    | ok u => exact leafOp_agree io op k v
  | .gate g closed inner, ks, h => by
    simp only [Tree.walk, Tree.erase]
    cases hg : gateErr g op closed with
    | some e =>
      left
      simp only []
      revert hg
      cases g <;> cases op <;> cases closed <;> simp [gateErr] <;> (intro h; subst h; rfl)
    | none => exact walk_agree io op inner ks h
  | .array elems, ks, h => by
    simp only [Tree.walk]
    cases elems with
    | nil =>
      simp only [Tree.erase, Schema.traverse, List.length_nil]
      cases hn : ks.next (.homog 0) with
      | error e => right; left; rfl
      | ok r =>
        obtain ⟨i, ks'⟩ := r
        have := next_lt ks _ i ks' hn
        simp [Lookup.len] at this
    | cons t rest =>
      simp only [Tree.erase, Schema.traverse]
      cases hn : ks.next (.homog (t :: rest).length) with
      | error e => right; left; rfl
      | ok r =>
        obtain ⟨i, ks'⟩ := r
        have hlt := next_lt ks _ i ks' hn
        simp only [Lookup.len] at hlt
        simp only [cb0]
        apply agree_incr
        exact goArr_agree io op (t :: rest) i ks' t.erase h
          (fun e he => by
            simp only [List.mem_cons] at he
            rcases he with rfl | he
            · rfl
            · exact wfArr_erase rest t h e he) hlt
  | .node flat active lk fs, ks, h => by
    obtain ⟨hlen, hfs⟩ := h
    cases flat with
    | true =>
      simp only [if_true] at hlen
      match fs, hlen, hfs with
      | [(a, t)], _, hfs =>
        simp only [Tree.walk, Tree.erase, if_true]
        have hg := goFld_agree io op [(a, t)] 0 ks hfs (by simp)
        simp only [Tree.erase.eraseFs, Schema.traverse.go] at hg
        cases active with
        | none => exact hg
        | some act =>
          simp only []
          split
          · exact hg
          · left; rfl
    | false =>
      simp only [Bool.false_eq_true, if_false] at hlen
      rw [erase_node_false]
      simp only [Tree.walk, Bool.false_eq_true, if_false, Schema.traverse]
      cases hn : ks.next lk with
      | error e => right; left; rfl
      | ok r =>
        obtain ⟨i, ks'⟩ := r
        have hlt := next_lt ks _ i ks' hn
        rw [← hlen] at hlt
        simp only [cb0]
        have hg := goFld_agree io op fs i ks' hfs hlt
        cases active with
        | none => exact agree_incr _ _ hg
        | some act =>
          simp only []
          split
          · exact agree_incr _ _ hg
          · left; rfl
theorem goArr_agree (io : Io) (op : Op) :
    ∀ (es : List Tree) (i : Nat) (ks : KeySrc) (c : Schema), Tree.WF.wfArr es → (∀ e ∈ es, e.erase = c) → i < es.length →
      Agree (Tree.walk.goArr io op es i ks).1.res (c.traverse cb0 ks ()).1
  | [], i, _, _, _, _, h => by simp at h
  | t :: rest, 0, ks, c, hwf, hc, _ => by
    simp only [Tree.walk.goArr]
    rw [← hc t (by simp)]
    exact walk_agree io op t ks hwf.1
  | t :: rest, i + 1, ks, c, hwf, hc, h => by
    simp only [Tree.walk.goArr]
    exact goArr_agree io op rest i ks c hwf.2.2 (fun e he => hc e (by simp [he])) (by simpa using h)
theorem goFld_agree (io : Io) (op : Op) :
    ∀ (fs : List (Attrs × Tree)) (i : Nat) (ks : KeySrc), Tree.WF.wfFs fs → i < fs.length →
      Agree (Tree.walk.goFld io op fs i ks).1.res (Schema.traverse.go cb0 (Tree.erase.eraseFs fs) i ks ()).1
  | [], i, _, _, h => by simp at h
  | (a, t) :: rest, 0, ks, hwf, _ => by
    simp only [Tree.walk.goFld, Tree.erase.eraseFs, Schema.traverse.go]
    cases a.deny op with
    | some msg => left; rfl
    | none =>
      simp only []
      split
      · left; rfl
      · apply applyValidator_agree
        exact walk_agree io op t ks hwf.1
  | f :: rest, i + 1, ks, hwf, h => by
    obtain ⟨a, t⟩ := f
    simp only [Tree.walk.goFld, Tree.erase.eraseFs, Schema.traverse.go]
    exact goFld_agree io op rest i ks hwf.2 (by simpa using h)
end

end MiniconfVerif
