import MiniconfVerif.Lemmas.WalkStruct
import MiniconfVerif.Lemmas.PackedLsb

/-! Totality: no by-key operation reaches a panic site, for any key source and payload, on
any well-formed tree whose nodes have at most 2^63 children. -/
namespace MiniconfVerif
open MiniconfVerif.Gen.Packed MiniconfVerif.PackedWord
set_option autoImplicit false

def Res.isPanic : Res → Bool
  | .trav t => t.isPanic
  | _ => false

theorem isPanic_incr (r : Res) : r.incr.isPanic = r.isPanic := by
  cases r with
  | trav t => cases t <;> rfl
  | _ => rfl

/-- the lookup is narrow enough for a packed key (at most 2^63 children) -/
def Lookup.fits (lk : Lookup) : Prop := keyBits (BitVec.ofNat 64 lk.len) ≤ 63

theorem find_no_panic (k : Key) (lk : Lookup) : ∀ e, k.find lk = .error e → e.isPanic = false := by
  intro e h
  cases k with
  | int v =>
    simp only [Key.find] at h
    split at h
    · cases h
    · cases h; rfl
  | str s =>
    simp only [Key.find] at h
    cases lk with
    | named ns =>
      simp only [] at h
      cases hfi : ns.findIdx? (fun n => n.toList == s) with
      | none => rw [hfi] at h; cases h; rfl
      | some i => rw [hfi] at h; cases h
    | numbered n =>
      simp only [] at h
      cases hp : parseUsize s with
      | none => rw [hp] at h; cases h; rfl
      | some i =>
        rw [hp] at h
        simp only [] at h
        split at h
        · cases h
        · cases h; rfl
    | homog n =>
      simp only [] at h
      cases hp : parseUsize s with
      | none => rw [hp] at h; cases h; rfl
      | some i =>
        rw [hp] at h
        simp only [] at h
        split at h
        · cases h
        · cases h; rfl

/-- no key source makes `Keys::next` panic on a lookup that fits -/
theorem next_no_panic : ∀ (ks : KeySrc) (lk : Lookup), lk.fits → ∀ e, ks.next lk = .error e → e.isPanic = false
  | .list [], lk, _, e, h => by simp only [KeySrc.next] at h; cases h; rfl
  | .list (k :: rest), lk, _, e, h => by
    simp only [KeySrc.next] at h
    cases hf : k.find lk with
    | ok i => simp [hf] at h
    | error e' =>
      simp only [hf, Except.error.injEq] at h
      subst h
      exact find_no_panic k lk e' hf
  | .packed w, lk, hfit, e, h => by
    obtain ⟨h1, h2⟩ := popMsb_no_panic w _ hfit
    simp only [KeySrc.next, h1, h2, Bool.not_true, Bool.false_eq_true, if_false] at h
    split at h
    · cases h; rfl
    · split at h
      · cases h
      · cases h; rfl
  | .chain a b, lk, hfit, e, h => by
    simp only [KeySrc.next] at h
    cases ha : a.next lk with
    | ok r => simp [ha] at h
    | error ea =>
      have hpa := next_no_panic a lk hfit ea ha
      simp only [ha] at h
      cases ea with
      | tooShort d =>
        simp only [] at h
        cases hb : b.next lk with
        | ok r => simp [hb] at h
        | error eb =>
          simp only [hb, Except.error.injEq] at h
          subst h
          exact next_no_panic b lk hfit eb hb
      | absent d => simp only [Except.error.injEq] at h; subst h; rfl
      | notFound d => simp only [Except.error.injEq] at h; subst h; rfl
      | tooLong d => simp only [Except.error.injEq] at h; subst h; rfl
      | access d m => simp only [Except.error.injEq] at h; subst h; rfl
      | invalid d m => simp only [Except.error.injEq] at h; subst h; rfl
      | panic s => simp [Trav.isPanic] at hpa
  | .consume a, lk, hfit, e, h => by
    simp only [KeySrc.next] at h
    cases ha : a.next lk with
    | ok r => simp [ha] at h
    | error ea =>
      simp only [ha, Except.error.injEq] at h
      subst h
      exact next_no_panic a lk hfit ea ha

theorem finalize_no_panic : ∀ (ks : KeySrc) (e : Trav), ks.finalize = .error e → e.isPanic = false
  | .list [], e, h => by simp [KeySrc.finalize] at h
  | .list (_ :: _), e, h => by simp only [KeySrc.finalize] at h; cases h; rfl
  | .packed w, e, h => by
    simp only [KeySrc.finalize] at h
    split at h
    · cases h
    · cases h; rfl
  | .chain a b, e, h => by
    simp only [KeySrc.finalize] at h
    cases ha : a.finalize with
    | ok u => simp only [ha] at h; exact finalize_no_panic b e h
    | error ea => simp only [ha, Except.error.injEq] at h; subst h; exact finalize_no_panic a ea ha
  | .consume _, e, h => by simp [KeySrc.finalize] at h

/-- the only error `finalize` reports is `TooLong(0)` -/
theorem finalize_err : ∀ (ks : KeySrc) (e : Trav), ks.finalize = .error e → e = .tooLong 0
  | .list [], e, h => by simp [KeySrc.finalize] at h
  | .list (_ :: _), e, h => by simp only [KeySrc.finalize] at h; cases h; rfl
  | .packed w, e, h => by
    simp only [KeySrc.finalize] at h
    split at h
    · cases h
    · cases h; rfl
  | .chain a b, e, h => by
    simp only [KeySrc.finalize] at h
    cases ha : a.finalize with
    | ok u => simp only [ha] at h; exact finalize_err b e h
    | error ea => simp only [ha, Except.error.injEq] at h; subst h; exact finalize_err a ea ha
  | .consume _, e, h => by simp [KeySrc.finalize] at h

theorem find_err (k : Key) (lk : Lookup) (e : Trav) (h : k.find lk = .error e) : e = .notFound 1 := by
  cases k with
  | int v =>
    simp only [Key.find] at h
    split at h
    · cases h
    · cases h; rfl
  | str s =>
    simp only [Key.find] at h
    cases lk with
    | named ns =>
      simp only [] at h
      cases hfi : ns.findIdx? (fun n => n.toList == s) with
      | none => rw [hfi] at h; cases h; rfl
      | some i => rw [hfi] at h; cases h
    | numbered n =>
      simp only [] at h
      cases hp : parseUsize s with
      | none => rw [hp] at h; cases h; rfl
      | some i =>
        rw [hp] at h
        simp only [] at h
        split at h
        · cases h
        · cases h; rfl
    | homog n =>
      simp only [] at h
      cases hp : parseUsize s with
      | none => rw [hp] at h; cases h; rfl
      | some i =>
        rw [hp] at h
        simp only [] at h
        split at h
        · cases h
        · cases h; rfl

/-- the only errors `Keys::next` reports: key exhausted `TooShort(0)`, no such child
`NotFound(1)` (or, in the model, a panic site) -/
theorem next_err : ∀ (ks : KeySrc) (lk : Lookup) (e : Trav), ks.next lk = .error e →
    e = .tooShort 0 ∨ e = .notFound 1 ∨ e.isPanic = true
  | .list [], lk, e, h => by simp only [KeySrc.next] at h; cases h; exact Or.inl rfl
  | .list (k :: rest), lk, e, h => by
    simp only [KeySrc.next] at h
    cases hf : k.find lk with
    | ok i => simp [hf] at h
    | error e' =>
      simp only [hf, Except.error.injEq] at h
      subst h
      exact Or.inr (Or.inl (find_err k lk e' hf))
  | .packed w, lk, e, h => by
    simp only [KeySrc.next] at h
    split at h
    · cases h; exact Or.inr (Or.inr rfl)
    · split at h
      · cases h; exact Or.inl rfl
      · split at h
        · cases h; exact Or.inr (Or.inr rfl)
        · split at h
          · cases h
          · cases h; exact Or.inr (Or.inl rfl)
  | .chain a b, lk, e, h => by
    simp only [KeySrc.next] at h
    cases ha : a.next lk with
    | ok r => simp [ha] at h
    | error ea =>
      have hpa := next_err a lk ea ha
      simp only [ha] at h
      cases ea with
      | tooShort d =>
        simp only [] at h
        cases hb : b.next lk with
        | ok r => simp [hb] at h
        | error eb =>
          simp only [hb, Except.error.injEq] at h
          subst h
          exact next_err b lk eb hb
      | absent d => simp only [Except.error.injEq] at h; subst h; simpa [Trav.isPanic] using hpa
      | notFound d => simp only [Except.error.injEq] at h; subst h; exact hpa
      | tooLong d => simp only [Except.error.injEq] at h; subst h; exact hpa
      | access d m => simp only [Except.error.injEq] at h; subst h; exact hpa
      | invalid d m => simp only [Except.error.injEq] at h; subst h; exact hpa
      | panic s => simp only [Except.error.injEq] at h; subst h; exact hpa
  | .consume a, lk, e, h => by
    simp only [KeySrc.next] at h
    cases ha : a.next lk with
    | ok r => simp [ha] at h
    | error ea =>
      simp only [ha, Except.error.injEq] at h
      subst h
      exact next_err a lk ea ha

/-- every lookup in the tree fits -/
def Tree.Fits : Tree → Prop
  | .leaf _ _ => True
  | .gate _ _ inner => inner.Fits
  | .array elems => (Lookup.homog elems.length).fits ∧ fitsArr elems
  | .node _ _ lk fs => lk.fits ∧ fitsFs fs
where
  fitsArr : List Tree → Prop
    | [] => True
    | t :: rest => t.Fits ∧ fitsArr rest
  fitsFs : List (Attrs × Tree) → Prop
    | [] => True
    | (_, t) :: rest => t.Fits ∧ fitsFs rest

theorem leafOp_no_panic (io : Io) (op : Op) (k : LeafKind) (v : Val) : (leafOp io op k v).res.isPanic = false := by
  cases k <;> cases op <;> simp only [leafOp] <;> (repeat' split) <;> rfl

theorem gateErr_no_panic (g : GateKind) (op : Op) (c : Bool) (e : Trav) (h : gateErr g op c = some e) :
    e.isPanic = false := by
  revert h
  cases g <;> cases op <;> cases c <;> simp [gateErr] <;> (intro h; subst h; rfl)

theorem applyValidator_no_panic (a : Attrs) (op : Op) (o : Out) (h : o.res.isPanic = false) :
    (applyValidator a op o).res.isPanic = false := by
  unfold applyValidator
  split
  · split
    · exact h
    · rfl
    · rfl
  · exact h

mutual
/-- **Totality of the by-key operations** -/
theorem walk_no_panic (io : Io) (op : Op) :
    ∀ (t : Tree) (ks : KeySrc), t.WF → t.Fits → (t.walk io op ks).res.isPanic = false
  | .leaf k v, ks, _, _ => by
    simp only [Tree.walk]
    cases hf : ks.finalize with
    | error e => exact finalize_no_panic ks e hf
    | ok u => exact leafOp_no_panic io op k v
  | .gate g closed inner, ks, hwf, hfit => by
    simp only [Tree.walk]
    cases hg : gateErr g op closed with
    | some e => exact gateErr_no_panic g op closed e hg
    | none => exact walk_no_panic io op inner ks hwf hfit
  | .array elems, ks, hwf, hfit => by
    simp only [Tree.walk]
    cases hn : ks.next (.homog elems.length) with
    | error e => exact next_no_panic ks _ hfit.1 e hn
    | ok r =>
      obtain ⟨i, ks'⟩ := r
      have hlt := next_lt ks _ i ks' hn
      simp only [isPanic_incr]
      exact goArr_no_panic io op elems i ks' hwf hfit.2 (by simpa [Lookup.len] using hlt)
  | .node flat active lk fs, ks, hwf, hfit => by
    obtain ⟨hlen, hfs⟩ := hwf
    simp only [Tree.walk]
    cases flat with
    | true =>
      simp only [if_true] at hlen
      simp only [if_true]
      have hg := goFld_no_panic io op fs 0 ks hfs hfit.2 (by omega)
      cases active with
      | none => exact hg
      | some act =>
        simp only []
        split
        · exact hg
        · rfl
    | false =>
      simp only [Bool.false_eq_true, if_false] at hlen ⊢
      cases hn : ks.next lk with
      | error e => exact next_no_panic ks _ hfit.1 e hn
      | ok r =>
        obtain ⟨i, ks'⟩ := r
        have hlt := next_lt ks _ i ks' hn
        have hg := goFld_no_panic io op fs i ks' hfs hfit.2 (by omega)
        cases active with
        | none => simp only [isPanic_incr]; exact hg
        | some act =>
          simp only []
          split
          · simp only [isPanic_incr]; exact hg
          · rfl
theorem goArr_no_panic (io : Io) (op : Op) :
    ∀ (es : List Tree) (i : Nat) (ks : KeySrc), Tree.WF.wfArr es → Tree.Fits.fitsArr es → i < es.length →
      (Tree.walk.goArr io op es i ks).1.res.isPanic = false
  | [], i, _, _, _, h => by simp at h
  | t :: rest, 0, ks, hwf, hfit, _ => by
    simp only [Tree.walk.goArr]; exact walk_no_panic io op t ks hwf.1 hfit.1
  | t :: rest, i + 1, ks, hwf, hfit, h => by
    simp only [Tree.walk.goArr]
    exact goArr_no_panic io op rest i ks hwf.2.2 hfit.2 (by simpa using h)
theorem goFld_no_panic (io : Io) (op : Op) :
    ∀ (fs : List (Attrs × Tree)) (i : Nat) (ks : KeySrc), Tree.WF.wfFs fs → Tree.Fits.fitsFs fs → i < fs.length →
      (Tree.walk.goFld io op fs i ks).1.res.isPanic = false
  | [], i, _, _, _, h => by simp at h
  | (a, t) :: rest, 0, ks, hwf, hfit, _ => by
    simp only [Tree.walk.goFld]
    cases a.deny op with
    | some msg => rfl
    | none =>
      simp only []
      split
      · rfl
      · apply applyValidator_no_panic
        exact walk_no_panic io op t ks hwf.1 hfit.1
  | f :: rest, i + 1, ks, hwf, hfit, h => by
    obtain ⟨a, t⟩ := f
    simp only [Tree.walk.goFld]
    exact goFld_no_panic io op rest i ks hwf.2 hfit.2 (by simpa using h)
end

/-- every lookup of the type fits -/
def Schema.Fits : Schema → Prop
  | .leaf => True
  | .node lk cs => lk.fits ∧ fitsList cs
  | .array n c => (Lookup.homog n).fits ∧ c.Fits
where
  fitsList : List Schema → Prop
    | [] => True
    | c :: cs => c.Fits ∧ fitsList cs

mutual
/-- **Totality of the type-level traversal** (`traverse_by_key`, hence `transcode` and `nodes()`
with a callback that does not panic itself) -/
theorem traverse_no_panic {σ : Type} (cb : σ → CbArg → Option σ) :
    ∀ (s : Schema) (ks : KeySrc) (st : σ), s.WF → s.Fits → (s.traverse cb ks st).1.isPanic = false
  | .leaf, ks, st, _, _ => by
    simp only [Schema.traverse]
    cases hf : ks.finalize with
    | error e => exact finalize_no_panic ks e hf
    | ok u => rfl
  | .node lk cs, ks, st, hwf, hfit => by
    simp only [Schema.traverse]
    cases hn : ks.next lk with
    | error e => exact next_no_panic ks _ hfit.1 e hn
    | ok r =>
      obtain ⟨i, ks'⟩ := r
      have hlt := next_lt ks _ i ks' hn
      simp only []
      cases cb st ⟨i, lk.name? i, lk.len⟩ with
      | none => rfl
      | some st' =>
        simp only [isPanic_incr]
        exact traverse_go_no_panic cb cs i ks' st' hwf.2.2.2 hfit.2 (by rw [hwf.1]; exact hlt)
  | .array n c, ks, st, hwf, hfit => by
    simp only [Schema.traverse]
    cases hn : ks.next (.homog n) with
    | error e => exact next_no_panic ks _ hfit.1 e hn
    | ok r =>
      obtain ⟨i, ks'⟩ := r
      simp only []
      cases cb st ⟨i, none, n⟩ with
      | none => rfl
      | some st' =>
        simp only [isPanic_incr]
        exact traverse_no_panic cb c ks' st' hwf.2 hfit.2
theorem traverse_go_no_panic {σ : Type} (cb : σ → CbArg → Option σ) :
    ∀ (cs : List Schema) (i : Nat) (ks : KeySrc) (st : σ), Schema.WF.wfList cs → Schema.Fits.fitsList cs → i < cs.length →
      (Schema.traverse.go cb cs i ks st).1.isPanic = false
  | [], i, _, _, _, _, h => by simp at h
  | c :: _, 0, ks, st, hwf, hfit, _ => by
    simp only [Schema.traverse.go]; exact traverse_no_panic cb c ks st hwf.1 hfit.1
  | _ :: cs, i + 1, ks, st, hwf, hfit, h => by
    simp only [Schema.traverse.go]
    exact traverse_go_no_panic cb cs i ks st hwf.2 hfit.2 (by simpa using h)
end

end MiniconfVerif
