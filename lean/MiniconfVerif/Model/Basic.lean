/-! Errors, lookups and keys (`error.rs`, `key.rs`).  Core Lean only. -/
namespace MiniconfVerif

/-- `miniconf::Traversal` -/
inductive Trav where
  | absent (d : Nat)
  | tooShort (d : Nat)
  | notFound (d : Nat)
  | tooLong (d : Nat)
  | access (d : Nat) (msg : String)
  | invalid (d : Nat) (msg : String)
  /-- model artifact: the Rust code would panic at `site` (never a `Traversal` value);
  propagates like an error so that "no panic" is a statement about results -/
  | panic (site : String)
  deriving Repr, DecidableEq, Inhabited

/-- `Traversal::increment` -/
def Trav.incr : Trav → Trav
  | .absent d => .absent (d + 1)
  | .tooShort d => .tooShort (d + 1)
  | .notFound d => .notFound (d + 1)
  | .tooLong d => .tooLong (d + 1)
  | .access d m => .access (d + 1) m
  | .invalid d m => .invalid (d + 1) m
  | .panic s => .panic s

def Trav.depth : Trav → Nat
  | .absent d | .tooShort d | .notFound d | .tooLong d | .access d _ | .invalid d _ => d
  | .panic _ => 0

def Trav.isPanic : Trav → Bool
  | .panic _ => true
  | _ => false

/-- `Result<usize, Error<E>>`: `inner` = `Error::Inner(depth, _)` ((de)serialization or
callback failure), `final` = `Error::Finalization`. -/
inductive Res where
  | ok (d : Nat)
  | trav (t : Trav)
  | inner (d : Nat)
  | final
  deriving Repr, DecidableEq, Inhabited

/-- `Error::increment_result` -/
def Res.incr : Res → Res
  | .ok d => .ok (d + 1)
  | .trav t => .trav t.incr
  | .inner d => .inner (d + 1)
  | .final => .final

def Res.isOk : Res → Bool
  | .ok _ => true
  | _ => false

/-- `KeyLookup` -/
inductive Lookup where
  | named (names : List String)
  | numbered (n : Nat)
  | homog (n : Nat)
  deriving Repr, DecidableEq, Inhabited

def Lookup.len : Lookup → Nat
  | .named ns => ns.length
  | .numbered n | .homog n => n

/-- `KeyLookup::lookup`: index → name -/
def Lookup.name? : Lookup → Nat → Option String
  | .named ns, i => ns[i]?
  | _, _ => none

/-- a single key: `&str`, or an integer of any width (`try_into::<usize>()`) -/
inductive Key where
  | str (s : List Char)
  | int (v : Int)
  deriving Repr, DecidableEq, Inhabited

def isDigit (c : Char) : Bool := '0' ≤ c && c ≤ '9'

def digitsVal : List Char → Nat → Nat
  | [], acc => acc
  | c :: cs, acc => digitsVal cs (acc * 10 + (c.toNat - '0'.toNat))

/-- decimal digits of a natural number, most significant first (`itoa`) -/
def itoa (n : Nat) : List Char :=
  if h : n < 10 then [Char.ofNat (48 + n)] else itoa (n / 10) ++ [Char.ofNat (48 + n % 10)]
decreasing_by omega

/-- number of decimal digits (`checked_ilog10().unwrap_or_default() + 1`) -/
def digits (n : Nat) : Nat :=
  if h : n < 10 then 1 else 1 + digits (n / 10)
decreasing_by omega

/-- Rust `usize::from_str`: optional `+`, at least one ASCII digit, nothing else, value
below 2^64.  (A leading `-` is rejected for unsigned types.) -/
def parseUsize (s : List Char) : Option Nat :=
  let ds := match s with
    | '+' :: rest => rest
    | _ => s
  if ds.isEmpty || !ds.all isDigit then none
  else
    let v := digitsVal ds 0
    if v < 2 ^ 64 then some v else none

/-- `Key::find` -/
def Key.find (lk : Lookup) : Key → Except Trav Nat
  | .int v =>
    if 0 ≤ v ∧ v < 2 ^ 64 ∧ v.toNat < lk.len then .ok v.toNat else .error (.notFound 1)
  | .str s =>
    match lk with
    | .named ns =>
      match ns.findIdx? (fun n => n.toList == s) with
      | some i => .ok i
      | none => .error (.notFound 1)
    | .numbered n | .homog n =>
      match parseUsize s with
      | some i => if i < n then .ok i else .error (.notFound 1)
      | none => .error (.notFound 1)

end MiniconfVerif
