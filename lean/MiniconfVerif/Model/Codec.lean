import MiniconfVerif.Model.Basic
import MiniconfVerif.Model.Val
import MiniconfVerif.Model.PathIter

/-! Executable model of the two wire formats as the helpers `json::{get,set}_by_key` and
`postcard::{get,set}_by_key` see them (serde-json-core 0.6 / postcard 1.x on the leaf
value universe `Ty`).  JSON text is a `List Char` (lengths in UTF-8 bytes), postcard is a
list of bytes.  Floats are opaque: not encoded/decoded by the model. -/
namespace MiniconfVerif.Codec
open MiniconfVerif MiniconfVerif.PathIter

/-! ## JSON -/

def encInt (v : Int) : List Char :=
  if v < 0 then '-' :: itoa (-v).toNat else itoa v.toNat

def intMin (signed : Bool) (bits : Nat) : Int := if signed then -(2 ^ (bits - 1) : Int) else 0
def intMax (signed : Bool) (bits : Nat) : Int := if signed then 2 ^ (bits - 1) - 1 else 2 ^ bits - 1

def joinWith (sep : List Char) : List (List Char) → List Char
  | [] => []
  | [x] => x
  | x :: xs => x ++ sep ++ joinWith sep xs

mutual
def jsonEnc : Ty → Val → Option (List Char)
  | .int _ _, .int v => some (encInt v)
  | .bool, .bool b => some (if b then "true".toList else "false".toList)
  | .string _, .str s => some ('"' :: s ++ ['"'])
  | .opt _, .none => some "null".toList
  | .opt t, .some v => jsonEnc t v
  | .arr _ t, .arr vs => (jsonEncList t vs).map fun xs => '[' :: joinWith [','] xs ++ [']']
  | .unit, .unit => some "null".toList
  | .struct fs, .struct vs => (jsonEncFields fs vs).map fun xs => '{' :: joinWith [','] xs ++ ['}']
  | .unitEnum names, .variant i => names[i]?.map fun n => '"' :: n.toList ++ ['"']
  | _, _ => none
def jsonEncList (t : Ty) : List Val → Option (List (List Char))
  | [] => some []
  | v :: vs => do
    let x ← jsonEnc t v
    let xs ← jsonEncList t vs
    some (x :: xs)
def jsonEncFields : List (String × Ty) → List Val → Option (List (List Char))
  | [], [] => some []
  | (n, t) :: fs, v :: vs => do
    let x ← jsonEnc t v
    let xs ← jsonEncFields fs vs
    some (('"' :: n.toList ++ ['"', ':'] ++ x) :: xs)
  | _, _ => none
end

def isWs (c : Char) : Bool := c == ' ' || c == '\n' || c == '\t' || c == '\r'
def skipWs (s : List Char) : List Char := s.dropWhile isWs

/-- serde-json-core number scanning: a leading `0` is a complete number; otherwise all
following ASCII digits belong to it -/
def scanNat : List Char → Option (Nat × List Char)
  | '0' :: rest => some (0, rest)
  | c :: rest =>
    if isDigit c then
      let ds := (c :: rest).takeWhile isDigit
      some (digitsVal ds 0, (c :: rest).dropWhile isDigit)
    else none
  | [] => none

def decInt (signed : Bool) (bits : Nat) (s : List Char) : Option (Val × List Char) :=
  let s := skipWs s
  match s with
  | '-' :: rest =>
    if !signed then none else
    match scanNat rest with
    | some (n, r) => if -(n : Int) ≥ intMin signed bits then some (.int (-(n : Int)), r) else none
    | none => none
  | _ =>
    match scanNat s with
    | some (n, r) => if (n : Int) ≤ intMax signed bits then some (.int n, r) else none
    | none => none

def stripLit (lit : List Char) (s : List Char) : Option (List Char) :=
  if lit.isPrefixOf s then some (s.drop lit.length) else none

/-- a JSON string without escape handling: up to the next `"`; a backslash makes the
model give up (`none` = error; escapes are outside the modelled input class) -/
def decStrBody : List Char → Option (List Char × List Char)
  | [] => none
  | '"' :: rest => some ([], rest)
  | '\\' :: _ => none
  | c :: rest => (decStrBody rest).map fun (s, r) => (c :: s, r)

def decString (s : List Char) : Option (List Char × List Char) :=
  match skipWs s with
  | '"' :: rest => decStrBody rest
  | _ => none

mutual
/-- decode one value of type `t`; returns the value and the unread rest -/
def jsonDec : Ty → List Char → Option (Val × List Char)
  | .int sg b, s => decInt sg b s
  | .bool, s =>
    let s := skipWs s
    match stripLit "true".toList s with
    | some r => some (.bool true, r)
    | none => (stripLit "false".toList s).map fun r => (.bool false, r)
  | .string cap, s =>
    match decString s with
    | some (str, r) =>
      match cap with
      | some n => if byteLen str ≤ n then some (.str str, r) else none
      | none => some (.str str, r)
    | none => none
  | .opt t, s =>
    let s' := skipWs s
    match stripLit "null".toList s' with
    | some r => some (.none, r)
    | none => (jsonDec t s').map fun (v, r) => (.some v, r)
  | .unit, s => (stripLit "null".toList (skipWs s)).map fun r => (.unit, r)
  | .arr n t, s =>
    match skipWs s with
    | '[' :: rest =>
      match jsonDecElems t n rest true with
      | some (vs, r) => some (.arr vs, r)
      | none => none
    | _ => none
  | .struct fs, s =>
    match skipWs s with
    | '{' :: rest =>
      match jsonDecFields fs rest true with
      | some (vs, r) => some (.struct vs, r)
      | none => none
    | _ => none
  | .unitEnum names, s =>
    match decString s with
    | some (str, r) =>
      match names.findIdx? (fun n => n.toList == str) with
      | some i => some (.variant i, r)
      | none => none
    | none => none
  | .float _, _ => none
/-- exactly `n` elements then `]` -/
def jsonDecElems (t : Ty) : Nat → List Char → Bool → Option (List Val × List Char)
  | 0, s, _ =>
    match skipWs s with
    | ']' :: r => some ([], r)
    | _ => none
  | n + 1, s, first =>
    let s := skipWs s
    let s? := if first then some s else
      match s with
      | ',' :: r => some r
      | _ => none
    match s? with
    | none => none
    | some s =>
      match jsonDec t s with
      | some (v, r) => (jsonDecElems t n r false).map fun (vs, r') => (v :: vs, r')
      | none => none
/-- fields in declaration order (the canonical encoding), then `}` -/
def jsonDecFields : List (String × Ty) → List Char → Bool → Option (List Val × List Char)
  | [], s, _ =>
    match skipWs s with
    | '}' :: r => some ([], r)
    | _ => none
  | (name, t) :: fs, s, first =>
    let s := skipWs s
    let s? := if first then some s else
      match s with
      | ',' :: r => some r
      | _ => none
    match s? with
    | none => none
    | some s =>
      match decString s with
      | some (k, r) =>
        if k != name.toList then none else
        match skipWs r with
        | ':' :: r2 =>
          match jsonDec t r2 with
          | some (v, r3) => (jsonDecFields fs r3 false).map fun (vs, r') => (v :: vs, r')
          | none => none
        | _ => none
      | none => none
end

/-- result of the helper `json::set_by_key` at the leaf: decode, then `de.end()`:
only whitespace may remain.  `(value?, finalizationOk, consumed bytes)` -/
def jsonSetLeaf (t : Ty) (payload : List Char) : Option (Val × Bool × Nat) :=
  match jsonDec t payload with
  | none => none
  | some (v, rest) =>
    let rest' := skipWs rest
    some (v, rest'.isEmpty, byteLen payload - byteLen rest')

/-! ## postcard -/

abbrev Bytes := List Nat

def varint (n : Nat) : Bytes :=
  if h : n < 128 then [n] else (n % 128 + 128) :: varint (n / 128)
decreasing_by omega

def zigzag (v : Int) : Nat := if v ≥ 0 then 2 * v.toNat else 2 * (-v).toNat - 1
def unzigzag (n : Nat) : Int := if n % 2 = 0 then (n / 2 : Nat) else -((n / 2 + 1 : Nat) : Int)

def utf8Enc (c : Char) : Bytes :=
  let n := c.toNat
  if n < 0x80 then [n]
  else if n < 0x800 then [0xC0 + n / 64, 0x80 + n % 64]
  else if n < 0x10000 then [0xE0 + n / 4096, 0x80 + (n / 64) % 64, 0x80 + n % 64]
  else [0xF0 + n / 262144, 0x80 + (n / 4096) % 64, 0x80 + (n / 64) % 64, 0x80 + n % 64]

def utf8Bytes (s : List Char) : Bytes := s.flatMap utf8Enc

mutual
def pcEnc : Ty → Val → Option Bytes
  | .int sg bits, .int v =>
    if bits = 8 then some [(if v < 0 then (v + 256).toNat else v.toNat)]
    else if sg then some (varint (zigzag v)) else some (varint v.toNat)
  | .bool, .bool b => some [if b then 1 else 0]
  | .string _, .str s => let b := utf8Bytes s; some (varint b.length ++ b)
  | .opt _, .none => some [0]
  | .opt t, .some v => (pcEnc t v).map (1 :: ·)
  | .arr _ t, .arr vs => pcEncList t vs
  | .unit, .unit => some []
  | .struct fs, .struct vs => pcEncFields fs vs
  | .unitEnum _, .variant i => some (varint i)
  | _, _ => none
def pcEncList (t : Ty) : List Val → Option Bytes
  | [] => some []
  | v :: vs => do
    let x ← pcEnc t v
    let xs ← pcEncList t vs
    some (x ++ xs)
def pcEncFields : List (String × Ty) → List Val → Option Bytes
  | [], [] => some []
  | (_, t) :: fs, v :: vs => do
    let x ← pcEnc t v
    let xs ← pcEncFields fs vs
    some (x ++ xs)
  | _, _ => none
end

/-- LEB128 with postcard's limits: at most `maxBytes` bytes, value below `2^bits` -/
def unvarint (bits maxBytes : Nat) : Nat → Bytes → Nat → Nat → Option (Nat × Bytes)
  | 0, _, _, _ => none
  | _ + 1, [], _, _ => none
  | fuel + 1, b :: rest, shift, acc =>
    let acc' := acc + (b % 128) * 2 ^ shift
    if b < 128 then (if acc' < 2 ^ bits then some (acc', rest) else none)
    else if shift / 7 + 1 ≥ maxBytes then none
    else unvarint bits maxBytes fuel rest (shift + 7) acc'

def maxVarBytes (bits : Nat) : Nat := (bits + 6) / 7

/-- minimal UTF-8 decoder (rejects malformed sequences; overlong forms are not generated) -/
def utf8Dec : Nat → Bytes → Option (List Char)
  | 0, _ => none
  | _ + 1, [] => some []
  | fuel + 1, b :: rest =>
    if b < 0x80 then (utf8Dec fuel rest).map (Char.ofNat b :: ·)
    else if 0xC2 ≤ b ∧ b < 0xE0 then
      match rest with
      | b1 :: r => if 0x80 ≤ b1 ∧ b1 < 0xC0 then (utf8Dec fuel r).map (Char.ofNat ((b - 0xC0) * 64 + (b1 - 0x80)) :: ·) else none
      | _ => none
    else if 0xE0 ≤ b ∧ b < 0xF0 then
      match rest with
      | b1 :: b2 :: r =>
        if 0x80 ≤ b1 ∧ b1 < 0xC0 ∧ 0x80 ≤ b2 ∧ b2 < 0xC0 then
          (utf8Dec fuel r).map (Char.ofNat ((b - 0xE0) * 4096 + (b1 - 0x80) * 64 + (b2 - 0x80)) :: ·)
        else none
      | _ => none
    else if 0xF0 ≤ b ∧ b < 0xF5 then
      match rest with
      | b1 :: b2 :: b3 :: r =>
        if 0x80 ≤ b1 ∧ b1 < 0xC0 ∧ 0x80 ≤ b2 ∧ b2 < 0xC0 ∧ 0x80 ≤ b3 ∧ b3 < 0xC0 then
          (utf8Dec fuel r).map (Char.ofNat ((b - 0xF0) * 262144 + (b1 - 0x80) * 4096 + (b2 - 0x80) * 64 + (b3 - 0x80)) :: ·)
        else none
      | _ => none
    else none

mutual
def pcDec : Ty → Bytes → Option (Val × Bytes)
  | .int sg bits, s =>
    if bits = 8 then
      match s with
      | b :: r => some (.int (if sg ∧ b ≥ 128 then (b : Int) - 256 else b), r)
      | [] => none
    else
      match unvarint bits (maxVarBytes bits) (maxVarBytes bits + 1) s 0 0 with
      | some (n, r) => some (.int (if sg then unzigzag n else n), r)
      | none => none
  | .bool, s =>
    match s with
    | 0 :: r => some (.bool false, r)
    | 1 :: r => some (.bool true, r)
    | _ => none
  | .string cap, s =>
    match unvarint 64 10 11 s 0 0 with
    | some (n, r) =>
      if r.length < n then none else
      match utf8Dec (n + 1) (r.take n) with
      | some str =>
        match cap with
        | some c => if n ≤ c then some (.str str, r.drop n) else none
        | none => some (.str str, r.drop n)
      | none => none
    | none => none
  | .opt t, s =>
    match s with
    | 0 :: r => some (.none, r)
    | 1 :: r => (pcDec t r).map fun (v, r') => (.some v, r')
    | _ => none
  | .unit, s => some (.unit, s)
  | .arr n t, s => (pcDecList t n s).map fun (vs, r) => (.arr vs, r)
  | .struct fs, s => (pcDecFields fs s).map fun (vs, r) => (.struct vs, r)
  | .unitEnum names, s =>
    match unvarint 32 5 6 s 0 0 with
    | some (i, r) => if i < names.length then some (.variant i, r) else none
    | none => none
  | .float _, _ => none
def pcDecList (t : Ty) : Nat → Bytes → Option (List Val × Bytes)
  | 0, s => some ([], s)
  | n + 1, s =>
    match pcDec t s with
    | some (v, r) => (pcDecList t n r).map fun (vs, r') => (v :: vs, r')
    | none => none
def pcDecFields : List (String × Ty) → Bytes → Option (List Val × Bytes)
  | [], s => some ([], s)
  | (_, t) :: fs, s =>
    match pcDec t s with
    | some (v, r) => (pcDecFields fs r).map fun (vs, r') => (v :: vs, r')
    | none => none
end

end MiniconfVerif.Codec
