import MiniconfVerif.Model.Basic

/-! The glue of the (de)serialization helpers `json::{set,get}_by_key` / `postcard::{set,get}_by_key`: the by-key walk
first, the (de)serializer's finalization last. -/
namespace MiniconfVerif

/-- what a helper returns: a count (bytes consumed / written / left), the walk's error, or `Error::Finalization` -/
inductive HelperOut where
  | ok (n : Nat)
  | walk (r : Res)
  | final
  deriving Repr, DecidableEq, Inhabited

/-- `set_by_key`: `tree.deserialize_by_key(keys, &mut de)?; de.end().map_err(Error::Finalization)` — the finalization
check (`endRes`: `none` = trailing data) is consulted only after a successful walk (which has already written the leaf) -/
def setThenEnd (walkRes : Res) (endRes : Option Nat) : HelperOut :=
  match walkRes with
  | .ok _ =>
    match endRes with
    | some n => .ok n
    | none => .final
  | r => .walk r

/-- `get_by_key`: `tree.serialize_by_key(keys, &mut ser)?; Ok(ser.end())` -/
def getThenEnd (walkRes : Res) (written : Nat) : HelperOut :=
  match walkRes with
  | .ok _ => .ok written
  | r => .walk r

end MiniconfVerif
