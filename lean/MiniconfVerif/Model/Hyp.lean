import MiniconfVerif.Model.Tree

/-! Decidable versions of the well-formedness hypotheses the theorems carry, evaluated by the
driver on every type and instance of the correspondence corpus (streams `Tw`, `Vw`), so that
the evidence shows the theorems are not vacuous on what is run.  Soundness
(`…B = true → …`) is proved in `Lemmas/Hyp.lean`. -/
namespace MiniconfVerif
open MiniconfVerif.Gen.Packed

def Lookup.fitsB (lk : Lookup) : Bool := decide (keyBits (BitVec.ofNat 64 lk.len) ≤ 63)

def Schema.wfB : Schema → Bool
  | .leaf => true
  | .node lk cs =>
    decide (cs.length = lk.len) && decide (0 < lk.len) &&
      (match lk with | .named ns => decide ns.Nodup | .numbered _ => true | .homog _ => false) && go cs
  | .array n c => decide (0 < n) && c.wfB
where
  go : List Schema → Bool
    | [] => true
    | c :: cs => c.wfB && go cs

/-- decidable sufficient condition for `Small` -/
def Schema.smallB : Schema → Bool
  | .leaf => true
  | .node _ cs => decide (cs.length ≤ 2 ^ 64) && go cs
  | .array n c => decide (n ≤ 2 ^ 64) && c.smallB
where
  go : List Schema → Bool
    | [] => true
    | c :: cs => c.smallB && go cs

def Schema.fitsB : Schema → Bool
  | .leaf => true
  | .node lk cs => lk.fitsB && go cs
  | .array n c => (Lookup.homog n).fitsB && c.fitsB
where
  go : List Schema → Bool
    | [] => true
    | c :: cs => c.fitsB && go cs

/-- structural equality of schemas (array element types of one instance must coincide) -/
def Schema.beq : Schema → Schema → Bool
  | .leaf, .leaf => true
  | .node lk cs, .node lk' cs' => decide (lk = lk') && go cs cs'
  | .array n c, .array n' c' => decide (n = n') && c.beq c'
  | _, _ => false
where
  go : List Schema → List Schema → Bool
    | [], [] => true
    | c :: cs, c' :: cs' => c.beq c' && go cs cs'
    | _, _ => false

def Tree.wfB : Tree → Bool
  | .leaf _ _ => true
  | .gate _ _ inner => inner.wfB
  | .array elems => goArr elems
  | .node flat _ lk fs => (if flat then decide (fs.length = 1) else decide (fs.length = lk.len)) && goFs fs
where
  goArr : List Tree → Bool
    | [] => true
    | t :: rest => t.wfB && (match rest with | [] => true | u :: _ => u.erase.beq t.erase) && goArr rest
  goFs : List (Attrs × Tree) → Bool
    | [] => true
    | (_, t) :: rest => t.wfB && goFs rest

def Tree.fitsB : Tree → Bool
  | .leaf _ _ => true
  | .gate _ _ inner => inner.fitsB
  | .array elems => (Lookup.homog elems.length).fitsB && goArr elems
  | .node _ _ lk fs => lk.fitsB && goFs fs
where
  goArr : List Tree → Bool
    | [] => true
    | t :: rest => t.fitsB && goArr rest
  goFs : List (Attrs × Tree) → Bool
    | [] => true
    | (_, t) :: rest => t.fitsB && goFs rest

end MiniconfVerif
