import MiniconfVerif.Model.Transcode

/-! `NodeIter` (iter.rs): an odometer over an index array, driven through the ordinary
key lookup with always-finalizing keys. -/
namespace MiniconfVerif

structure IterSt where
  state : List Nat      -- `[usize; D]`
  root : Nat
  depth : Nat
  deriving Repr, DecidableEq, Inhabited

/-- `NodeIter::default()` -/
def IterSt.init (D : Nat) : IterSt := ⟨List.replicate D 0, 0, D + 1⟩

inductive IterItem where
  | node (tgt : Target) (n : NodeRes)   -- `Ok((N, Node))`
  | capErr (d : Nat)                    -- `Err(depth)`
  deriving Repr, Inhabited, DecidableEq

inductive IterStep where
  | done                       -- `None`
  | retry (it : IterSt)        -- `continue`
  | yield (x : IterItem) (it : IterSt)
  | panic (site : String)
  deriving Repr, Inhabited, DecidableEq

def stateKeys (st : List Nat) : KeySrc := .consume (.list (st.map fun (i : Nat) => Key.int (Int.ofNat i)))

/-- one pass through the `loop` body of `NodeIter::next` -/
def IterSt.step (s : Schema) (D : Nat) (fresh : Target) (it : IterSt) : IterStep :=
  if it.depth = it.root then .done else
  -- `self.state[self.depth - 1] += 1` when not in the initial state
  if it.depth ≤ D ∧ it.depth = 0 then .panic "index underflow" else
  let state := if it.depth ≤ D then it.state.modify (it.depth - 1) (· + 1) else it.state
  let notFound (d : Nat) : IterStep :=
    if d = 0 ∨ d > state.length then .panic "reset index" else
    .retry ⟨state.set (d - 1) 0, it.root, max (d - 1) it.root⟩
  match s.transcode (stateKeys state) fresh with
  | (.err (.notFound d), _) => notFound d
  | (.leaf d, tgt) => .yield (.node tgt (.leaf d)) ⟨state, it.root, d⟩
  | (.internal d, tgt) => .yield (.node tgt (.internal d)) ⟨state, it.root, d⟩
  | (.err (.tooShort cd), _) =>
    -- the target lacks capacity: look the node itself up to continue after it
    match s.transcode (stateKeys state) .unit with
    | (.leaf d, _) | (.internal d, _) => .yield (.capErr cd) ⟨state, it.root, d⟩
    | (.err (.notFound d), _) => notFound d
    | _ => .panic "unreachable"
  | _ => .panic "unreachable"

/-- `NodeIter::next`: `none` = out of fuel (proved unreachable for adequate fuel) -/
def IterSt.next (s : Schema) (D : Nat) (fresh : Target) : Nat → IterSt → Option (IterStep)
  | 0, _ => none
  | fuel + 1, it =>
    match it.step s D fresh with
    | .retry it' => IterSt.next s D fresh fuel it'
    | r => some r

/-- `NodeIter::root(keys)`: transcode the root key into the state -/
def IterSt.withRoot (s : Schema) (D : Nat) (ks : KeySrc) : Except Trav IterSt :=
  match s.transcode ks (.idx [] D (2 ^ 64 - 1)) with
  | (.err e, _) => .error e
  | (.leaf d, .idx slots _ _) | (.internal d, .idx slots _ _) =>
    .ok ⟨slots ++ List.replicate (D - slots.length) 0, d, D + 1⟩
  | _ => .error (.panic "unreachable")

end MiniconfVerif
