import MiniconfVerif.Model.Basic
import MiniconfVerif.Gen.Packed

/-! Key sources (`Keys` impls): `KeysIter` over a list of keys, `Packed`, `Chain`,
`Consume` (iter.rs).  `next` returns the index and the advanced source. -/
namespace MiniconfVerif
open MiniconfVerif.Gen.Packed

inductive KeySrc where
  | list (ks : List Key)
  | packed (w : BitVec 64)
  | chain (a b : KeySrc)
  | consume (a : KeySrc)
  deriving Repr, Inhabited

/-- `Keys::next`.  `panic` = shift overflow in `Packed::pop_msb` (only reachable for a
lookup with more than 2^63 children). -/
def KeySrc.next (lk : Lookup) : KeySrc → Except Trav (Nat × KeySrc)
  | .list [] => .error (.tooShort 0)
  | .list (k :: ks) =>
    match k.find lk with
    | .ok i => .ok (i, .list ks)
    | .error e => .error e
  | .packed w =>
    let bits := keyBits (BitVec.ofNat 64 lk.len)
    if !(popMsb_pre w bits) then .error (.panic "pop_msb") else
    match popMsb w bits with
    | none => .error (.tooShort 0)
    | some (w', idx) =>
      if !(popMsb_inner w bits) then .error (.panic "pop_msb") else
      if idx.toNat < lk.len then .ok (idx.toNat, .packed w') else .error (.notFound 1)
  | .chain a b =>
    match a.next lk with
    | .error (.tooShort _) =>
      match b.next lk with
      | .ok (i, b') => .ok (i, .chain a b')
      | .error e => .error e
    | .ok (i, a') => .ok (i, .chain a' b)
    | .error e => .error e
  | .consume a =>
    match a.next lk with
    | .ok (i, a') => .ok (i, .consume a')
    | .error e => .error e

/-- `Keys::finalize` -/
def KeySrc.finalize : KeySrc → Except Trav Unit
  | .list [] => .ok ()
  | .list (_ :: _) => .error (.tooLong 0)
  | .packed w => if isEmpty w then .ok () else .error (.tooLong 0)
  | .chain a b =>
    match a.finalize with
    | .ok () => b.finalize
    | .error e => .error e
  | .consume _ => .ok ()

end MiniconfVerif
