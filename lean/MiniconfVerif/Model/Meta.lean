import MiniconfVerif.Model.Schema

/-! `Metadata` and `TreeKey::traverse_all` (walk.rs). -/
namespace MiniconfVerif
open MiniconfVerif.Gen.Packed

structure Meta where
  maxLength : Nat
  maxDepth : Nat
  count : Nat
  maxBits : Nat
  deriving Repr, DecidableEq, Inhabited

/-- `Packed::bits_for(len - 1)` on naturals below 2^64 -/
def widthFor (len : Nat) : Nat := (keyBits (BitVec.ofNat 64 len)).toNat

def Meta.leaf : Meta := ⟨0, 0, 1, 0⟩

/-- one iteration of the loop in `Metadata::internal`: merge child `c` whose key has
byte length `nameLen` and multiplicity `mult` under a lookup of `len` children -/
def Meta.merge (acc : Meta) (c : Meta) (nameLen mult len : Nat) : Meta :=
  { maxDepth := max acc.maxDepth (1 + c.maxDepth)
    maxLength := max acc.maxLength (nameLen + c.maxLength)
    count := acc.count + mult * c.count
    maxBits := max acc.maxBits (widthFor len + c.maxBits) }

def Meta.zero : Meta := ⟨0, 0, 0, 0⟩

def Lookup.keyLen (lk : Lookup) (i : Nat) : Nat :=
  match lk with
  | .named ns => (ns[i]?.map String.utf8ByteSize).getD 0
  | .numbered _ => digits i
  | .homog n => digits (n - 1)

/-- `TreeKey::traverse_all::<Metadata>()` -/
def Schema.meta : Schema → Meta
  | .leaf => Meta.leaf
  | .node lk cs => go lk cs 0 Meta.zero
  | .array n c => Meta.zero.merge c.meta (digits (n - 1)) n n
where
  go (lk : Lookup) : List Schema → Nat → Meta → Meta
    | [], _, acc => acc
    | c :: cs, i, acc => go lk cs (i + 1) (acc.merge c.meta (lk.keyLen i) 1 lk.len)

/-- `traverse_all::<W>()` for an arbitrary `Walk` `W` with `W::leaf() = leafW`, `W::internal(children, lookup) =
internalW children lookup`: every internal node is presented once, bottom-up, with its children's walks in order -/
def Schema.walkAll {W : Type} (leafW : W) (internalW : List W → Lookup → W) : Schema → W
  | .leaf => leafW
  | .node lk cs => internalW (go cs) lk
  | .array n c => internalW [c.walkAll leafW internalW] (.homog n)
where
  go : List Schema → List W
    | [] => []
    | c :: cs => c.walkAll leafW internalW :: go cs

end MiniconfVerif
