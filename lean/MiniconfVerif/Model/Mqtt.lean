import MiniconfVerif.Model.Basic
import MiniconfVerif.Model.PathIter

/-! Model of `miniconf_mqtt::MqttClient::update` (miniconf_mqtt/src/lib.rs 69-115, 117-167,
298-568): the protocol state machine, the multipart (list / dump) pumps and the request
handler.  `minimq` is the environment: what it decides (connected?, publish slots,
whether a publication is accepted, which message `poll` hands over) enters as an
observation `Obs`.  The settings tree is abstract (`SettingsOps`); the driver instantiates
it with the `Tree` model.  Core Lean only. -/
namespace MiniconfVerif.Mqtt
open MiniconfVerif MiniconfVerif.PathIter

/-- Gen/Consts-style constants of lib.rs (checked against the source text by the extractor) -/
def MAX_TOPIC_LENGTH : Nat := 128
def MAX_CD_LENGTH : Nat := 32
def DUMP_TIMEOUT_MS : Nat := 2000

/-- the literal texts of lib.rs -/
def msgTooLarge : Str := "Serialized value too large".toList
def msgRtTooLong : Str := "Response topic too long".toList
def msgCdTooLong : Str := "Correlation data too long".toList
def msgPending : Str := "Pending multipart response".toList
def msgOK : Str := "OK".toList
def settingsSuffix : Str := "/settings".toList

inductive St where
  | connect | alive | subscribe | wait | init | multipart | single
  deriving Repr, DecidableEq, Inhabited

inductive Code where
  | ok | continue | error
  deriving Repr, DecidableEq, Inhabited

/-- payload of a publication; error texts of third-party (de)serializers are abstract -/
inductive Body where
  | text (s : Str)
  | errTrav (t : Trav)       -- `Display` of a `miniconf::Traversal`
  | errInner (d : Nat)       -- "(De)serialization (depth: d): …"
  | errFinal                 -- "(De)serializer finalization: …"
  deriving Repr, DecidableEq, Inhabited

inductive Out where
  | alive                                                   -- retained "<prefix>/alive"
  | sub                                                     -- SUBSCRIBE "<prefix>/settings/#", no-local
  | pub (topic : Str) (body : Body) (code : Code) (cd : Option (List Nat))
  deriving Repr, DecidableEq, Inhabited

/-- an inbound PUBLISH as handed to the poll closure -/
structure Req where
  topic : Str
  payload : Str
  respTopic : Option Str
  cd : Option (List Nat)
  deriving Repr, DecidableEq, Inhabited

/-- `Multipart`: the node iterator is represented by the leaf paths it still has to yield -/
structure Pending where
  remaining : List Str
  respTopic : Option Str
  cd : Option (List Nat)
  deriving Repr, DecidableEq, Inhabited

structure Client where
  st : St
  timeout : Option Nat
  pending : Pending
  deriving Repr, DecidableEq, Inhabited

inductive GetRes where
  | value (txt : Str)        -- leaf: its JSON text
  | internal                 -- `TooShort`: the path names an internal node
  | err (t : Trav)
  deriving Repr, DecidableEq, Inhabited

inductive SetRes where
  | ok
  | errTrav (t : Trav)
  | errInner (d : Nat)
  | errFinal
  deriving Repr, DecidableEq, Inhabited

/-- what the client needs from the settings tree -/
structure SettingsOps (σ : Type) where
  /-- `json::get_by_key(settings, Path(path), unbounded buffer)` -/
  get : σ → Str → GetRes
  /-- `json::set_by_key(settings, Path(path), payload)`; the tree may change even on an error
  (validator rejection, trailing data) -/
  set : σ → Str → Str → SetRes × σ
  /-- leaf paths at or below the node named by `path`, in iteration order; `none` if
  `NodeIter::root` fails for it -/
  leavesBelow : Str → Option (List Str)

inductive PollObs where
  | idle
  /-- a message handed to the closure; `canPub`: `can_publish(AtLeastOnce)` at closure entry;
  `fits`: the reply value fits the transmit buffer -/
  | msg (m : Req) (canPub fits : Bool)
  | sessionReset
  | error
  deriving Repr, DecidableEq, Inhabited

/-- environment observations of one `update()` call -/
structure Obs where
  connected : Bool
  now : Nat
  aliveOk : Bool           -- the alive publication was accepted
  subOk : Bool             -- the subscription was accepted
  slots : Nat              -- times the publish loop body was entered (`can_publish` true)
  tooLarge : List Bool     -- per dump value produced in this call: does it exceed the tx buffer?
  poll : PollObs
  deriving Repr, DecidableEq, Inhabited

inductive Ret where
  | changed | unchanged | error
  /-- model artifact: an `unwrap()` in lib.rs would panic -/
  | panic
  deriving Repr, DecidableEq, Inhabited

def prefixSettings (pfx : Str) : Str := pfx ++ settingsSuffix

/-- `topic.strip_prefix(prefix).and_then(|p| p.strip_prefix("/settings"))` -/
def topicPath (pfx : Str) (topic : Str) : Option Str :=
  stripPrefix (prefixSettings pfx) topic

/-- `_ + Reset = Connect` (pending and timeout are left as they are) -/
def Client.reset (c : Client) : Client := { c with st := .connect }

/-- `iter_list` on the remaining paths: one response per granted slot; `Continue path`
while paths remain, then `Ok ""` (and `Complete`: third component `true`) -/
def listPump (rt : Str) (cd : Option (List Nat)) : List Str → Nat → List Str × List Out × Bool
  | rem, 0 => (rem, [], false)
  | [], _ + 1 => ([], [.pub rt (.text []) .ok cd], true)
  | p :: rest, k + 1 =>
    let r := listPump rt cd rest k
    (r.1, .pub rt (.text p) .continue cd :: r.2.1, r.2.2)

def iterList (c : Client) (slots : Nat) : Client × List Out :=
  match c.pending.respTopic with
  | none => (c, [])      -- unreachable: only called when a response topic is cached
  | some rt =>
    let r := listPump rt c.pending.cd c.pending.remaining slots
    ({ c with st := if r.2.2 then .single else c.st, pending := { c.pending with remaining := r.1 } }, r.2.1)

/-- `iter_dump` on the remaining paths: per granted slot take the next leaf; absent →
nothing is published, too large → Error message on the leaf topic, otherwise its JSON
value; end of the walk → `Complete` -/
def dumpPump {σ : Type} (ops : SettingsOps σ) (pfx : Str) (s : σ) (cd : Option (List Nat)) :
    List Str → Nat → List Bool → List Str × List Out × Bool
  | rem, 0, _ => (rem, [], false)
  | [], _ + 1, _ => ([], [], true)
  | p :: rest, k + 1, big =>
    let topic := prefixSettings pfx ++ p
    match ops.get s p with
    | .value txt =>
      let tooBig := big.headD false
      let r := dumpPump ops pfx s cd rest k big.tail
      let o := if tooBig then Out.pub topic (.text msgTooLarge) .error cd
               else Out.pub topic (.text txt) .ok cd
      (r.1, o :: r.2.1, r.2.2)
    | .err (.absent _) => dumpPump ops pfx s cd rest k big     -- skipped silently
    | _ => (rest, [], false)   -- `other => other.unwrap()`: only for paths the type does not have

def iterDump {σ : Type} (ops : SettingsOps σ) (pfx : Str) (s : σ) (c : Client) (slots : Nat) (big : List Bool) :
    Client × List Out :=
  let r := dumpPump ops pfx s c.pending.cd c.pending.remaining slots big
  ({ c with st := if r.2.2 then .single else c.st, pending := { c.pending with remaining := r.1 } }, r.2.1)

/-- `Self::respond(text, code, properties, client)`: needs a response topic and a free slot -/
def respond (m : Req) (canPub : Bool) (body : Body) (code : Code) : List Out :=
  match m.respTopic with
  | some rt => if canPub then [.pub rt body code m.cd] else []
  | none => []

def setBody : SetRes → Body
  | .ok => .text msgOK
  | .errTrav t => .errTrav t
  | .errInner d => .errInner d
  | .errFinal => .errFinal

/-- `String<MAX_TOPIC_LENGTH>::try_from(response_topic)` fails -/
def rtTooLong (m : Req) : Bool :=
  match m.respTopic with
  | some rt => decide (byteLen rt > MAX_TOPIC_LENGTH)
  | none => false

/-- `Vec<u8, MAX_CD_LENGTH>::try_from(correlation_data)` fails -/
def cdTooLong (m : Req) : Bool :=
  match m.cd with
  | some cd => decide (cd.length > MAX_CD_LENGTH)
  | none => false

/-- the poll closure -/
def handleMsg {σ : Type} (ops : SettingsOps σ) (pfx : Str) (c : Client) (s : σ) (m : Req) (canPub fits : Bool) :
    Client × σ × List Out × Ret :=
  match topicPath pfx m.topic with
  | none => (c, s, [], .unchanged)                      -- "Unexpected topic"
  | some path =>
    if m.payload.isEmpty then
      -- Get / List / Dump
      if !canPub then (c, s, [], .unchanged)            -- `NotReady`: discarded
      else
        match ops.get s path with
        | .value txt =>
          let topic := m.respTopic.getD m.topic
          if fits then (c, s, [.pub topic (.text txt) .ok m.cd], .unchanged)
          else (c, s, respond m canPub (.errInner (path.count '/')) .error, .unchanged)
        | .internal =>
          if c.st = .single then
            if rtTooLong m then
              (c, s, respond m canPub (.text msgRtTooLong) .error, .unchanged)
            else if cdTooLong m then
              (c, s, respond m canPub (.text msgCdTooLong) .error, .unchanged)
            else
              match ops.leavesBelow path with
              | some ls =>
                ({ c with st := .multipart, pending := { remaining := ls, respTopic := m.respTopic, cd := m.cd } },
                 s, [], .unchanged)
              | none => (c, s, [], .panic)             -- `m.root(path).unwrap()` would panic
          else (c, s, respond m canPub (.text msgPending) .error, .unchanged)
        | .err t => (c, s, respond m canPub (.errTrav t) .error, .unchanged)
    else
      -- Set
      match ops.set s path m.payload with
      | (.ok, s') => (c, s', respond m canPub (.text msgOK) .ok, .changed)
      | (r, s') => (c, s', respond m canPub (setBody r) .error, .unchanged)

/-- the `match self.state.state()` of `update()`: one step of the protocol state machine -/
def arm {σ : Type} (ops : SettingsOps σ) (pfx : Str) (c : Client) (s : σ) (o : Obs) : Client × List Out :=
  match c.st with
  | .connect => (if o.connected then { c with st := .alive } else c, [])
  | .alive => if o.aliveOk then ({ c with st := .subscribe }, [.alive]) else (c, [])
  | .subscribe =>
    if o.subOk then ({ c with st := .wait, timeout := some (o.now + DUMP_TIMEOUT_MS) }, [.sub]) else (c, [])
  | .wait =>
    match c.timeout with
    | some t => (if t ≤ o.now then { c with st := .init } else c, [])
    | none => (c, [])
  | .init =>
    match ops.leavesBelow [] with
    | some ls => ({ c with st := .multipart, pending := { remaining := ls, respTopic := none, cd := none } }, [])
    | none => (c, [])
  | .multipart =>
    if c.pending.respTopic.isSome then iterList c o.slots
    else iterDump ops pfx s c o.slots o.tooLarge
  | .single => (c, [])

/-- `poll()`: at most one inbound message, or a session reset, or an error -/
def pollStep {σ : Type} (ops : SettingsOps σ) (pfx : Str) (c : Client) (s : σ) (p : PollObs) :
    Client × σ × List Out × Ret :=
  match p with
  | .idle => (c, s, [], .unchanged)
  | .sessionReset => (c.reset, s, [], .unchanged)
  | .error => (c, s, [], .error)
  | .msg m canPub fits => handleMsg ops pfx c s m canPub fits

/-- one `update()` call: reset when not connected, one state-machine step, then `poll()` -/
def step {σ : Type} (ops : SettingsOps σ) (pfx : Str) (c : Client) (s : σ) (o : Obs) :
    Client × σ × List Out × Ret :=
  let c0 := if o.connected then c else c.reset
  let r1 := arm ops pfx c0 s o
  let r2 := pollStep ops pfx r1.1 s o.poll
  (r2.1, r2.2.1, r1.2 ++ r2.2.2.1, r2.2.2.2)

/-- `MqttClient::dump(path)`: `true` = `Ok(())` -/
def apiDump {σ : Type} (ops : SettingsOps σ) (c : Client) (path : Option Str) : Client × Bool :=
  match ops.leavesBelow (path.getD []) with
  | none => (c, false)
  | some ls =>
    if c.st = .init ∨ c.st = .single then
      ({ c with st := .multipart, pending := { remaining := ls, respTopic := none, cd := none } }, true)
    else (c, false)

def Client.init : Client := { st := .connect, timeout := none, pending := { remaining := [], respTopic := none, cd := none } }

/-- run a sequence of updates, collecting outputs and return values -/
def run {σ : Type} (ops : SettingsOps σ) (pfx : Str) : Client → σ → List Obs → Client × σ × List (List Out × Ret)
  | c, s, [] => (c, s, [])
  | c, s, o :: os =>
    let r := step ops pfx c s o
    let rest := run ops pfx r.1 r.2.1 os
    (rest.1, rest.2.1, (r.2.2.1, r.2.2.2) :: rest.2.2)

end MiniconfVerif.Mqtt
