import MiniconfVerif.Model.Mqtt
import MiniconfVerif.Model.ValueDriver

/-! Line protocol for the MQTT client model (`mqm` stream): the settings are a `Tree`
(declared with a `V` line), the environment observations come from the hook trace and
packet log of the real client. -/
namespace MiniconfVerif.MqttDriver
open MiniconfVerif MiniconfVerif.PathIter MiniconfVerif.PathDriver MiniconfVerif.TreeDriver
open MiniconfVerif.ValueDriver MiniconfVerif.Mqtt MiniconfVerif.Codec

/-- '/'-path of an index path in a schema -/
def pathStr : Schema → List Nat → Str
  | _, [] => []
  | s, i :: p =>
    let key : Str := match s with
      | .node lk _ => (match lk.name? i with | some n => n.toList | none => itoa i)
      | _ => itoa i
    match s.child? i with
    | some c => '/' :: key ++ pathStr c p
    | none => '/' :: key

/-- leaf paths at or below the node a '/'-path names -/
def leavesBelowTree (t : Tree) (path : Str) : Option (List Str) :=
  let s := t.erase
  match s.transcode (pathKeys '/' path) (.idx [] 64 (2 ^ 64 - 1)) with
  | (.leaf _, .idx root _ _) | (.internal _, .idx root _ _) =>
    match s.at? root with
    | some sub => some (sub.leaves.map fun p => pathStr s (root ++ p))
    | none => none
  | _ => none

def treeGet (t : Tree) (path : Str) : GetRes :=
  let io : Io := ⟨fun _ _ => true, fun _ => none⟩
  let o := t.walk io .ser (pathKeys '/' path)
  match o.res, o.leaf, o.val with
  | .ok _, some k, some v =>
    match leafJson k v with
    | some txt => .value txt
    | none => .err (.panic "float")
  | .trav (.tooShort _), _, _ => .internal
  | .trav e, _, _ => .err e
  | _, _, _ => .err (.panic "unexpected")

/-- attributes of `orig` on the (same-shaped) tree `new` -/
partial def copyAttrs : Tree → Tree → Tree
  | .node f _ lk fs, .node _ a' _ fs' =>
    .node f a' lk (List.zipWith (fun (x : Attrs × Tree) (y : Attrs × Tree) => (x.1, copyAttrs x.2 y.2)) fs fs')
  | .array es, .array es' => .array (List.zipWith copyAttrs es es')
  | .gate g _ t, .gate _ c' t' => .gate g c' (copyAttrs t t')
  | _, new => new

/-- `json::set_by_key`; `gate` is how the user callbacks behave during this one call -/
def treeSet (gate : Option (Nat × GMode)) (t : Tree) (path payload : Str) : SetRes × Tree :=
  let t0 := match gate with
    | some g => applyGates [g] t
    | none => t
  let io : Io := ⟨fun _ _ => false, decJsonOpt (some payload)⟩
  let o := t0.walk io .de (pathKeys '/' path)
  let t' := copyAttrs t o.tree
  match o.res, o.leaf with
  | .ok _, some k =>
    match jsonDecLeaf k payload with
    | some (_, rest) => if (skipWs rest).isEmpty then (.ok, t') else (.errFinal, t')
    | none => (.ok, t')
  | .trav e, _ => (.errTrav e, t')
  | .inner d, _ => (.errInner d, t')
  | _, _ => (.errFinal, t')

def treeOps (t0 : Tree) (gate : Option (Nat × GMode)) : SettingsOps Tree :=
  { get := treeGet, set := treeSet gate, leavesBelow := leavesBelowTree t0 }

/-! ### text forms -/

def travDisplay : Trav → String
  | .absent d => s!"Variant absent (depth: {d})"
  | .tooShort d => s!"Key does not reach a leaf (depth: {d})"
  | .notFound d => s!"Key not found (depth: {d})"
  | .tooLong d => s!"Key goes beyond leaf (depth: {d})"
  | .access d m => s!"Node accessor failed (depth: {d}): {m}"
  | .invalid d m => s!"Invalid value (depth: {d}): {m}"
  | .panic s => s!"PANIC {s}"

def bodyStr : Body → String
  | .text s => "t" ++ encStr s
  | .errTrav t => "t" ++ encStr (travDisplay t).toList
  | .errInner d => s!"I{d}"
  | .errFinal => "F"

def codeStr : Code → String
  | .ok => "Ok" | .continue => "Continue" | .error => "Error"

def cdStr : Option (List Nat) → String
  | none => "-"
  | some b => if b.isEmpty then "e" else hexStr b

def outStr : Mqtt.Out → String
  | .alive => "A"
  | .sub => "B"
  | .pub t b c cd => s!"P({encStr t},{bodyStr b},{codeStr c},{cdStr cd})"

def stStr : St → String
  | .connect => "connect" | .alive => "alive" | .subscribe => "subscribe" | .wait => "wait"
  | .init => "init" | .multipart => "multipart" | .single => "single"

def retStr : Ret → String
  | .changed => "t" | .unchanged => "f" | .error => "err" | .panic => "panic"

def optStr (s : String) : Option (Option Str) :=
  if s = "-" then some none else (decStr s).map some

def optCd (s : String) : Option (Option (List Nat)) :=
  if s = "-" then some none else if s = "e" then some (some []) else (unhex s).map some

def parseGate (s : String) : Option (Option (Nat × GMode)) :=
  if s = "-" then some none else
  match s.splitOn "=" with
  | [id, "vf"] => id.toNat?.map fun i => some (i, GMode.valFail)
  | [id, m] =>
    if m.startsWith "vf!" then do
      let i ← id.toNat?
      let msg ← decStr (m.drop 3).toString
      some (some (i, GMode.valFailWith (String.ofList msg)))
    else none
  | _ => none

def parsePoll (s : String) : Option (PollObs × Option (Nat × GMode)) :=
  if s = "i" then some (.idle, none)
  else if s = "r" then some (.sessionReset, none)
  else if s = "e" then some (.error, none)
  else match s.splitOn "~" with
    | ["m", topic, payload, rt, cd, canPub, fits, gate] => do
      let topic ← decStr topic
      let payload ← decStr payload
      let rt ← optStr rt
      let cd ← optCd cd
      let g ← parseGate gate
      some (.msg ⟨topic, payload, rt, cd⟩ (canPub == "1") (fits == "1"), g)
    | _ => none

def bits (s : String) : List Bool := if s = "-" then [] else s.toList.map (· == '1')

/-- set every integer leaf of a sub-tree -/
partial def fillInts (n : Nat) : Tree → Tree
  | .leaf k (.int _) => .leaf k (.int n)
  | .node f a lk fs => .node f a lk (fs.map fun (att, t) => (att, fillInts n t))
  | .array es => .array (es.map (fillInts n))
  | .gate g c t => .gate g c (fillInts n t)
  | t => t

/-- set the presence of the top-level `Option` field (family-specific direct mutation by the harness: `S1.opt`,
`S3.o`): `Some` with every leaf below set to `n`, or `None` -/
def setOpt (v : Option Nat) : Tree → Tree
  | .node f a lk fs => .node f a lk (fs.map fun (att, t) =>
      match t with
      | .gate .option _ inner =>
        (att, match v with
          | some n => .gate .option false (fillInts n inner)
          | none => .gate .option true inner)
      | t => (att, t))
  | t => t

/-- set the variant of the top-level enum field (`S3.mode`): `none` = a unit / skipped variant, `some (i, n)` =
retained variant `i` with payload `n` -/
def setMode (v : Option (Nat × Nat)) : Tree → Tree
  | .node f a lk fs => .node f a lk (fs.map fun (att, t) =>
      match t with
      | .node f' (some _) lk' fs' =>
        (att, match v with
          | none => .node f' (some none) lk' fs'
          | some (i, n) => .node f' (some (some i)) lk' (fs'.zipIdx.map fun ((a', t'), j) =>
              if j = i then (a', fillInts n t') else (a', t')))
      | t => (att, t))
  | t => t

structure MState where
  c : Client
  s : Tree

def item (pfx : Str) (t0 : Tree) (m : MState) (tok : String) : Option (MState × String) :=
  match tok.splitOn ":" with
  | ["U", conn, now, aliveOk, subOk, slots, big, poll] => do
    let now ← now.toNat?
    let slots ← slots.toNat?
    let (p, gate) ← parsePoll poll
    let o : Obs := { connected := conn == "1", now := now, aliveOk := aliveOk == "1", subOk := subOk == "1",
                     slots := slots, tooLarge := bits big, poll := p }
    let r := step (treeOps t0 gate) pfx m.c m.s o
    some ({ c := r.1, s := r.2.1 },
      s!"{stStr r.1.st}|{retStr r.2.2.2}|{" ".intercalate (r.2.2.1.map outStr)}")
  | ["D", path] => do
    let p ← optStr path
    let r := apiDump (treeOps t0 none) m.c p
    some ({ m with c := r.1 }, if r.2 then "ok" else "err")
  | ["R"] => some ({ m with c := m.c.reset }, "ok")
  | ["S", path, json, gate] => do
    let path ← decStr path
    let json ← decStr json
    let g ← parseGate gate
    let r := treeSet g m.s path json
    some ({ m with s := r.2 }, match r.1 with | .ok => "ok" | _ => "err")
  | ["O", v] =>
    if v = "none" then some ({ m with s := setOpt none m.s }, "ok")
    else v.toNat?.map fun n => ({ m with s := setOpt (some n) m.s }, "ok")
  | ["M", v, n] => do
    let n ← n.toNat?
    let sel ← match v with
      | "o" | "c" => some none
      | "a" => some (some (0, n))
      | "b" => some (some (1, n))
      | _ => none
    some ({ m with s := setMode sel m.s }, "ok")
  | _ => none

/-- `mqm <id> <tid> <sid> <prefix cp> item item …` -/
def run (t : Tree) : List String → String
  | pfx :: items =>
    match decStr pfx with
    | none => "bad-op"
    | some pfx =>
      let rec go (m : MState) (items : List String) (acc : List String) : String :=
        match items with
        | [] => " ; ".intercalate acc.reverse ++ s!" ; END {snapStr m.s}"
        | i :: rest =>
          match item pfx t m i with
          | none => "bad-op"
          | some (m', out) => go m' rest (out :: acc)
      go { c := Client.init, s := t } items []
  | _ => "bad-op"

end MiniconfVerif.MqttDriver
