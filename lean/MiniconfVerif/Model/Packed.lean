import MiniconfVerif.Gen.Packed

/-! Sequences of `push_lsb` / `pop_msb` over the generated single-step functions
(core Lean only: this file is linked into the `driver` executable). -/
namespace MiniconfVerif.Packed
open MiniconfVerif.Gen.Packed

/-- push the fields `(width, value)` in order; `none` as soon as one does not fit -/
def pushAll (w : BitVec 64) : List (BitVec 64 × BitVec 64) → Option (BitVec 64)
  | [] => some w
  | (b, v) :: fs =>
    match pushLsb w b v with
    | none => none
    | some (w', _) => pushAll w' fs

/-- pop the given widths in order, collecting the values -/
def popAll (w : BitVec 64) : List (BitVec 64) → Option (List (BitVec 64) × BitVec 64)
  | [] => some ([], w)
  | b :: bs =>
    match popMsb w b with
    | none => none
    | some (w', x) =>
      match popAll w' bs with
      | none => none
      | some (xs, w'') => some (x :: xs, w'')

/-- a field the documented contract of `push_lsb` admits: `bits ≤ CAPACITY`, `value >> bits == 0` -/
def FieldOk (f : BitVec 64 × BitVec 64) : Prop := f.1 ≤ 63 ∧ f.2 >>> f.1 = 0

def totalBits (fs : List (BitVec 64 × BitVec 64)) : Nat := (fs.map (·.1.toNat)).sum

end MiniconfVerif.Packed
