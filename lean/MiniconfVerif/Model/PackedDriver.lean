import MiniconfVerif.Model.Packed

/-! Line-protocol front end for the packed stream (`pk …`). -/
namespace MiniconfVerif.PackedDriver
open MiniconfVerif.Gen.Packed

def w? (s : String) : Option (BitVec 64) :=
  match s.toNat? with
  | some n => if n < 2 ^ 64 then some (BitVec.ofNat 64 n) else none
  | none => none

def showOpt : Option (BitVec 64 × BitVec 64) → String
  | none => "none"
  | some (a, b) => s!"some {a.toNat} {b.toNat}"

/-- one packed op on a word; returns the (possibly updated) word and the printed outcome.
A shift/borrow side condition that fails is a `panic` (overflow-checked profile). -/
def op (w : BitVec 64) : List String → Option (BitVec 64 × String)
  | ["push", b, v] => do
    let b ← w? b; let v ← w? v
    if !(pushLsb_pre w b v) || !(pushLsb_dbg w b v) then some (w, "panic") else
    match pushLsb w b v with
    | none => some (w, "none")
    | some (w', r) =>
      if !(pushLsb_inner w b v) then some (w, "panic") else some (w', s!"some {w'.toNat} {r.toNat}")
  | ["pop", b] => do
    let b ← w? b
    if !(popMsb_pre w b) then some (w, "panic") else
    match popMsb w b with
    | none => some (w, "none")
    | some (w', r) =>
      if !(popMsb_inner w b) then some (w, "panic") else some (w', s!"some {w'.toNat} {r.toNat}")
  | ["len"] => some (w, if len_pre w then s!"{(len w).toNat}" else "panic")
  | ["cap"] => some (w, s!"{(capacity w).toNat}")
  | ["empty"] => some (w, s!"{isEmpty w}")
  | ["into_lsb"] => some (w, if intoLsb_pre w then s!"{(intoLsb w).toNat}" else "panic")
  | ["from_lsb"] =>
    some (w, if fromLsb_pre w then s!"{(fromLsb w).toNat}" else "panic")
  | ["clear"] => some (clear w, s!"{(clear w).toNat}")
  | _ => none

def splitOps (toks : List String) : List (List String) :=
  (toks.splitOn ";").filter (· ≠ [])

/-- `pk word <w> <op> ; <op> ; …` and `pk bits_for <n>` -/
def run : List String → String
  | ["bits_for", n] =>
    match w? n with
    | some n => if bitsFor_pre n then s!"{(bitsFor n).toNat}" else "panic"
    | none => "bad-op"
  | ["new", v] =>
    match w? v with
    | some v => match new_ v with
      | some p => s!"some {p.toNat}"
      | none => "none"
    | none => "bad-op"
  | ["new_from_lsb", v] =>
    match w? v with
    | some v =>
      if v ≠ 0 ∧ !(fromLsb_pre v) then "panic" else
      match newFromLsb v with
      | some p => s!"some {p.toNat}"
      | none => "none"
    | none => "bad-op"
  | "word" :: w :: rest =>
    match w? w with
    | none => "bad-op"
    | some w =>
      if w = 0 then "bad-op" else
      let rec go (w : BitVec 64) (ops : List (List String)) (acc : List String) : String :=
        match ops with
        | [] => " | ".intercalate acc.reverse
        | o :: os =>
          match op w o with
          | none => "bad-op"
          | some (w', out) => if out = "panic" then " | ".intercalate ("panic" :: acc).reverse else go w' os (out :: acc)
      go w (splitOps rest) []
  | _ => "bad-op"

end MiniconfVerif.PackedDriver
