import MiniconfVerif.Model.PathIter

/-! Line protocol for `split` / `jsplit`.  A string is its code points joined by `.`
(`e` = empty string); a list of strings is joined by `,` (`-` = empty list). -/
namespace MiniconfVerif.PathDriver
open MiniconfVerif.PathIter

def decStr (s : String) : Option Str :=
  if s = "e" then some [] else
  (s.splitOn ".").mapM fun t => match t.toNat? with
    | some n => if n.isValidChar then some (Char.ofNat n) else none
    | none => none

def encStr (s : Str) : String :=
  if s.isEmpty then "e" else ".".intercalate (s.map fun c => toString c.toNat)

def encList (l : List Str) : String :=
  if l.isEmpty then "-" else ",".intercalate (l.map encStr)

/-- count `Some` results of `n` further polls -/
def extraPolls (S : Char) : Nat → Option Str → Option Nat
  | 0, _ => some 0
  | n + 1, st =>
    match next S st with
    | .panic => none
    | .done => extraPolls S n st
    | .item _ st' => (extraPolls S n st').map (· + 1)

def jextraPolls : Nat → Str → Option Nat
  | 0, _ => some 0
  | n + 1, st =>
    match jnext st with
    | .panic => none
    | .done => jextraPolls n st
    | .item _ st' => (jextraPolls n st').map (· + 1)

def run : List String → String
  | ["split", sep, text] =>
    match sep.toNat?, decStr text with
    | some sp, some s =>
      if !sp.isValidChar then "bad-op" else
      let S := Char.ofNat sp
      match root S s with
      | none => "panic"
      | some st =>
        match drain S (s.length + 2) st with
        | none => "panic"
        | some (ks, fin) =>
          match extraPolls S 2 fin with
          | none => "panic"
          | some n => s!"{encList ks} {n}"
    | _, _ => "bad-op"
  | ["jsplit", text] =>
    match decStr text with
    | some s =>
      match jdrain (s.length + 1) s with
      | none => "panic"
      | some (ks, fin) =>
        match jextraPolls 2 fin with
        | none => "panic"
        | some n => s!"{encList ks} {n} {encStr fin}"
    | none => "bad-op"
  | _ => "bad-op"

end MiniconfVerif.PathDriver
