/-! Model of `miniconf::PathIter` (node.rs) and `miniconf::JsonPathIter` (jsonpath.rs).

A `&str` is a `List Char`; every position the Rust code computes is a **byte offset**
(sum of `len_utf8`), and every slicing operation (`split_at`, `&s[n..]`, `get(n..)`) is
modelled on byte offsets: an offset inside a character or out of range is a `panic`
(`split_at`, indexing) or `None` (`get`).  Core Lean only. -/
namespace MiniconfVerif.PathIter

abbrev Str := List Char

def byteLen (s : Str) : Nat := (s.map (·.utf8Size)).sum

/-- split at a byte offset; `none` = offset out of range or not on a char boundary -/
def splitAtByte : Str → Nat → Option (Str × Str)
  | s, 0 => some ([], s)
  | [], _ + 1 => none
  | c :: cs, n + 1 =>
    if c.utf8Size ≤ n + 1 then
      match splitAtByte cs (n + 1 - c.utf8Size) with
      | some (l, r) => some (c :: l, r)
      | none => none
    else none

/-- `str::get(n..)` -/
def getFrom (s : Str) (n : Nat) : Option Str := (splitAtByte s n).map (·.2)

inductive Step where
  | panic
  | done                                   -- `next()` returned `None`
  | item (key : Str) (st : Option Str)     -- `Some(key)`, new `self.0`
  deriving Repr, DecidableEq

/-- `PathIter::<S>::next` -/
def next (S : Char) : Option Str → Step
  | none => .done
  | some s =>
    -- s.chars().map_while(|c| (c != S).then_some(c.len_utf8())).sum()
    let pos := byteLen (s.takeWhile (· ≠ S))
    match splitAtByte s pos with
    | none => .panic
    | some (left, right) => .item left (getFrom right S.utf8Size)

/-- `PathIter::root`: `new(Some(s))` then one `next()` whose item is dropped -/
def root (S : Char) (s : Str) : Option (Option Str) :=
  match next S (some s) with
  | .panic => none
  | .done => some none
  | .item _ st => some st

/-- drive the iterator: collected items and final state; `none` = panic -/
def drain (S : Char) : Nat → Option Str → Option (List Str × Option Str)
  | 0, st => some ([], st)
  | fuel + 1, st =>
    match next S st with
    | .panic => none
    | .done => some ([], st)
    | .item k st' =>
      match drain S fuel st' with
      | none => none
      | some (ks, fin) => some (k :: ks, fin)

/-- specification: split at every separator (always at least one segment) -/
def splitSpec (S : Char) : Str → List Str
  | [] => [[]]
  | c :: cs =>
    if c = S then [] :: splitSpec S cs
    else match splitSpec S cs with
      | h :: t => (c :: h) :: t
      | [] => [[c]]

/-! ## JsonPathIter -/

/-- byte offset of the first occurrence of the (non-empty) pattern -/
def findStr (pat : Str) : Str → Option Nat
  | [] => if pat = [] then some 0 else none
  | c :: cs =>
    if pat.isPrefixOf (c :: cs) then some 0
    else (findStr pat cs).map (· + c.utf8Size)

/-- byte offset of the first char contained in `set` -/
def findAny (set : List Char) : Str → Option Nat
  | [] => none
  | c :: cs => if set.contains c then some 0 else (findAny set cs).map (· + c.utf8Size)

def stripPrefix (pre : Str) (s : Str) : Option Str :=
  if pre.isPrefixOf s then some (s.drop pre.length) else none

inductive Close where
  | brk (set : List Char)     -- `Break(&[..])`: exclusive, end of string if absent
  | cont (pat : Str)          -- `Continue(pat)`: inclusive, required

/-- the rule table of `JsonPathIter::next`, in order -/
def rules : List (Str × Close) :=
  [ (['.', '\''], .cont ['\'']),
    (['.'], .brk ['.', '[']),
    (['[', '\''], .cont ['\'', ']']),
    (['['], .cont [']']) ]

inductive JStep where
  | panic
  | done
  | item (key : Str) (st : Str)
  deriving Repr, DecidableEq

def applyRule (rest : Str) : Close → JStep
  | .brk set =>
    let e := (findAny set rest).getD (byteLen rest)
    match splitAtByte rest e with
    | none => .panic
    | some (nxt, r) =>
      match splitAtByte r 0 with        -- `&rest[0..]`
      | none => .panic
      | some (_, r') => .item nxt r'
  | .cont pat =>
    match findStr pat rest with
    | none => .done                      -- `?`: return None, state untouched
    | some e =>
      match splitAtByte rest e with
      | none => .panic
      | some (nxt, r) =>
        match splitAtByte r (byteLen pat) with   -- `&rest[sep..]`
        | none => .panic
        | some (_, r') => .item nxt r'

def jnextWith : List (Str × Close) → Str → JStep
  | [], _ => .done
  | (op, cl) :: rs, s =>
    match stripPrefix op s with
    | some rest => applyRule rest cl
    | none => jnextWith rs s

/-- `JsonPathIter::next` -/
def jnext (s : Str) : JStep := jnextWith rules s

def jdrain : Nat → Str → Option (List Str × Str)
  | 0, st => some ([], st)
  | fuel + 1, st =>
    match jnext st with
    | .panic => none
    | .done => some ([], st)
    | .item k st' =>
      match jdrain fuel st' with
      | none => none
      | some (ks, fin) => some (k :: ks, fin)

end MiniconfVerif.PathIter
