import MiniconfVerif.Model.PathIter

/-! Model of the Python client's response dispatcher (`py/miniconf-mqtt/miniconf/async_.py`
68-109 and `sync.py` 62-101: the two `_dispatch` bodies are the same state machine), the
post-processing in `_do` (async_.py 111-138, sync.py 103-135) and `_Path.normalize`
(common.py 41-52).  Dispatcher steps are atomic in the model. -/
namespace MiniconfVerif.PyClient
open MiniconfVerif.PathIter

abbrev Cd := List Nat

/-- an incoming message as `_dispatch` sees it -/
structure Msg where
  topic : Str
  payload : Str
  cd : Option Cd          -- `properties["CorrelationData"]`, absent → KeyError → discarded
  code : Option Str       -- `dict(properties["UserProperty"])["code"]`
  deriving Repr, DecidableEq, Inhabited

/-- how a request ended: `fut.set_result(ret)` / `fut.set_exception(MiniconfException(code, resp))` -/
inductive Done where
  | ok (ret : List Str)
  | exc (code msg : Str)
  deriving Repr, DecidableEq, Inhabited

/-- `self._inflight` (a dict keyed by correlation data) and the completions so far -/
structure PySt where
  inflight : List (Cd × List Str)
  done : List (Cd × Done)
  deriving Repr, DecidableEq, Inhabited

def PySt.empty : PySt := ⟨[], []⟩

def lookup (l : List (Cd × List Str)) (cd : Cd) : Option (List Str) :=
  match l with
  | [] => none
  | (k, v) :: r => if k = cd then some v else lookup r cd

def setRet (l : List (Cd × List Str)) (cd : Cd) (v : List Str) : List (Cd × List Str) :=
  l.map fun e => if e.1 = cd then (e.1, v) else e

def del (l : List (Cd × List Str)) (cd : Cd) : List (Cd × List Str) :=
  l.filter fun e => e.1 ≠ cd

/-- `self._inflight[cd] = fut, []` -/
def register (st : PySt) (cd : Cd) : PySt := { st with inflight := st.inflight ++ [(cd, [])] }

def codeContinue : Str := "Continue".toList
def codeOk : Str := "Ok".toList

def codeKey : Str := "code".toList

/-- `dict(properties["UserProperty"])["code"]`: the last pair with that key, `KeyError` otherwise -/
def userCode (ups : List (Str × Str)) : Option Str :=
  (ups.reverse.find? (·.1 = codeKey)).map (·.2)

/-- `_dispatch(message)` -/
def dispatch (respTopic : Str) (st : PySt) (m : Msg) : PySt :=
  if m.topic ≠ respTopic then st else           -- "unexpected topic"
  match m.cd with
  | none => st                                   -- "without CorrelationData"
  | some cd =>
    match lookup st.inflight cd with
    | none => st                                 -- "unexpected CorrelationData"
    | some ret =>
      match m.code with
      | none => st                               -- "without response code user property"
      | some code =>
        if code = codeContinue then { st with inflight := setRet st.inflight cd (ret ++ [m.payload]) }
        else if code = codeOk then
          let ret' := if m.payload.isEmpty then ret else ret ++ [m.payload]
          { inflight := del st.inflight cd, done := st.done ++ [(cd, .ok ret')] }
        else { inflight := del st.inflight cd, done := st.done ++ [(cd, .exc code m.payload)] }

def completion (st : PySt) (cd : Cd) : Option Done :=
  match st.done.find? (·.1 = cd) with
  | some (_, d) => some d
  | none => none

/-- request kinds of the public API and their `response=` argument -/
inductive Kind where
  | get | set | list | clear | dump
  deriving Repr, DecidableEq, Inhabited

/-- what the caller of `get/set/list/clear` receives -/
inductive Result where
  | value (s : Str)            -- `ret[0]`
  | values (l : List Str)      -- list result
  | miniconfExc (code : Str) (msg : List Str ⊕ Str)
  | assertionError
  | none_                      -- `dump`: no response requested
  | indexError                 -- `ret[0]` on an empty list (not reachable in the source as it is: guarded by `len(ret) != 1`)
  | excObject                  -- a `MiniconfException` object handed back as a value instead of raised (not reachable either)
  deriving Repr, Inhabited

/-- an element of the `ret` list of an in-flight request: a payload text, or (sync client, error response) the exception
object the dispatcher put there -/
inductive PyItem where
  | str (s : Str)
  | exc (code msg : Str)
  deriving Repr, DecidableEq, Inhabited

def strsOf : List PyItem → Option (List Str)
  | [] => some []
  | .str s :: r => (strsOf r).map (s :: ·)
  | .exc _ _ :: _ => none

def notALeaf : Str := "Not a leaf".toList

/-- the tail of `_do` once the request has completed (or, in the sync client, once the
wait returned — `Event.wait(timeout)`'s result is ignored, so a timeout takes this path too) -/
def post (k : Kind) (d : Done) : Result :=
  match d with
  | .exc code msg => .miniconfExc code (.inr msg)
  | .ok ret =>
    match k with
    | .list => if ret.isEmpty then .assertionError else .values ret
    | .dump => .none_
    | _ =>
      match ret with
      | [x] => .value x
      | _ => .miniconfExc notALeaf (.inl ret)

/-- `raise MiniconfException("Not a leaf", ret)` -/
def notLeaf (ret : List PyItem) : Result :=
  match strsOf ret with
  | some l => .miniconfExc notALeaf (.inl l)
  | none => .excObject

/-- `return ret[0]` -/
def first : List PyItem → Result
  | .str x :: _ => .value x
  | .exc _ _ :: _ => .excObject
  | [] => .indexError

/-- `return ret` -/
def whole (ret : List PyItem) : Result :=
  match strsOf ret with
  | some l => .values l
  | none => .excObject

/-- the `ret` list `_do` looks at after the wait: the payloads collected by the dispatcher; an error response leaves, in
the sync client, the one exception object (`ret[:] = [MiniconfException(code, resp)]`) -/
def itemsOf : Done → List PyItem
  | .ok ret => ret.map .str
  | .exc code msg => [.exc code msg]

/-- `_Path.normalize`: the new `current` and the returned absolute path -/
def normalize (current : Str) (path : Str) : Str × Str :=
  if path.head? = some '/' ∨ path = [] then
    -- `path[: path.rfind("/")]` (rfind = -1 for the empty path: `path[:-1]` of "" is "")
    let idx := (path.reverse.dropWhile (· ≠ '/')).length   -- position after the last '/'
    ((path.take (idx - 1)), path)
  else (current, current ++ '/' :: path)

end MiniconfVerif.PyClient
