import MiniconfVerif.Model.PyClient
import MiniconfVerif.Gen.Py
import MiniconfVerif.Model.PathDriver

/-! Line protocol for the Python-client model (`py` stream; same text as pyharness/pydriver.py). -/
namespace MiniconfVerif.PyDriver
open MiniconfVerif MiniconfVerif.PathIter MiniconfVerif.PathDriver MiniconfVerif.PyClient

def respTopic : Str := "dt/sinara/dev/response".toList
def settingsTopic (path : Str) : Str := "dt/sinara/dev/settings".toList ++ path

def cdOf (k : Nat) : Cd := List.replicate 16 (k % 256)

def hexVal (c : Char) : Option Nat :=
  if c.isDigit then some (c.toNat - 48) else if 'a' ≤ c ∧ c ≤ 'f' then some (c.toNat - 87) else none

def unhex : List Char → Option (List Nat)
  | [] => some []
  | a :: b :: r => do
    let x ← hexVal a
    let y ← hexVal b
    let rest ← unhex r
    some ((x * 16 + y) :: rest)
  | _ => none

def hex4 (n : Nat) : List Char :=
  let d := fun k => "0123456789abcdef".toList.getD ((n / 16 ^ k) % 16) '0'
  ['\\', 'u', d 3, d 2, d 1, d 0]

/-- JSON string literal the way `json.dumps` (ensure_ascii) writes it -/
def jstr (s : Str) : String :=
  "\"" ++ String.ofList (s.flatMap fun c =>
    if c = '"' then ['\\', '"'] else if c = '\\' then ['\\', '\\']
    else if c = '\n' then ['\\', 'n'] else if c = '\t' then ['\\', 't'] else if c = '\r' then ['\\', 'r']
    else if c.toNat = 8 then ['\\', 'b'] else if c.toNat = 12 then ['\\', 'f']
    else if c.toNat < 32 ∨ (127 ≤ c.toNat ∧ c.toNat < 65536) then hex4 c.toNat
    else if 65536 ≤ c.toNat then
      let v := c.toNat - 65536
      hex4 (0xD800 + v / 1024) ++ hex4 (0xDC00 + v % 1024)
    else [c]) ++ "\""

def jlist (l : List Str) : String := "[" ++ ",".intercalate (l.map jstr) ++ "]"

structure ReqInfo where
  kind : Kind
  cd : Option Cd      -- none for dump
  path : Str
  payload : Option Str

structure DSt where
  st : PySt := PySt.empty
  reqs : Array ReqInfo := #[]

def resultStr (k : Kind) (r : Result) : String :=
  match r with
  | .value s => if k = .set then "ok:" ++ jstr s else "ok:" ++ String.ofList s
  | .values l => "ok:" ++ jlist l
  | .miniconfExc code (.inr msg) => "exc:MiniconfException:" ++ String.ofList code ++ ":" ++ jstr msg
  | .miniconfExc code (.inl ret) => "exc:MiniconfException:" ++ String.ofList code ++ ":" ++ jlist ret
  | .assertionError => "exc:AssertionError"
  | .none_ => "ok:null"
  | .indexError => "exc:IndexError"
  | .excObject => "ok:<exception object>"

def parseCd (tok : String) : Option (Option Cd) :=
  if tok = "-" then some none
  else if tok.startsWith "r" then (tok.drop 1).toString.toNat?.map fun k => some (cdOf k)
  else (unhex tok.toList).map some

def parsePair (kv : String) : Option (Str × Str) :=
  match kv.splitOn "~" with
  | [k, v] => do some ((← decStr k), (← decStr v))
  | _ => none

def parseCode (tok : String) : Option (Option Str) :=
  if tok = "-" then some none
  else if tok.startsWith "K" then
    ((tok.drop 1).toString.splitOn ";").mapM parsePair |>.map userCode
  else match tok.toList with
    | c :: _ => if c.isUpper then some (some tok.toList) else (decStr tok).map some
    | [] => none

/-- `tb`: the dispatcher table extracted from the variant's source (`Gen/Py.lean`) -/
def event (tb : PyTable.Table) (d : DSt) (tok : String) : Option DSt :=
  match tok.splitOn ":" with
  | [kind, path] =>
    -- `inpub:n`: delivery while `publish()` is still in progress; the request is registered before
    -- `publish()` is called, so for the model this is just another arrival order
    if kind = "inpub" then (if path.toNat?.isSome then some d else none) else do
    let path ← decStr path
    let k ← match kind with
      | "get" => some Kind.get | "list" => some Kind.list | "clear" => some Kind.clear | "dump" => some Kind.dump
      | _ => none
    if k = .dump then some { d with reqs := d.reqs.push ⟨k, none, path, none⟩ }
    else
      let cd := cdOf d.reqs.size
      some { st := register d.st cd, reqs := d.reqs.push ⟨k, some cd, path, none⟩ }
  | ["set", path, json] => do
    let path ← decStr path
    let json ← decStr json
    let cd := cdOf d.reqs.size
    some { st := register d.st cd, reqs := d.reqs.push ⟨.set, some cd, path, some json⟩ }
  | ["msg", topic, payload, cd, code] => do
    let topic ← if topic = "R" then some respTopic else decStr topic
    -- `X<hex>`: raw bytes that need not be UTF-8; the checker sends them only in messages that belong to no request
    -- (foreign topic, unknown / no correlation data, no code), of which the dispatcher never reads the payload
    let payload ← if payload.startsWith "X" then some ['\uFFFD'] else decStr payload
    let cd ← parseCd cd
    let code ← parseCode code
    some { d with st := PyTable.run tb respTopic d.st ⟨topic, payload, cd, code⟩ }
  | _ => none

def run (variant : String) (events : List String) : String :=
  let tb := if variant = "async" then Gen.Py.asyncTable else Gen.Py.syncTable
  let rec go (d : DSt) : List String → Option DSt
    | [] => some d
    | e :: es => match event tb d e with
      | some d' => go d' es
      | none => none
  match go {} events with
  | none => "bad-op"
  | some d =>
    let results := d.reqs.toList.map fun r =>
      match r.cd with
      | none => "ok:null"
      | some cd =>
        match completion d.st cd with
        | some done => resultStr r.kind (post r.kind done)
        | none =>
          if variant = "async" then "pending"
          else
            -- sync: `event.wait(timeout)` returned without the event set; `_do` goes on with what `ret` holds
            "timeout:" ++ resultStr r.kind (post r.kind (.ok ((lookup d.st.inflight cd).getD [])))
    let fields := (results.zipIdx.map fun (r, k) => s!"r{k}={r}")
    let pubs := d.reqs.toList.map fun r =>
      let p := match r.payload with
        | some j => encStr j
        | none => "-"
      s!"{encStr (settingsTopic r.path)}|{p}|{if r.kind = .dump then 0 else 1}"
    " ".intercalate (fields ++ [s!"inflight={d.st.inflight.length}", "pubs=" ++ ",".intercalate pubs])

def runNorm (paths : List String) : String :=
  let rec go (cur : Str) : List String → List String
    | [] => []
    | p :: ps =>
      match decStr p with
      | none => ["bad"]
      | some path =>
        let r := Gen.Py.normalize cur path      -- `_Path.normalize` as extracted from common.py
        encStr r.2.1 :: go r.1 ps
  " ".intercalate (go [] paths)

/-- the command-line front end (`_handle_commands` of async_.py / sync.py): per argument one request —
`PATH?` list, `PATH!` dump, `PATH=` clear, `PATH=VALUE` set (split at the FIRST `=`; only `PATH` is normalised), `PATH` get —
with `PATH` resolved by `_Path.normalize` against the directory of the last absolute path -/
def runCli (args : List String) : String :=
  let rec go (cur : Str) : List String → List String
    | [] => []
    | a :: rest =>
      match decStr a with
      | none => ["bad"]
      | some arg =>
        let last := arg.getLast?
        if last = some '?' then
          let r := Gen.Py.normalize cur arg.dropLast
          ("L" ++ encStr r.2.1) :: go r.1 rest
        else if last = some '!' then
          let r := Gen.Py.normalize cur arg.dropLast
          ("D" ++ encStr r.2.1) :: go r.1 rest
        else if arg.contains '=' then
          let path := arg.takeWhile (· ≠ '=')
          let value := (arg.dropWhile (· ≠ '=')).drop 1
          let r := Gen.Py.normalize cur path
          if value.isEmpty then ("C" ++ encStr r.2.1) :: go r.1 rest
          else ("S" ++ encStr r.2.1 ++ "=" ++ encStr value) :: go r.1 rest
        else
          let r := Gen.Py.normalize cur arg
          ("G" ++ encStr r.2.1) :: go r.1 rest
  match go [] args with
  | [] => "-"
  | l => " ".intercalate l

end MiniconfVerif.PyDriver
