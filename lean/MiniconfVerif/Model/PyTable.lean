import MiniconfVerif.Model.PyClient

/-! Decision tables of the Python dispatchers (the shape `extract/gen_py.py` extracts from `_dispatch`), their
interpreter, and the Python string primitives used by `_Path.normalize`.  Core Lean only. -/
namespace MiniconfVerif.PyTable
open MiniconfVerif.PathIter MiniconfVerif.PyClient

/-- the discard guards of `_dispatch`, in source order (each: `log; return` when it fails) -/
inductive Guard where
  | topicIsResponse                 -- `message.topic[.value] != self.response_topic`
  | hasCorrelationData              -- `properties["CorrelationData"]` (KeyError)
  | inflightHasCd                   -- `self._inflight[cd]` (KeyError)
  | hasCode (key : Str)             -- `dict(properties["UserProperty"])[key]` (KeyError)
  deriving Repr, DecidableEq

/-- the actions on the in-flight entry `(handle, ret)` of the message's correlation data -/
inductive Act where
  | append                -- `ret.append(resp)`
  | appendIfNonEmpty      -- `if resp: ret.append(resp)`
  | setResult             -- `fut.set_result(ret)`
  | setException          -- `fut.set_exception(MiniconfException(code, resp))`
  | replaceByException    -- `ret[:] = [MiniconfException(code, resp)]`
  | setEvent              -- `event.set()`: the waiter reads `ret` (one exception in it = raise)
  | delInflight           -- `del self._inflight[cd]`
  deriving Repr, DecidableEq

structure Table where
  guards : List Guard
  branches : List (Str × List Act)
  otherwise : List Act
  deriving Repr

/-- what the actions of one dispatch did to the entry -/
structure Local where
  ret : List Str
  exc : Option (Str × Str) := none      -- `ret` holds exactly this exception
  done : Option Done := none
  deleted : Bool := false

def act (code resp : Str) (l : Local) : Act → Local
  | .append => { l with ret := l.ret ++ [resp] }
  | .appendIfNonEmpty => if resp.isEmpty then l else { l with ret := l.ret ++ [resp] }
  | .setResult => { l with done := some (.ok l.ret) }
  | .setException => { l with done := some (.exc code resp) }
  | .replaceByException => { l with exc := some (code, resp) }
  | .setEvent => { l with done := some (match l.exc with | some (c, m) => .exc c m | none => .ok l.ret) }
  | .delInflight => { l with deleted := true }

def guardOk (respTopic : Str) (st : PySt) (m : Msg) : Guard → Bool
  | .topicIsResponse => m.topic == respTopic
  | .hasCorrelationData => m.cd.isSome
  | .inflightHasCd => match m.cd with
    | some cd => (lookup st.inflight cd).isSome
    | none => false
  | .hasCode key => key == ['c', 'o', 'd', 'e'] && m.code.isSome     -- `Msg.code` is the value under the key "code"

/-- `_dispatch(message)` according to a table -/
def run (tb : Table) (respTopic : Str) (st : PySt) (m : Msg) : PySt :=
  if !(tb.guards.all (guardOk respTopic st m)) then st else
  match m.cd, m.code with
  | some cd, some code =>
    match lookup st.inflight cd with
    | none => st
    | some ret =>
      let acts := match tb.branches.find? (fun b => b.1 == code) with
        | some b => b.2
        | none => tb.otherwise
      let l := acts.foldl (act code m.payload) { ret := ret }
      let inflight := if l.deleted then del st.inflight cd else setRet st.inflight cd l.ret
      { inflight := inflight, done := match l.done with | some d => st.done ++ [(cd, d)] | none => st.done }
  | _, _ => st

/-! ### Python string primitives -/

def pyStartsWith (s pre : Str) : Bool := pre.isPrefixOf s
def pyFalsy (s : Str) : Bool := s.isEmpty

/-- `str.rfind(sub)` for a one-character `sub`: index of the last occurrence, `-1` if absent -/
def pyRfind (s sub : Str) : Int :=
  match sub with
  | [c] =>
    match (s.reverse.findIdx? (· == c)) with
    | some k => (s.length - 1 - k : Nat)
    | none => -1
  | _ => -1

/-- `s[:i]` with Python's treatment of negative and out-of-range bounds -/
def pySliceTo (s : Str) (i : Int) : Str :=
  if i ≥ 0 then s.take i.toNat else s.take (s.length - (-i).toNat)

end MiniconfVerif.PyTable
