import MiniconfVerif.Model.Keys

/-! Type-level view of a `TreeKey` type and `traverse_by_key` / `Transcode` on it.

A `Schema` is what a type *is* for key lookup: transparent wrappers (`Option`, `Box`,
`Cell`, … , references) and flattened single-field containers vanish exactly as their
`TreeKey` impls delegate. -/
namespace MiniconfVerif

inductive Schema where
  | leaf
  | node (lk : Lookup) (cs : List Schema)   -- struct / tuple / enum / Result / Bound / Range*
  | array (n : Nat) (c : Schema)            -- `[T; n]`
  deriving Repr, Inhabited

/-- argument of the traversal callback `func(index, name, len)` -/
structure CbArg where
  index : Nat
  name : Option String
  len : Nat
  deriving Repr, DecidableEq

/-- `TreeKey::traverse_by_key`, in the code's own style: result `0` at the leaf,
`increment` on the way up; the callback is invoked after the key was looked up and before
descending, its failure is `Inner(1)` at that level. -/
def Schema.traverse {σ : Type} (cb : σ → CbArg → Option σ) : Schema → KeySrc → σ → Res × σ
  | .leaf, ks, st =>
    match ks.finalize with
    | .ok () => (.ok 0, st)
    | .error e => (.trav e, st)
  | .node lk cs, ks, st =>
    match ks.next lk with
    | .error e => (.trav e, st)
    | .ok (i, ks') =>
      match cb st ⟨i, lk.name? i, lk.len⟩ with
      | none => (.inner 1, st)
      | some st' =>
        let r := go cs i ks' st'
        (r.1.incr, r.2)
  | .array n c, ks, st =>
    match ks.next (.homog n) with
    | .error e => (.trav e, st)
    | .ok (i, ks') =>
      match cb st ⟨i, none, n⟩ with
      | none => (.inner 1, st)
      | some st' =>
        let r := c.traverse cb ks' st'
        (r.1.incr, r.2)
where
  go : List Schema → Nat → KeySrc → σ → Res × σ
    | [], _, _, st => (.trav (.panic "unreachable"), st)
    | c :: _, 0, ks, st => c.traverse cb ks st
    | _ :: cs, i + 1, ks, st => go cs i ks st

/-- `Node` / the `Err` side of `TryFrom<Result<usize, Error<()>>> for Node` -/
inductive NodeRes where
  | leaf (d : Nat)
  | internal (d : Nat)
  | err (t : Trav)
  deriving Repr, DecidableEq, Inhabited

/-- node.rs:89-103 -/
def Res.toNode : Res → NodeRes
  | .ok d => .leaf d
  | .trav (.tooShort d) => .internal d
  | .inner d => .err (.tooShort d)
  | .trav e => .err e
  | .final => .err (.panic "unreachable")

def NodeRes.depth? : NodeRes → Option Nat
  | .leaf d | .internal d => some d
  | .err _ => none

/-- well-formed: children match the lookup, at least one child, names distinct -/
def Schema.WF : Schema → Prop
  | .leaf => True
  | .node lk cs => cs.length = lk.len ∧ 0 < lk.len ∧
      (match lk with | .named ns => ns.Nodup | .numbered _ => True | .homog _ => False) ∧
      wfList cs
  | .array n c => 0 < n ∧ c.WF
where
  wfList : List Schema → Prop
    | [] => True
    | c :: cs => c.WF ∧ wfList cs

/-- child at an index -/
def Schema.child? : Schema → Nat → Option Schema
  | .leaf, _ => none
  | .node _ cs, i => cs[i]?
  | .array n c, i => if i < n then some c else none

/-- the sub-schema at an index path -/
def Schema.at? : Schema → List Nat → Option Schema
  | s, [] => some s
  | s, i :: p => match s.child? i with
    | some c => c.at? p
    | none => none

/-- all leaves, as index paths, depth first in declaration order -/
def Schema.leaves : Schema → List (List Nat)
  | .leaf => [[]]
  | .node _ cs => go cs 0
  | .array n c => (List.range n).flatMap fun i => c.leaves.map (i :: ·)
where
  go : List Schema → Nat → List (List Nat)
    | [], _ => []
    | c :: cs, i => c.leaves.map (i :: ·) ++ go cs (i + 1)

def Schema.maxDepth : Schema → Nat
  | .leaf => 0
  | .node _ cs => 1 + go cs
  | .array _ c => 1 + c.maxDepth
where
  go : List Schema → Nat
    | [] => 0
    | c :: cs => max c.maxDepth (go cs)

end MiniconfVerif
