import MiniconfVerif.Model.Schema
import MiniconfVerif.Model.PathIter

/-! `Transcode` targets (node.rs, jsonpath.rs, packed.rs) and `TreeKey::transcode`. -/
namespace MiniconfVerif
open MiniconfVerif.Gen.Packed MiniconfVerif.PathIter

inductive Target where
  | unit
  | packed (w : BitVec 64)
  /-- index slots: `used` of `cap` filled; `maxIdx`: largest index the slot type holds -/
  | idx (slots : List Nat) (cap : Nat) (maxIdx : Nat)
  /-- `Path<W, S>` over a writer with byte capacity `cap` -/
  | path (sep : Char) (buf : Str) (cap : Nat)
  | json (buf : Str) (cap : Nat)
  deriving Repr, Inhabited, DecidableEq

/-- all-or-nothing write into a writer of byte capacity `cap` -/
def capWrite (buf : Str) (cap : Nat) (s : Str) : Option Str :=
  if byteLen buf + byteLen s ≤ cap then some (buf ++ s) else none

/-- the traversal callback of each `Transcode` impl; `none` = `Err(())` -/
def Target.cb : Target → CbArg → Option Target
  | .unit, _ => some .unit
  | .packed w, a =>
    let bits := keyBits (BitVec.ofNat 64 a.len)
    let v := BitVec.ofNat 64 a.index
    match pushLsb w bits v with
    | none => none
    | some (w', _) => some (.packed w')
  | .idx slots cap maxIdx, a =>
    if slots.length < cap ∧ a.index ≤ maxIdx then some (.idx (slots ++ [a.index]) cap maxIdx) else none
  | .path sep buf cap, a =>
    match capWrite buf cap [sep] with
    | none => none
    | some b1 =>
      let name := match a.name with
        | some n => n.toList
        | none => itoa a.index
      match capWrite b1 cap name with
      | none => none
      | some b2 => some (.path sep b2 cap)
  | .json buf cap, a =>
    match a.name with
    | some n =>
      match capWrite buf cap ['.'] with
      | none => none
      | some b1 => (capWrite b1 cap n.toList).map (.json · cap)
    | none =>
      match capWrite buf cap ['['] with
      | none => none
      | some b1 =>
        match capWrite b1 cap (itoa a.index) with
        | none => none
        | some b2 => (capWrite b2 cap [']']).map (.json · cap)

/-- would `push_lsb` panic (shift overflow / debug assertion) for this callback? -/
def Target.cbPanics : Target → CbArg → Bool
  | .packed w, a =>
    let bits := keyBits (BitVec.ofNat 64 a.len)
    let v := BitVec.ofNat 64 a.index
    !(pushLsb_pre w bits v) || !(pushLsb_dbg w bits v) ||
      ((pushLsb w bits v).isSome && !(pushLsb_inner w bits v))
  | .path sep buf cap, a =>
    -- `debug_assert!(!name.contains(S))`, reached only if the separator was written
    match a.name with
    | some n => (capWrite buf cap [sep]).isSome && n.toList.contains sep
    | none => false
  | .json _ _, a =>
    match a.name with
    | some n => n.toList.any fun c => c == '.' || c == '\'' || c == '[' || c == ']'
    | none => false
  | _, _ => false

/-- callback state carrying a panic flag -/
def Target.cbP (st : Target × Bool) (a : CbArg) : Option (Target × Bool) :=
  if st.2 then some st
  else if st.1.cbPanics a then some (st.1, true)
  else (st.1.cb a).map (·, false)

/-- `TreeKey::transcode::<N, _>(keys)` with `N::default() = tgt` -/
def Schema.transcode (s : Schema) (ks : KeySrc) (tgt : Target) : NodeRes × Target :=
  let r := s.traverse Target.cbP ks (tgt, false)
  if r.2.2 then (.err (.panic "push_lsb"), r.2.1) else (r.1.toNode, r.2.1)

end MiniconfVerif
