import MiniconfVerif.Model.Schema
import MiniconfVerif.Model.Val

/-! Value-level model: a `Tree` is a type together with its runtime state, and `walk`
is the by-key access of `TreeSerialize` / `TreeDeserialize` / `TreeAny` on it
(`impls.rs`, `leaf.rs`, and the expansion of the derive macros in
`miniconf_derive/src/{tree,field}.rs`). -/
namespace MiniconfVerif

inductive Op where
  | ser | de | refAny | mutAny
  deriving Repr, DecidableEq, Inhabited

inductive LeafKind where
  | leaf (ty : Ty)                    -- `Leaf<T>`
  | strLeaf (variants : List String)  -- `StrLeaf<T>` with `AsRef<str>` / `TryFrom<&str>` over these names
  | deny (ty : Ty)                    -- `Deny<T>`
  deriving Repr, Inhabited

/-- wrappers that consume no key; `closed` is their failing runtime state
(None / dangling / borrowed / shared / poisoned) -/
inductive GateKind where
  | option | box | cow | ref | refMut | cell | refCell | refRefCell
  | rc | arc | rcWeak | arcWeak | mutex | refMutex | rwLock | refRwLock
  deriving Repr, DecidableEq, Inhabited

/-- what a `validate` callback does in this runtime state -/
inductive VRt where
  | keep                  -- `Ok(depth)`
  | replace (k : Nat)     -- `Ok(k)`
  | err (msg : String)
  deriving Repr, DecidableEq, Inhabited

/-- `#[tree(...)]` field attributes with the runtime behaviour of the user callbacks.
`get`/`getMut`: `none` = default accessor (field / `defer` expression, cannot fail),
`some none` = custom accessor returning `Ok`, `some (some msg)` = returning `Err(msg)`. -/
structure Attrs where
  id : Nat := 0
  denySer : Option String := none
  denyDe : Option String := none
  denyRef : Option String := none
  denyMut : Option String := none
  get : Option (Option String) := none
  getMut : Option (Option String) := none
  validate : Option VRt := none
  deriving Repr, Inhabited

inductive Tree where
  | leaf (k : LeafKind) (v : Val)
  /-- struct / tuple / enum / Result / Bound / Range*.  `active = none`: not an enum;
  `some a`: enum whose present variant is retained field `a` (`none`: a skipped or unit
  variant is present). -/
  | node (flat : Bool) (active : Option (Option Nat)) (lk : Lookup) (fs : List (Attrs × Tree))
  | array (elems : List Tree)
  | gate (g : GateKind) (closed : Bool) (inner : Tree)
  deriving Repr, Inhabited

/-- user-callback invocations, in call order -/
inductive Ev where
  | get (id : Nat)
  | getMut (id : Nat)
  | validate (id : Nat) (depth : Nat)
  deriving Repr, DecidableEq, Inhabited

/-- the (de)serializer seen from the walk: whether serializing a leaf value succeeds
(buffer large enough), and what the payload decodes to for a given leaf type
(`none` = deserializer error).  For `mutAny` the `dec` value is what the caller assigns
through the returned `&mut dyn Any` (`none`: access only). -/
structure Io where
  enc : LeafKind → Val → Bool
  dec : LeafKind → Option Val

structure Out where
  res : Res
  tree : Tree
  log : List Ev := []
  val : Option Val := none
  /-- the leaf reached, when the value access itself was attempted -/
  leaf : Option LeafKind := none
  deriving Inhabited

/-- the failing states of the transparent wrappers, per operation (impls.rs 190-236, 671-1297) -/
def gateErr (g : GateKind) (op : Op) (closed : Bool) : Option Trav :=
  match g, op with
  | .option, _ => if closed then some (.absent 0) else none
  | .box, _ | .cow, _ | .refMut, _ | .ref, _ => none
  | .cell, .refAny => some (.access 0 "Can't leak out of Cell")
  | .cell, _ => none
  | .refCell, .ser => if closed then some (.access 0 "Borrowed") else none
  | .refCell, .refAny => some (.access 0 "Can't leak out of RefCell")
  | .refCell, _ => none
  | .refRefCell, _ => if closed then some (.access 0 "Borrowed") else none
  | .rc, .ser | .rc, .refAny | .arc, .ser | .arc, .refAny => none
  | .rc, _ | .arc, _ => if closed then some (.access 0 "Reference is taken") else none
  | .rcWeak, .ser | .arcWeak, .ser => if closed then some (.absent 0) else none
  | .rcWeak, _ | .arcWeak, _ =>
    -- upgrade, then `Rc::get_mut` on the fresh strong reference: always shared
    if closed then some (.absent 0) else some (.access 0 "Reference is taken")
  | .mutex, .refAny => some (.access 0 "Can't leak out of Mutex")
  | .rwLock, .refAny => some (.access 0 "Can't leak out of RwLock")
  | .mutex, _ | .rwLock, _ | .refMutex, _ | .refRwLock, _ =>
    if closed then some (.access 0 "Poisoned") else none

def Attrs.deny (a : Attrs) : Op → Option String
  | .ser => a.denySer
  | .de => a.denyDe
  | .refAny => a.denyRef
  | .mutAny => a.denyMut

/-- the accessor used by an operation: `get` for reads, `get_mut` for writes;
returns the logged call (if the accessor is custom) and its failure message -/
def Attrs.getter (a : Attrs) : Op → Option (Ev × Option String)
  | .ser | .refAny => a.get.map fun r => (.get a.id, r)
  | .de | .mutAny => a.getMut.map fun r => (.getMut a.id, r)

/-- leaf.rs: value access after the keys were finalized -/
def leafOp (io : Io) (op : Op) (k : LeafKind) (v : Val) : Out :=
  let t := Tree.leaf k v
  (fun (o : Out) => { o with leaf := some k }) <|
  match k with
  | .deny _ => { res := .trav (.access 0 "Denied"), tree := t }
  | .leaf _ =>
    match op with
    | .ser => if io.enc k v then { res := .ok 0, tree := t, val := some v } else { res := .inner 0, tree := t }
    | .de =>
      match io.dec k with
      | some v' => { res := .ok 0, tree := .leaf k v', val := some v' }
      | none => { res := .inner 0, tree := t }
    | .refAny => { res := .ok 0, tree := t, val := some v }
    | .mutAny =>
      match io.dec k with
      | some v' => { res := .ok 0, tree := .leaf k v', val := some v' }
      | none => { res := .ok 0, tree := t, val := some v }
  | .strLeaf variants =>
    match op with
    | .ser => if io.enc k v then { res := .ok 0, tree := t, val := some v } else { res := .inner 0, tree := t }
    | .de =>
      match io.dec k with
      | some (.str s) =>
        match variants.findIdx? (fun n => n.toList == s) with
        | some i => { res := .ok 0, tree := .leaf k (.variant i), val := some (.variant i) }
        | none => { res := .trav (.invalid 0 "Could not convert"), tree := t }
      | _ => { res := .inner 0, tree := t }
    | .refAny | .mutAny => { res := .trav (.access 0 "No Any access for StrLeaf"), tree := t }

/-- the `validate` callback of a field: only on deserializing writes, only after the child
returned `Ok(depth)`; receives that depth, may replace it or fail with `Invalid(0, msg)` -/
def applyValidator (a : Attrs) (op : Op) (o : Out) : Out :=
  match op, o.res, a.validate with
  | .de, .ok d, some v =>
    let log := o.log ++ [Ev.validate a.id d]
    match v with
    | .keep => { o with log := log }
    | .replace k => { o with res := .ok k, log := log }
    | .err msg => { o with res := .trav (.invalid 0 msg), log := log }
  | _, _, _ => o

/-- the call logged for a custom accessor -/
def getterLog : Option (Ev × Option String) → List Ev
  | some (ev, _) => [ev]
  | none => []

/-- by-key access.  Result depth is counted bottom-up exactly as the code does:
`0` at the deciding step, `+1` per non-flattened level on the way up. -/
def Tree.walk (io : Io) (op : Op) : Tree → KeySrc → Out
  | .leaf k v, ks =>
    match ks.finalize with
    | .error e => { res := .trav e, tree := .leaf k v }
    | .ok () => leafOp io op k v
  | .gate g closed inner, ks =>
    match gateErr g op closed with
    | some e => { res := .trav e, tree := .gate g closed inner }
    | none =>
      let o := inner.walk io op ks
      { o with tree := .gate g closed o.tree }
  | .array elems, ks =>
    match ks.next (.homog elems.length) with
    | .error e => { res := .trav e, tree := .array elems }
    | .ok (i, ks') =>
      let r := goArr elems i ks'
      { r.1 with res := r.1.res.incr, tree := .array r.2 }
  | .node flat active lk fs, ks =>
    let self := Tree.node flat active lk fs
    match (if flat then Except.ok (0, ks) else ks.next lk) with
    | .error e => { res := .trav e, tree := self }
    | .ok (i, ks') =>
      let up : Res → Res := fun r => if flat then r else r.incr
      match active with
      | some a =>
        if a = some i then
          let r := goFld fs i ks'
          { r.1 with res := up r.1.res, tree := .node flat active lk r.2 }
        else { res := up (.trav (.absent 0)), tree := self }
      | none =>
        let r := goFld fs i ks'
        { r.1 with res := up r.1.res, tree := .node flat active lk r.2 }
where
  goArr : List Tree → Nat → KeySrc → Out × List Tree
    | [], _, _ => ({ res := .trav (.panic "index out of bounds"), tree := default }, [])
    | t :: rest, 0, ks =>
      let o := t.walk io op ks
      (o, o.tree :: rest)
    | t :: rest, i + 1, ks =>
      let r := goArr rest i ks
      (r.1, t :: r.2)
  goFld : List (Attrs × Tree) → Nat → KeySrc → Out × List (Attrs × Tree)
    | [], _, _ => ({ res := .trav (.panic "unreachable"), tree := default }, [])
    | (a, t) :: rest, 0, ks =>
      match a.deny op with
      | some msg => ({ res := .trav (.access 0 msg), tree := t }, (a, t) :: rest)
      | none =>
        match a.getter op with
        | some (ev, some msg) => ({ res := .trav (.access 0 msg), tree := t, log := [ev] }, (a, t) :: rest)
        | g =>
          let o := t.walk io op ks
          let o := applyValidator a op { o with log := getterLog g ++ o.log }
          (o, (a, o.tree) :: rest)
    | f :: rest, i + 1, ks =>
      let r := goFld rest i ks
      (r.1, f :: r.2)

/-- the type of a runtime value: wrappers and flattened containers vanish -/
def Tree.erase : Tree → Schema
  | .leaf _ _ => .leaf
  | .gate _ _ inner => inner.erase
  | .array elems =>
    match elems with
    | [] => .array 0 .leaf
    | t :: _ => .array elems.length t.erase
  | .node flat _ lk fs =>
    if flat then
      match fs with
      | [(_, t)] => t.erase
      | _ => .leaf
    else .node lk (eraseFs fs)
where
  eraseFs : List (Attrs × Tree) → List Schema
    | [] => []
    | (_, t) :: rest => t.erase :: eraseFs rest

end MiniconfVerif
