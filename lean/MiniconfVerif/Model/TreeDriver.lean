import MiniconfVerif.Model.Iter
import MiniconfVerif.Model.Meta
import MiniconfVerif.Model.PathDriver

/-! Line protocol for the type-level stream `tk` (same text as harness/src/rt.rs). -/
namespace MiniconfVerif.TreeDriver
open MiniconfVerif MiniconfVerif.PathIter MiniconfVerif.PathDriver

/-! ### parsing -/

partial def parseSchema : List String → Option (Schema × List String)
  | "L" :: rest => some (.leaf, rest)
  | "A" :: n :: rest => do
    let n ← n.toNat?
    let (c, rest) ← parseSchema rest
    some (.array n c, rest)
  | "N" :: lk :: rest => do
    let (lookup, k) ←
      if lk.startsWith "n:" then
        let names := (lk.drop 2).toString.splitOn ","
        some (Lookup.named names, names.length)
      else if lk.startsWith "u:" then do
        let k ← (lk.drop 2).toString.toNat?
        some (Lookup.numbered k, k)
      else none
    let rec children (k : Nat) (toks : List String) (acc : List Schema) : Option (List Schema × List String) :=
      match k with
      | 0 => some (acc.reverse, toks)
      | k + 1 => do
        let (c, toks) ← parseSchema toks
        children k toks (c :: acc)
    let (cs, rest) ← children k rest []
    some (.node lookup cs, rest)
  | _ => none

def parseKey (t : String) : Option Key :=
  if t.startsWith "s" then (decStr (t.drop 1).toString).map Key.str
  else if t.startsWith "i" then (t.drop 1).toString.toInt?.map Key.int
  else if t.startsWith "w" then (t.drop 1).toString.toNat?.map fun n => Key.int n
  else none

def pathKeys (S : Char) (s : Str) : KeySrc :=
  match (root S s).bind (drain S (s.length + 2)) with
  | some (ks, _) => .list (ks.map Key.str)
  | none => .list []

def jsonKeys (s : Str) : KeySrc :=
  match jdrain (s.length + 1) s with
  | some (ks, _) => .list (ks.map Key.str)
  | none => .list []

/-- parse a key spec from a char list; returns the spec and the unparsed rest -/
partial def parseKeySpec (s : List Char) : Option (KeySrc × List Char) :=
  match s with
  | 'C' :: '[' :: r => do
    let (a, r) ← parseKeySpec r
    match r with
    | ']' :: '[' :: r => do
      let (b, r) ← parseKeySpec r
      match r with
      | ']' :: r => some (.chain a b, r)
      | _ => none
    | _ => none
  | _ =>
    let tok := s.takeWhile (· ≠ ']')
    let rest := s.dropWhile (· ≠ ']')
    let t := String.ofList tok
    if t.startsWith "L:" then
      let body := (t.drop 2).toString
      if body.isEmpty then some (.list [], rest)
      else ((body.splitOn ",").mapM parseKey).map fun ks => (.list ks, rest)
    else if t.startsWith "N:" then
      -- keys from an iterator that is not fused (`-` = a `None` it returns before going on): a key source ends at the first
      -- `None` of its iterator, whatever the iterator would yield afterwards
      let toks := (t.drop 2).toString.splitOn ","
      match (toks.filter (· ≠ "-")).mapM parseKey with
      | some _ => ((toks.takeWhile (· ≠ "-")).mapM parseKey).map fun ks => (.list ks, rest)
      | none => none
    else if t.startsWith "P" ∨ t.startsWith "R" then   -- `R`: the same path handed over by reference (same keys)
      match (t.drop 1).toString.splitOn ":" with
      | [cp, text] => do
        let cp ← cp.toNat?
        let text ← decStr text
        if cp.isValidChar then some (pathKeys (Char.ofNat cp) text, rest) else none
      | _ => none
    else if t.startsWith "J:" then
      (decStr (t.drop 2).toString).map fun text => (jsonKeys text, rest)
    else if t.startsWith "Q:" then do
      let w ← (t.drop 2).toString.toNat?
      if w = 0 ∨ w ≥ 2 ^ 64 then none else some (.packed (BitVec.ofNat 64 w), rest)
    else none

def keySpec (s : String) : Option KeySrc :=
  match parseKeySpec s.toList with
  | some (k, []) => some k
  | _ => none

/-! ### printing -/

def travStr : Trav → String
  | .absent d => s!"absent {d}"
  | .tooShort d => s!"tooShort {d}"
  | .notFound d => s!"notFound {d}"
  | .tooLong d => s!"tooLong {d}"
  | .access d m => s!"access {d} {encStr m.toList}"
  | .invalid d m => s!"invalid {d} {encStr m.toList}"
  | .panic _ => "panic"

def resStr : Res → String
  | .ok d => s!"ok {d}"
  | .trav t => travStr t
  | .inner d => s!"inner {d}"
  | .final => "final"

def nodeStr : NodeRes → String
  | .leaf d => s!"leaf {d}"
  | .internal d => s!"internal {d}"
  | .err t => s!"err {travStr t}"

def showTarget : Target → String
  | .unit => "unit"
  | .packed w => s!"Q:{w.toNat}"
  | .idx slots _ _ => "I:" ++ ",".intercalate (slots.map toString)
  | .path _ buf _ => "P:" ++ encStr buf
  | .json buf _ => "J:" ++ encStr buf

def mkTarget (name : String) (cap : Nat) : Option Target :=
  match name with
  | "unit" => some .unit
  | "packed" => some (.packed MiniconfVerif.Gen.Packed.EMPTY)
  | "idx" => some (.idx [] (min cap 64) (2 ^ 64 - 1))
  | "idx8" => some (.idx [] (min cap 64) 255)
  | "idxarr" => if cap ∈ [0, 1, 2, 3, 4, 8] then some (.idx [] cap (2 ^ 64 - 1)) else none
  | "path47" => some (.path '/' [] cap)
  | "path46" => some (.path '.' [] cap)
  | "path233" => some (.path 'é' [] cap)
  | "path128512" => some (.path '😀' [] cap)
  | "hpath47" => if cap ∈ [0, 3, 8, 128] then some (.path '/' [] cap) else none
  | "json" => some (.json [] cap)
  | _ => none

/-! ### operations -/

def cbRec (st : List CbArg × Nat × Option Nat) (a : CbArg) : Option (List CbArg × Nat × Option Nat) :=
  let (log, calls, fail) := st
  if fail = some calls then none else some (log ++ [a], calls + 1, fail)

def opTrav (s : Schema) (ks : KeySrc) (cbfail : Option Nat) : String :=
  let r := s.traverse cbRec ks ([], 0, cbfail)
  let log := r.2.1
  let logStr := if log.isEmpty then "-" else
    ",".intercalate (log.map fun a => s!"{a.index}:{(a.name.map fun n => encStr n.toList).getD "-"}:{a.len}")
  match r.1 with
  | .trav (.panic _) => "panic"
  | res => s!"{resStr res} cb={logStr}"

def opXcode (s : Schema) (ks : KeySrc) (tgt : Target) : String :=
  match s.transcode ks tgt with
  | (.err (.panic _), _) => "panic"
  | (.err e, _) => nodeStr (.err e)
  | (n, t) => s!"{nodeStr n} {showTarget t}"

def itemStr : IterItem → String
  | .node t n => (nodeStr n).replace " " "" ++ "@" ++ showTarget t
  | .capErr d => s!"caperr{d}"

/-- iterate; returns printed items or "panic"/"ENDLESS" marker -/
partial def iterAll (s : Schema) (D : Nat) (fresh : Target) (it : IterSt) (limit : Nat)
    (exact : Option Nat) (acc : Array String) (n : Nat) : Array String × IterSt × Option Nat × Bool :=
  let acc := match exact with
    | some c => acc.push s!"len{c}"
    | none => acc
  match it.next s D fresh (D + 3) with
  | none => (acc.push "OUTOFFUEL", it, exact, false)
  | some (.panic _) => (#["panic"], it, exact, false)
  | some .done => (acc, it, exact, true)
  | some (.retry _) => (acc.push "OUTOFFUEL", it, exact, false)
  | some (.yield x it') =>
    let acc := acc.push (itemStr x)
    let exact := exact.map (· - 1)
    let stop : Bool := match exact with
      | some _ => decide (acc.size > 2 * limit)
      | none => decide (n + 1 > limit)
    if stop then (acc.push "ENDLESS", it', exact, false)
    else iterAll s D fresh it' limit exact acc (n + 1)

def extraPolls (s : Schema) (D : Nat) (fresh : Target) : Nat → IterSt → Nat × IterSt
  | 0, it => (0, it)
  | k + 1, it =>
    match it.next s D fresh (D + 3) with
    | some (.yield _ it') => let r := extraPolls s D fresh k it'; (r.1 + 1, r.2)
    | _ => extraPolls s D fresh k it

/-- `root()` applied with each key in turn; `root()` starts from a cleared state, so only its own key matters (an
earlier root only has to succeed) -/
def rootAll (s : Schema) (D : Nat) : List KeySrc → IterSt → Except Trav IterSt
  | [], it => .ok it
  | ks :: rest, _ =>
    match IterSt.withRoot s D ks with
    | .ok it => rootAll s D rest it
    | .error e => .error e

def opIter (s : Schema) (D : Nat) (roots : List KeySrc) (fresh : Target) (polls : Nat) (exact : Bool)
    (limit : Nat) : String :=
  let it0 : Except Trav IterSt := rootAll s D roots (IterSt.init D)
  match it0 with
  | .error (.panic _) => "panic"
  | .error e => s!"rooterr {travStr e}"
  | .ok it =>
    -- `exact_size()` asserts: not started, rooted at the tree root, D ≥ max_depth
    if exact ∧ (it.root ≠ 0 ∨ D < s.meta.maxDepth) then "panic" else
    let ex := if exact then some s.meta.count else none
    let (items, it', ex', finished) := iterAll s D fresh it limit ex #[] 0
    if items == #["panic"] then "panic" else
    if !finished then " ".intercalate items.toList else
    let (extra, _) := extraPolls s D fresh polls it'
    let tail := match ex' with
      | some c => s!"extra{extra} len{c}"
      | none => s!"extra{extra}"
    let out := items.push tail
    if out.size ≤ 2000 then " ".intercalate out.toList
    else s!"n={out.size} " ++ " ".intercalate (out.toList.take 3) ++ " ... " ++ " ".intercalate (out.toList.drop (out.size - 4))

def lookupStr : Lookup → String
  | .named ns => "n:" ++ ",".intercalate ns
  | .numbered n => s!"u:{n}"
  | .homog n => s!"h:{n}"

/-- the harness's recording `Walk` (`Rec` in rt.rs), run through the model's generic `traverse_all` -/
def walkRec (s : Schema) : String :=
  s.walkAll "L" (fun ws lk => "(" ++ lookupStr lk ++ " " ++ " ".intercalate ws ++ ")")

def opMeta (s : Schema) : String :=
  let m := s.meta
  s!"count={m.count} depth={m.maxDepth} length={m.maxLength} bits={m.maxBits} sep1={m.maxLength + m.maxDepth} sep4={m.maxLength + m.maxDepth * 4} walk={(walkRec s).replace " " "_"}"

def runOp (s : Schema) : List String → String
  | ["trav", ks, cbfail] =>
    match keySpec ks with
    | some ks => opTrav s ks cbfail.toNat?
    | none => "bad-op"
  | ["xcode", ks, target, cap] =>
    match keySpec ks, cap.toNat? with
    | some ks, some cap =>
      match mkTarget target cap with
      | some t => opXcode s ks t
      | none => "bad-op"
    | _, _ => "bad-op"
  | ["iter", d, root, target, cap, polls, exact, limit] =>
    match d.toNat?, cap.toNat?, polls.toNat?, limit.toNat? with
    | some d, some cap, some polls, some limit =>
      if d ∉ [0, 1, 2, 3, 4, 5, 6, 8] then "bad-op" else
      let tgtName := if target = "idxarr" then "idx" else target
      let cap' := if target = "idxarr" then d else if target = "hpath47" then 3 else cap
      if target ∉ ["unit", "packed", "idx", "idxarr", "path47", "path128512", "hpath47", "json"] then "bad-op" else
      let tgtName := if target = "hpath47" then "path47" else tgtName
      match mkTarget tgtName cap' with
      | none => "bad-op"
      | some t =>
        -- `-` | `<keyspec>` | `H<pre>;<keyspec>;…` (`pre` calls of `next()` before rooting: irrelevant to `root()`)
        if root = "-" then opIter s d [] t polls (exact == "1") limit
        else if root.startsWith "H" then
          match (root.drop 1).toString.splitOn ";" with
          | pre :: specs =>
            match pre.toNat?, specs.mapM keySpec with
            | some pre, some kss =>
              if pre > 0 ∧ kss.isEmpty then "bad-op" else opIter s d kss t polls (exact == "1") limit
            | _, _ => "bad-op"
          | [] => "bad-op"
        else match keySpec root with
          | some ks => opIter s d [ks] t polls (exact == "1") limit
          | none => "bad-op"
    | _, _, _, _ => "bad-op"
  | ["meta"] => opMeta s
  | _ => "bad-op"

end MiniconfVerif.TreeDriver
