/-! Leaf value universe and leaf types (what `Leaf<T>` holds in the generated corpus). -/
namespace MiniconfVerif

inductive Ty where
  | int (signed : Bool) (bits : Nat)         -- u8…u64/usize, i8…i64
  | bool
  | float (bits : Nat)                        -- opaque in the model (bit pattern)
  | string (cap : Option Nat)                 -- String / heapless::String<N>
  | opt (t : Ty)
  | arr (n : Nat) (t : Ty)
  | unit
  | struct (fields : List (String × Ty))      -- serde struct with named fields
  | unitEnum (variants : List String)         -- serde unit-variant enum (string tagged in JSON)
  deriving Repr, Inhabited

inductive Val where
  | int (v : Int)
  | bool (b : Bool)
  | float (bits : Nat)
  | str (s : List Char)
  | none
  | some (v : Val)
  | arr (vs : List Val)
  | unit
  | struct (fs : List Val)
  | variant (i : Nat)
  deriving Repr, Inhabited

end MiniconfVerif
