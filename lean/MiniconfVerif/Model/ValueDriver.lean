import MiniconfVerif.Model.Helpers
import MiniconfVerif.Model.Tree
import MiniconfVerif.Model.Codec
import MiniconfVerif.Model.TreeDriver

/-! Line protocol for the value-level stream `tv` (same text as harness/src/vrt.rs). -/
namespace MiniconfVerif.ValueDriver
open MiniconfVerif MiniconfVerif.PathIter MiniconfVerif.PathDriver MiniconfVerif.TreeDriver MiniconfVerif.Codec

/-! ### parsing -/

def tyOf : String → Option Ty
  | "u8" => some (.int false 8) | "u16" => some (.int false 16) | "u32" => some (.int false 32)
  | "u64" => some (.int false 64) | "usize" => some (.int false 64)
  | "i8" => some (.int true 8) | "i16" => some (.int true 16) | "i32" => some (.int true 32)
  | "i64" => some (.int true 64) | "bool" => some .bool
  | "f32" => some (.float 32) | "f64" => some (.float 64)
  | "string" => some (.string none) | "hstr8" => some (.string (some 8)) | "hstr64" => some (.string (some 64))
  | "hstr256" => some (.string (some 256))
  | "opti32" => some (.opt (.int true 32)) | "arr3i16" => some (.arr 3 (.int true 16))
  | "unit" => some .unit
  | "sstruct" => some (.struct [("a", .int false 8), ("b", .bool)])
  | "uenum" => some (.unitEnum ["Red", "Green", "Blue"])
  | _ => none

/-- value text: `i-5 b1 f<bits> s<cps> n o<v> A(v,v) u T(v,v) v<i>` -/
partial def parseVal (s : List Char) : Option (Val × List Char) :=
  let num (cs : List Char) : List Char × List Char :=
    (cs.takeWhile (fun c => c.isDigit || c == '-'), cs.dropWhile (fun c => c.isDigit || c == '-'))
  let rec list (cs : List Char) (acc : List Val) : Option (List Val × List Char) :=
    match cs with
    | ')' :: r => some (acc.reverse, r)
    | ',' :: r => do
      let (v, r') ← parseVal r
      list r' (v :: acc)
    | _ => none
  match s with
  | 'i' :: r => let (d, r') := num r; (String.ofList d).toInt?.map fun v => (.int v, r')
  | 'b' :: '1' :: r => some (.bool true, r)
  | 'b' :: '0' :: r => some (.bool false, r)
  | 'f' :: r => let (d, r') := num r; (String.ofList d).toNat?.map fun v => (.float v, r')
  | 's' :: r =>
    let tok := r.takeWhile (fun c => c.isDigit || c == '.' || c == 'e')
    (decStr (String.ofList tok)).map fun str => (.str str, r.drop tok.length)
  | 'n' :: r => some (.none, r)
  | 'o' :: r => (parseVal r).map fun (v, r') => (.some v, r')
  | 'u' :: r => some (.unit, r)
  | 'v' :: r => let (d, r') := num r; (String.ofList d).toNat?.map fun v => (.variant v, r')
  | 'A' :: '(' :: ')' :: r => some (.arr [], r)
  | 'A' :: '(' :: r => do
    let (v, r') ← parseVal r
    let (vs, r'') ← list r' [v]
    some (.arr vs, r'')
  | 'T' :: '(' :: r => do
    let (v, r') ← parseVal r
    let (vs, r'') ← list r' [v]
    some (.struct vs, r'')
  | _ => none

def optMsg (s : String) : Option String :=
  if s = "-" then none else (decStr s).map String.ofList

def parseAttrs (t : String) : Option Attrs :=
  match t.splitOn ":" with
  | ["a", id, ds, dd, dr, dm, g, gm, v] => do
    let id ← id.toNat?
    some { id := id, denySer := optMsg ds, denyDe := optMsg dd, denyRef := optMsg dr, denyMut := optMsg dm,
           get := if g = "1" then some none else none,
           getMut := if gm = "1" then some none else none,
           validate := if v = "1" then some .keep else none }
  | _ => none

def gateOf : String → Option GateKind
  | "option" => some .option | "box" => some .box | "cow" => some .cow | "cell" => some .cell
  | "refcell" => some .refCell | "rc" => some .rc | "arc" => some .arc | "rcweak" => some .rcWeak
  | "arcweak" => some .arcWeak | "mutex" => some .mutex | "rwlock" => some .rwLock
  | _ => none

partial def parseTree : List String → Option (Tree × List String)
  | "L" :: kind :: val :: rest => do
    let k ←
      if kind.startsWith "l:" then (tyOf (kind.drop 2).toString).map LeafKind.leaf
      else if kind.startsWith "d:" then (tyOf (kind.drop 2).toString).map LeafKind.deny
      else if kind.startsWith "s:" then some (LeafKind.strLeaf ((kind.drop 2).toString.splitOn ","))
      else none
    let (v, r) ← parseVal val.toList
    if r ≠ [] then none else some (.leaf k v, rest)
  | "A" :: n :: rest => do
    let n ← n.toNat?
    let rec elems (k : Nat) (toks : List String) (acc : List Tree) : Option (List Tree × List String) :=
      match k with
      | 0 => some (acc.reverse, toks)
      | k + 1 => do
        let (t, toks) ← parseTree toks
        elems k toks (t :: acc)
    let (es, rest) ← elems n rest []
    some (.array es, rest)
  | "R" :: n :: rest => do
    let n ← n.toNat?
    let (t, rest) ← parseTree rest
    some (.array (List.replicate n t), rest)
  | "G" :: g :: closed :: rest => do
    let g ← gateOf g
    let (t, rest) ← parseTree rest
    some (.gate g (closed == "1") t, rest)
  | "N" :: flat :: act :: lk :: k :: rest => do
    let lookup ←
      if lk.startsWith "n:" then some (Lookup.named ((lk.drop 2).toString.splitOn ","))
      else if lk.startsWith "u:" then (lk.drop 2).toString.toNat?.map Lookup.numbered
      else none
    let active : Option (Option Nat) ←
      if act = "-" then some none else if act = "x" then some (some none) else act.toNat?.map fun a => some (some a)
    let k ← k.toNat?
    let rec fields (k : Nat) (toks : List String) (acc : List (Attrs × Tree)) : Option (List (Attrs × Tree) × List String) :=
      match k with
      | 0 => some (acc.reverse, toks)
      | k + 1 =>
        match toks with
        | a :: toks => do
          let a ← parseAttrs a
          let (t, toks) ← parseTree toks
          fields k toks ((a, t) :: acc)
        | [] => none
    let (fs, rest) ← fields k rest []
    some (.node (flat == "1") active lookup fs, rest)
  | _ => none

/-! ### gates -/

inductive GMode where
  | getFail | getMutFail | valFail | valReplace (k : Nat) | valFailWith (msg : String)

def parseGates (s : String) : Option (List (Nat × GMode)) :=
  if s = "-" then some [] else
  (s.splitOn ",").mapM fun g =>
    match g.splitOn "=" with
    | [id, m] => do
      let id ← id.toNat?
      if m = "gf" then some (id, .getFail)
      else if m = "mf" then some (id, .getMutFail)
      else if m = "vf" then some (id, .valFail)
      else if m.startsWith "vr" then (m.drop 2).toString.toNat?.map fun k => (id, GMode.valReplace k)
      else none
    | _ => none

def applyGate (a : Attrs) (g : Nat × GMode) : Attrs :=
  if a.id ≠ g.1 ∨ a.id = 0 then a else
  match g.2 with
  | .getFail => if a.get.isSome then { a with get := some (some s!"g{a.id % 8}") } else a
  | .getMutFail => if a.getMut.isSome then { a with getMut := some (some s!"m{a.id % 8}") } else a
  | .valFail => if a.validate.isSome then { a with validate := some (.err s!"v{a.id % 8}") } else a
  | .valReplace k => if a.validate.isSome then { a with validate := some (.replace k) } else a
  | .valFailWith msg => if a.validate.isSome then { a with validate := some (.err msg) } else a

partial def applyGates (gs : List (Nat × GMode)) : Tree → Tree
  | .leaf k v => .leaf k v
  | .array es => .array (es.map (applyGates gs))
  | .gate g c t => .gate g c (applyGates gs t)
  | .node f a lk fs => .node f a lk (fs.map fun (att, t) => (gs.foldl applyGate att, applyGates gs t))

/-! ### printing -/

partial def valStr : Val → String
  | .int v => s!"i{v}"
  | .bool b => if b then "b1" else "b0"
  | .float b => s!"f{b}"
  | .str s => "s" ++ encStr s
  | .none => "n"
  | .some v => "o" ++ valStr v
  | .arr vs => "A(" ++ ",".intercalate (vs.map valStr) ++ ")"
  | .unit => "u"
  | .struct vs => "T(" ++ ",".intercalate (vs.map valStr) ++ ")"
  | .variant i => s!"v{i}"

def pj (p : String) (i : Nat) : String := if p.isEmpty then toString i else s!"{p}.{i}"

/-- whole-tree snapshot in the order and with the presence markers the generated Rust
`snap_k` functions produce -/
partial def snapshot (p : String) : Tree → List String
  | .leaf _ v => [s!"{p}={valStr v}"]
  | .array es => (es.zipIdx.map fun (t, i) => snapshot (pj p i) t).flatten
  | .gate g closed t =>
    match g with
    | .option => if closed then [s!"{p}#=none"] else s!"{p}#=some" :: snapshot p t
    | .rcWeak | .arcWeak => if closed then [s!"{p}#=dangling"] else s!"{p}#=alive" :: snapshot p t
    | _ => snapshot p t
  | .node flat active _ fs =>
    let sub (i : Nat) : String := if flat then p else pj p i
    match active with
    | none => (fs.zipIdx.map fun ((_, t), i) => snapshot (sub i) t).flatten
    | some none => [s!"{p}#=x"]
    | some (some a) =>
      match fs[a]? with
      | some (_, t) => s!"{p}#={a}" :: snapshot (sub a) t
      | none => [s!"{p}#=x"]

def snapStr (t : Tree) : String := ",".intercalate (snapshot "" t)

def logStr (l : List Ev) : String :=
  if l.isEmpty then "-" else ",".intercalate (l.map fun
    | .get i => s!"g{i}"
    | .getMut i => s!"m{i}"
    | .validate i d => s!"v{i}:{d}")

def hexStr (b : List Nat) : String :=
  if b.isEmpty then "-" else
  String.join (b.map fun x =>
    let d (n : Nat) : Char := if n < 10 then Char.ofNat (48 + n) else Char.ofNat (87 + n)
    String.ofList [d (x / 16), d (x % 16)])

def unhex (s : String) : Option (List Nat) :=
  if s = "-" then some [] else
  let cs := s.toList
  let hv (c : Char) : Option Nat :=
    if c.isDigit then some (c.toNat - 48) else if 'a' ≤ c ∧ c ≤ 'f' then some (c.toNat - 87) else none
  let rec go : List Char → Option (List Nat)
    | [] => some []
    | a :: b :: r => do
      let x ← hv a
      let y ← hv b
      let rest ← go r
      some ((x * 16 + y) :: rest)
    | _ => none
  go cs

def leafTy : LeafKind → Option Ty
  | .leaf t | .deny t => some t
  | .strLeaf _ => none

def isFloatLeaf : LeafKind → Bool
  | .leaf (.float _) => true
  | _ => false

/-- JSON text of a leaf value (`StrLeaf` serializes the variant name as a string) -/
def leafJson (k : LeafKind) (v : Val) : Option (List Char) :=
  match k, v with
  | .leaf t, v => jsonEnc t v
  | .strLeaf names, .variant i => names[i]?.map fun n => '"' :: n.toList ++ ['"']
  | _, _ => none

def leafPc (k : LeafKind) (v : Val) : Option (List Nat) :=
  match k, v with
  | .leaf t, v => pcEnc t v
  | .strLeaf names, .variant i => names[i]?.map fun n => let b := utf8Bytes n.toList; varint b.length ++ b
  | _, _ => none

def jsonDecLeaf (k : LeafKind) (payload : List Char) : Option (Val × List Char) :=
  match k with
  | .leaf t => jsonDec t payload
  | .strLeaf _ => (decString payload).map fun (s, r) => (.str s, r)
  | .deny _ => none

def pcDecLeaf (k : LeafKind) (payload : List Nat) : Option (Val × List Nat) :=
  match k with
  | .leaf t => pcDec t payload
  | .strLeaf _ => (pcDec (.string none) payload)
  | .deny _ => none

def encJsonFits (n : Nat) (k : LeafKind) (v : Val) : Bool :=
  match leafJson k v with
  | some txt => decide (byteLen txt ≤ n)
  | none => false

def encPcFits (n : Nat) (k : LeafKind) (v : Val) : Bool :=
  match leafPc k v with
  | some b => decide (b.length ≤ n)
  | none => false

def decJsonOpt (p? : Option (List Char)) (k : LeafKind) : Option Val :=
  match p? with
  | some p => (jsonDecLeaf k p).map (·.1)
  | none => none

def decJsonClean (p? : Option (List Char)) (k : LeafKind) : Option Val :=
  match p? with
  | some p =>
    match jsonDecLeaf k p with
    | some (v, rest) => if (skipWs rest).isEmpty then some v else none
    | none => none
  | none => none

/-- does the op's leaf (if reached) hold a float?  (floats are opaque in the model) -/
def touchesFloat (o : Out) : Bool := (o.leaf.map isFloatLeaf).getD false

structure OpOut where
  text : String
  tree : Tree
  stop : Bool := false   -- `FLOAT`: the model cannot follow this case further

def runOp (t : Tree) (f : List String) : Option OpOut :=
  match f with
  | ["snap"] => some { text := s!"snap={snapStr t}", tree := t }
  | name :: ksText :: args =>
    match keySpec ksText with
    | none => none
    | some ks =>
      let fin (o : Out) (r : String) (mutating : Bool) : OpOut :=
        if touchesFloat o then { text := "FLOAT", tree := t, stop := true }
        else if mutating then { text := s!"{r} log={logStr o.log} snap={snapStr o.tree}", tree := o.tree }
        else { text := s!"{r} log={logStr o.log}", tree := t }
      match name, args with
      | "jget", [n] | "ser", [n] =>
        match n.toNat? with
        | none => none
        | some n =>
          let io : Io := ⟨encJsonFits n, fun _ => none⟩
          let o := t.walk io .ser ks
          let r := match o.res, o.leaf, o.val with
            | .ok d, some k, some v =>
              match leafJson k v with
              | some txt =>
                if name = "jget" then
                  -- `json::get_by_key`: the walk, then `ser.end()` = bytes written (Model/Helpers.getThenEnd)
                  match getThenEnd o.res (byteLen txt) with
                  | .ok n => s!"ok {n} {encStr txt}"
                  | .walk r => resStr r
                  | .final => "final"
                else s!"ok {d} {encStr txt}"
              | none => "ok ?"
            | r, _, _ => resStr r
          some (fin o r false)
      | "jset", [payload] | "de", [payload] =>
        match decStr payload with
        | none => none
        | some p =>
          let io : Io := ⟨fun _ _ => false, decJsonOpt (some p)⟩
          let o := t.walk io .de ks
          let r := match o.res, o.leaf with
            | .ok d, some k =>
              if name = "de" then s!"ok {d}" else
              match jsonDecLeaf k p with
              | some (_, rest) =>
                -- `json::set_by_key`: the walk, then `de.end()` (only whitespace may remain) (Model/Helpers.setThenEnd)
                match setThenEnd o.res (if (skipWs rest).isEmpty then some (byteLen p) else none) with
                | .ok n => s!"ok {n}"
                | .final => "final"
                | .walk r => resStr r
              | none => "ok ?"
            | r, _ => resStr r
          some (fin o r true)
      | "pget", [n] =>
        match n.toNat? with
        | none => none
        | some n =>
          let io : Io := ⟨encPcFits n, fun _ => none⟩
          let o := t.walk io .ser ks
          let r := match o.res, o.leaf, o.val with
            | .ok _, some k, some v =>
              match leafPc k v with
              | some b => s!"ok {b.length} {hexStr b}"
              | none => "ok ?"
            | r, _, _ => resStr r
          some (fin o r false)
      | "pset", [payload] =>
        match unhex payload with
        | none => none
        | some p =>
          let io : Io := ⟨fun _ _ => false, fun k => (pcDecLeaf k p).map (·.1)⟩
          let o := t.walk io .de ks
          let r := match o.res, o.leaf with
            | .ok _, some k =>
              match pcDecLeaf k p with
              | some (_, rest) => s!"ok {p.length - rest.length}"
              | none => "ok ?"
            | r, _ => resStr r
          some (fin o r true)
      | "ref", [] =>
        let io : Io := ⟨fun _ _ => true, fun _ => none⟩
        let o := t.walk io .refAny ks
        let r := match o.res, o.val with
          | .ok _, some v => s!"ok {valStr v}"
          | r, _ => resStr r
        some (fin o r false)
      | "mut", [payload] =>
        let p? := if payload = "-" then none else decStr payload
        -- `*downcast_mut() = serde_json_core::from_slice(payload)`: the whole payload must parse
        let io : Io := ⟨fun _ _ => true, decJsonClean p?⟩
        let o := t.walk io .mutAny ks
        let r := match o.res, o.leaf with
          | .ok _, some k =>
            match p? with
            | none => "ok access"
            | some p => if (decJsonClean (some p) k).isSome then "ok assigned" else "ok nodecode"
          | r, _ => resStr r
        some (fin o r true)
      | _, _ => none
  | _ => none

/-- `tv` args after tid/state: `gates op op …` -/
def run (t : Tree) : List String → String
  | gates :: ops =>
    match parseGates gates with
    | none => "bad-op"
    | some gs =>
      let t := applyGates gs t
      let rec go (t : Tree) (ops : List String) (acc : List String) : String :=
        match ops with
        | [] => " ; ".intercalate acc.reverse
        | o :: rest =>
          match runOp t (o.splitOn "|") with
          | none => "bad-op"
          | some r =>
            if r.stop then " ; ".intercalate (r.text :: acc).reverse
            else go r.tree rest (r.text :: acc)
      go t ops []
  | _ => "bad-op"

end MiniconfVerif.ValueDriver
