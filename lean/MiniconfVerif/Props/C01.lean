import MiniconfVerif.Lemmas.Walk

/-! # C01 — by-key write hits exactly the designated leaf; failed access changes nothing
(first instalment: the "changes nothing" half for every tree, state, key source and
(de)serializer; the `setLeaf` frame theorem is being added, see DESIGN.md §7 C01) -/
namespace MiniconfVerif.C01
open MiniconfVerif

/-- A by-key access that fails with a traversal, access or (de)serialization error —
anything but a validator rejection — leaves the whole tree unchanged; for every tree
(any nesting, wrappers, attributes, runtime state), operation, key source and codec. -/
theorem failed_access_changes_nothing (io : Io) (op : Op) (t : Tree) (ks : KeySrc)
    (h : (t.walk io op ks).res.keepsTree = true) : (t.walk io op ks).tree = t :=
  walk_err_tree io op t ks h

/-- A read (serialize, immutable any) never modifies the tree, whatever its outcome. -/
theorem read_never_modifies (io : Io) (t : Tree) (ks : KeySrc) :
    (t.walk io .ser ks).tree = t ∧ (t.walk io .refAny ks).tree = t :=
  ⟨walk_read_tree io .ser rfl t ks, walk_read_tree io .refAny rfl t ks⟩

/-- the documented exception: after a validator rejection the leaf below has been written.
Witness that the exclusion in `failed_access_changes_nothing` is necessary. -/
def exT : Tree := .node false none (.named ["v"]) [({ id := 1, validate := some (.err "no") }, .leaf (.leaf (.int false 8)) (.int 1))]
def exIo : Io := ⟨fun _ _ => true, fun _ => some (.int 9)⟩
example : (exT.walk exIo .de (.list [.str "v".toList])).res = .trav (.invalid 1 "no") := by decide
example : (exT.walk exIo .de (.list [.str ['v']])).tree =
    .node false none (.named ["v"]) [({ id := 1, validate := some (.err "no") }, .leaf (.leaf (.int false 8)) (.int 9))] := by
  rfl
example : (exT.walk exIo .de (.list [.str "w".toList])).res.keepsTree = true := by decide

end MiniconfVerif.C01
