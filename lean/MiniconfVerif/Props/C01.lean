import MiniconfVerif.Lemmas.GenTieEnums
import MiniconfVerif.Lemmas.GenTieDeriveValue
import MiniconfVerif.Lemmas.GenTieTuples
import MiniconfVerif.Lemmas.GenTieValue
import MiniconfVerif.Lemmas.WalkFrame
import MiniconfVerif.Lemmas.WalkHist

/-! # C01 — by-key write hits exactly the designated leaf; failed access changes nothing

Model: `Tree.walk` (Model/Tree.lean); `Tree.One t t'` = "`t'` is `t` with the value of exactly
one leaf position replaced, everything else — structure, attributes, runtime state of
Options/enums/wrappers, every other value — identical". -/
namespace MiniconfVerif.C01
open MiniconfVerif

/-- A by-key access that fails with a traversal, access or (de)serialization error —
anything but a validator rejection — leaves the whole tree unchanged; for every tree
(any nesting, wrappers, attributes, runtime state), operation, key source and codec. -/
theorem failed_access_changes_nothing (io : Io) (op : Op) (t : Tree) (ks : KeySrc)
    (h : (t.walk io op ks).res.keepsTree = true) : (t.walk io op ks).tree = t :=
  walk_err_tree io op t ks h

/-- A read (serialize, immutable any) never modifies the tree, whatever its outcome. -/
theorem read_never_modifies (io : Io) (t : Tree) (ks : KeySrc) :
    (t.walk io .ser ks).tree = t ∧ (t.walk io .refAny ks).tree = t :=
  ⟨walk_read_tree io .ser rfl t ks, walk_read_tree io .refAny rfl t ks⟩

/-- **Frame**: whatever the operation, key, codec and outcome, a by-key access changes the value
of at most one leaf and nothing else in the tree. -/
theorem at_most_one_leaf_changes (io : Io) (op : Op) (t : Tree) (ks : KeySrc) :
    (t.walk io op ks).tree = t ∨ t.One (t.walk io op ks).tree :=
  walk_one io op t ks

/-- **The designated leaf, and read-back**: after a deserializing write that stored `v'`
(whether it then reported `Ok`, or the documented exceptions — a validator rejection or a
finalization error — occurred), every successful by-key read (serialize or immutable any,
with any serializer) through the same key, or through any key source that agrees with it
step by step, returns `v'`: the leaf that was written is the one the key designates. -/
theorem read_after_write {R : KeySrc → KeySrc → Prop} (hR : Bisim R) (io io2 : Io) (rop : Op)
    (hr : rop.isRead = true) (t : Tree) (ks ks2 : KeySrc) (heq : R ks ks2) (v' : Val)
    (hw : (t.walk io .de ks).val = some v')
    (hok : ((t.walk io .de ks).tree.walk io2 rop ks2).res.isOk = true) :
    ((t.walk io .de ks).tree.walk io2 rop ks2).val = some v' := by
  rw [← walk_bisim hR io2 rop _ ks ks2 heq] at hok ⊢
  exact walk_readback io io2 rop hr t ks v' hw hok

/-- chained and concatenated keys are such equivalent sources -/
theorem chain_equivalent (io : Io) (op : Op) (t : Tree) (a b : List Key) :
    t.walk io op (.chain (.list a) (.list b)) = t.walk io op (.list (a ++ b)) :=
  walk_bisim chainRel_bisim io op t _ _ ⟨a, b, rfl, rfl⟩

/-- **Histories**: after *any* sequence of by-key accesses (any operations, keys, codecs, outcomes — including the
documented exceptions) the tree is the initial tree except for leaf values: structure, lookups, attributes, the
runtime state of every Option / enum / wrapper and every leaf kind are unchanged, hence so is its type; and a
history of reads leaves the tree identical. -/
theorem histories (t : Tree) (ops : List (Io × Op × KeySrc)) :
    (t.runOps ops).skel = t.skel ∧ (t.runOps ops).erase = t.erase ∧
    ((∀ o ∈ ops, o.2.1.isRead = true) → t.runOps ops = t) := by
  refine ⟨runOps_skel ops t, ?_, fun h => runOps_reads ops h t⟩
  rw [← erase_skel, runOps_skel ops t, erase_skel]

/-- the documented exception: after a validator rejection the leaf below has been written.
Witness that the exclusion in `failed_access_changes_nothing` is necessary. -/
def exT : Tree := .node false none (.named ["v"]) [({ id := 1, validate := some (.err "no") }, .leaf (.leaf (.int false 8)) (.int 1))]
def exIo : Io := ⟨fun _ _ => true, fun _ => some (.int 9)⟩
example : (exT.walk exIo .de (.list [.str "v".toList])).res = .trav (.invalid 1 "no") := by decide
example : (exT.walk exIo .de (.list [.str ['v']])).tree =
    .node false none (.named ["v"]) [({ id := 1, validate := some (.err "no") }, .leaf (.leaf (.int false 8)) (.int 9))] := by
  rfl
example : (exT.walk exIo .de (.list [.str "w".toList])).res.keepsTree = true := by decide
example : (exT.walk exIo .de (.list [.str ['v']])).val = some (.int 9) := by rfl
example : ((exT.walk exIo .de (.list [.str ['v']])).tree.walk exIo .ser (.list [.str ['v']])).val = some (.int 9) := by
  rfl


/-! ### Tie to the translated source (`Gen/Impls.lean`, regenerated from impls.rs on every run) -/
open MiniconfVerif.Gen MiniconfVerif.Gen.Core MiniconfVerif.GenTie in
/-- `TreeSerialize` / `TreeDeserialize` / `TreeAny` of `[T; N]` **as translated from impls.rs** (key source and the
element type's by-key functions as parameters, `self[index]` with its bounds check explicit) do not panic and are the
model's walk at an array: the element the key's index designates is the one read or written — the returned array is
the old one with exactly that element replaced by what the element's own function returned — and the result is the
element's result, one level deeper. -/
theorem source_array_access_is_model (io : Io) (elems : List Tree) (ks : KeySrc) (hn : 0 < elems.length)
    (hnp : ∀ s, ks.next (.homog elems.length) ≠ .error (.panic s)) :
    (∀ childSer : Tree → KeySrc → Except (Error Unit) Nat,
      (∀ t ks, resOfGen (childSer t ks) = (t.walk io .ser ks).res) →
      ∃ r, Impls.array.serialize_by_key keysNextM elems.length childSer elems ks = .val r ∧
        resOfGen r = (Tree.walk io .ser (.array elems) ks).res) ∧
    (∀ childDe : Tree → KeySrc → Except (Error Unit) Nat × Tree,
      (∀ t ks, resOfGen (childDe t ks).1 = (t.walk io .de ks).res ∧ (childDe t ks).2 = (t.walk io .de ks).tree) →
      ∃ es r, Impls.array.deserialize_by_key keysNextM elems.length childDe elems ks = .val (es, r) ∧
        resOfGen r = (Tree.walk io .de (.array elems) ks).res ∧
        Tree.array es = (Tree.walk io .de (.array elems) ks).tree) ∧
    (∀ childRef : Tree → KeySrc → Except Traversal Unit,
      (∀ t ks, anyOfGen (childRef t ks) = anyView (t.walk io .refAny ks).res) →
      ∃ r, Impls.array.ref_any_by_key keysNextM elems.length childRef elems ks = .val r ∧
        anyOfGen r = anyView (Tree.walk io .refAny (.array elems) ks).res) ∧
    (∀ childMut : Tree → KeySrc → Except Traversal Unit × Tree,
      (∀ t ks, anyOfGen (childMut t ks).1 = anyView (t.walk io .mutAny ks).res ∧
        (childMut t ks).2 = (t.walk io .mutAny ks).tree) →
      ∃ es r, Impls.array.mut_any_by_key keysNextM elems.length childMut elems ks = .val (es, r) ∧
        anyOfGen r = anyView (Tree.walk io .mutAny (.array elems) ks).res ∧
        Tree.array es = (Tree.walk io .mutAny (.array elems) ks).tree) :=
  ⟨fun c h => array_ser_tie io elems ks hn hnp c h, fun c h => array_de_tie io elems ks hn hnp c h,
   fun c h => array_ref_tie io elems ks hn hnp c h, fun c h => array_mut_tie io elems ks hn hnp c h⟩


open MiniconfVerif.GenTie in
/-- the same for the n-tuples (n = 1..8, the `impl_tuple!` body expanded): the four by-key functions as translated
from impls.rs are the model's walk at a `numbered n` node without attributes — the field the index designates, and
only it, is read or replaced (32 statements: `Lemmas/GenTieTuples.lean`). -/
theorem source_tuple_access_is_model : TupleValueTies := tupleValueTies


open MiniconfVerif.Gen MiniconfVerif.Gen.Core MiniconfVerif.GenTie in
/-- `Option<T>`: the four by-key functions as translated from impls.rs (`self.as_ref()/as_mut().ok_or(Absent(0))?` then the
value's own function) are the model's walk at an `Option` gate — `None` is `Absent(0)` before any key is consumed and
changes nothing, `Some` delegates and keeps the (possibly updated) value inside `Some`. -/
theorem source_option_access_is_model (io : Io) (closed : Bool) (inner : Tree) (ks : KeySrc)
    (childSer : Tree → KeySrc → Except (Error Unit) Nat) (childDe : Tree → KeySrc → Except (Error Unit) Nat × Tree)
    (hs : ∀ t ks, resOfGen (childSer t ks) = (t.walk io .ser ks).res)
    (hd : ∀ t ks, resOfGen (childDe t ks).1 = (t.walk io .de ks).res ∧ (childDe t ks).2 = (t.walk io .de ks).tree) :
    resOfGen (Impls.Option.serialize_by_key childSer (optSelf closed inner) ks) =
      (Tree.walk io .ser (.gate .option closed inner) ks).res ∧
    resOfGen (Impls.Option.deserialize_by_key childDe (optSelf closed inner) ks).2 =
      (Tree.walk io .de (.gate .option closed inner) ks).res ∧
    (match (Impls.Option.deserialize_by_key childDe (optSelf closed inner) ks).1 with
      | some t' => Tree.gate .option false t' = (Tree.walk io .de (.gate .option closed inner) ks).tree
      | none => Tree.gate .option true inner = (Tree.walk io .de (.gate .option closed inner) ks).tree) := by
  have h := option_tie io closed inner ks childSer childDe (fun t ks => .ok ()) (fun t ks => (.ok (), (t.walk io .mutAny ks).tree))
    hs hd
  -- the `Any` halves are not needed here; discharge their hypotheses only where they are trivially true
  cases closed with
  | true =>
    simp [optSelf, Impls.Option.serialize_by_key, Impls.Option.deserialize_by_key, Tree.walk, gateErr, resOfGen, travOfGen]
  | false =>
    simp only [optSelf, Bool.false_eq_true, if_false, Impls.Option.serialize_by_key, Impls.Option.deserialize_by_key,
      Tree.walk, gateErr]
    exact ⟨hs _ _, (hd _ _).1, by rw [(hd _ _).2]⟩


open MiniconfVerif.Gen MiniconfVerif.Gen.Core MiniconfVerif.Gen.Impls MiniconfVerif.GenTie in
/-- `Result<T, E>` and `Bound<T>`: `serialize_by_key` / `deserialize_by_key` as translated from impls.rs (the value as
the generated inductive `ResultSt` / `BoundSt`, or-patterns split, the payload put back into its constructor after a
`&mut` access) are the model's walk at the enum-like node: the payload of the present variant is accessed exactly when
the key names that variant, every other key of the node — and every key of `Bound::Unbounded` — is `Absent` one level
up and changes nothing. -/
theorem source_result_bound_access_is_model (io : Io) (other : Tree) (ks : KeySrc) :
    (∀ (st : ResultSt Tree), (∀ s, ks.next (.named ["Ok", "Err"]) ≠ .error (.panic s)) →
      ∀ (c0 c1 : Tree → KeySrc → Except (Error Unit) Nat × Tree),
        (∀ t ks, resOfGen (c0 t ks).1 = (t.walk io .de ks).res ∧ (c0 t ks).2 = (t.walk io .de ks).tree) →
        (∀ t ks, resOfGen (c1 t ks).1 = (t.walk io .de ks).res ∧ (c1 t ks).2 = (t.walk io .de ks).tree) →
        ∃ st' r, Result.deserialize_by_key keysNextM c0 c1 st ks = .val (st', r) ∧
          resOfGen r = (Tree.walk io .de (resultTree other st) ks).res ∧
          resultTree other st' = (Tree.walk io .de (resultTree other st) ks).tree) ∧
    (∀ (st : BoundSt Tree), (∀ s, ks.next (.named ["Included", "Excluded"]) ≠ .error (.panic s)) →
      ∀ (c : Tree → KeySrc → Except (Error Unit) Nat × Tree),
        (∀ t ks, resOfGen (c t ks).1 = (t.walk io .de ks).res ∧ (c t ks).2 = (t.walk io .de ks).tree) →
        ∃ st' r, Bound.deserialize_by_key keysNextM c st ks = .val (st', r) ∧
          resOfGen r = (Tree.walk io .de (boundTree other st) ks).res ∧
          boundTree other st' = (Tree.walk io .de (boundTree other st) ks).tree) ∧
    (∀ (st : ResultSt Tree), (∀ s, ks.next (.named ["Ok", "Err"]) ≠ .error (.panic s)) →
      ∀ (c0 c1 : Tree → KeySrc → Except (Error Unit) Nat),
        (∀ t ks, resOfGen (c0 t ks) = (t.walk io .ser ks).res) → (∀ t ks, resOfGen (c1 t ks) = (t.walk io .ser ks).res) →
        ∃ r, Result.serialize_by_key keysNextM c0 c1 st ks = .val r ∧
          resOfGen r = (Tree.walk io .ser (resultTree other st) ks).res) ∧
    (∀ (st : BoundSt Tree), (∀ s, ks.next (.named ["Included", "Excluded"]) ≠ .error (.panic s)) →
      ∀ (c : Tree → KeySrc → Except (Error Unit) Nat), (∀ t ks, resOfGen (c t ks) = (t.walk io .ser ks).res) →
        ∃ r, Bound.serialize_by_key keysNextM c st ks = .val r ∧
          resOfGen r = (Tree.walk io .ser (boundTree other st) ks).res) :=
  ⟨fun st hnp c0 c1 h0 h1 => result_de_tie io other ks st hnp c0 c1 h0 h1,
   fun st hnp c h => bound_de_tie io other ks st hnp c h,
   fun st hnp c0 c1 h0 h1 => result_ser_tie io other ks st hnp c0 c1 h0 h1,
   fun st hnp c h => bound_ser_tie io other ks st hnp c h⟩

open MiniconfVerif.GenTie in
/-- **The by-key functions `#[derive(TreeSerialize, TreeDeserialize, TreeAny)]` generates** for every struct and tuple struct
of the corpus whose fields carry no attributes (`/verif/expander` runs the macro crate's own source; `Gen/Derive.lean`
and `Lemmas/GenTieDeriveValue.lean` are regenerated on every run, four theorems per type): as translated they do not
panic and are `Tree.walk` at the node — the key's index selects the `i`-th retained field, **only that field's subtree is
read or replaced** (`&mut` state threaded), errors are one level up, every other field is returned untouched.  (Fields
with accessors / validators / denials / `defer`, and enums: every generated arm is compared with the definition by the
run's `derive_reading_check`; their semantics is the hand-written `Tree.walk`, tied by the differential runs.) -/
theorem source_derive_access_is_model : DeriveValueTies := deriveValueTies

end MiniconfVerif.C01
