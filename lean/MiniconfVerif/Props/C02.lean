import MiniconfVerif.Lemmas.GenTieLeaf
import MiniconfVerif.Lemmas.GenTieDerive
import MiniconfVerif.Lemmas.GenTieImpls
import MiniconfVerif.Lemmas.GenTie
import MiniconfVerif.Lemmas.GenTieWrappers
import MiniconfVerif.Lemmas.WalkStruct
import MiniconfVerif.Lemmas.Factor

/-! # C02 — every by-key operation classifies a key as the documented top-down walk does

Model: `Tree.walk` (Model/Tree.lean) is the by-key access of `TreeSerialize`, `TreeDeserialize`
and `TreeAny` on a type *with its runtime state*; `Schema.traverse` on `Tree.erase` is the
type-level `traverse_by_key`.  The per-node step order is stated as equations of the walk;
`one_walk` is the global statement. -/
namespace MiniconfVerif.C02
open MiniconfVerif

/-- a leaf reports surplus keys (`TooLong`) before touching the value, for every operation -/
theorem leaf_surplus_first (io : Io) (op : Op) (k : LeafKind) (v : Val) (ks : KeySrc) (e : Trav)
    (h : ks.finalize = .error e) :
    (Tree.leaf k v |>.walk io op ks).res = .trav e ∧ (Tree.leaf k v |>.walk io op ks).tree = .leaf k v := by
  simp [Tree.walk, h]

/-- an absent/closed container is reported before any key is looked at -/
theorem closed_container_first (io : Io) (op : Op) (g : GateKind) (inner : Tree) (ks : KeySrc) (e : Trav)
    (h : gateErr g op true = some e) : (Tree.gate g true inner |>.walk io op ks).res = .trav e := by
  simp [Tree.walk, h]

/-- key exhausted / key not found are decided by the key lookup alone, before variant
presence, deny attributes or accessors are consulted -/
theorem lookup_before_arm (io : Io) (op : Op) (active : Option (Option Nat)) (lk : Lookup)
    (fs : List (Attrs × Tree)) (ks : KeySrc) (e : Trav) (h : ks.next lk = .error e) :
    (Tree.node false active lk fs |>.walk io op ks).res = .trav e := by
  simp [Tree.walk, h]

/-- an absent enum variant is reported (at the depth of the consumed key) before the
field's deny attribute or accessor is consulted -/
theorem absent_variant_before_accessor (io : Io) (op : Op) (a : Option Nat) (lk : Lookup)
    (fs : List (Attrs × Tree)) (ks ks' : KeySrc) (i : Nat) (h : ks.next lk = .ok (i, ks')) (ha : a ≠ some i) :
    (Tree.node false (some a) lk fs |>.walk io op ks).res = .trav (.absent 1) := by
  simp [Tree.walk, h, ha, Res.incr, Trav.incr]

/-- a flattened container consumes no key and adds no depth -/
theorem flatten_adds_no_depth (io : Io) (op : Op) (lk : Lookup) (a : Attrs) (t : Tree) (ks : KeySrc) :
    (Tree.node true none lk [(a, t)] |>.walk io op ks).res = (Tree.walk.goFld io op [(a, t)] 0 ks).1.res := by
  simp [Tree.walk]

/-- **One walk for all five operations.** For every well-formed tree in every runtime state,
every operation (serialize, deserialize, immutable any, mutable any), every (de)serializer
behaviour and every key source: the result either is pre-empted by something that depends on
the runtime state or the value (absent variant / closed container, denied or failing
accessor, (de)serialization or validation failure), or it is exactly what the type-level
traversal of the erased type reports for that key — the same `TooShort`/`NotFound`/`TooLong`
with the same depth, or a reached leaf. -/
theorem one_walk (io : Io) (op : Op) (t : Tree) (ks : KeySrc) (h : t.WF) :
    Agree (t.walk io op ks).res (t.erase.traverse cb0 ks ()).1 :=
  walk_agree io op t ks h

/-- hence any two operations (with any codecs) that are not pre-empted report the same
structural outcome, and it does not depend on the runtime state: two trees of the same
type in different states agree as well -/
theorem operations_agree (io io' : Io) (op op' : Op) (t t' : Tree) (ks : KeySrc) (h : t.WF) (h' : t'.WF)
    (he : t.erase = t'.erase)
    (hp : (t.walk io op ks).res.preempt = false) (hp' : (t'.walk io' op' ks).res.preempt = false) :
    (t.walk io op ks).res = (t'.walk io' op' ks).res ∨
      (∃ d d', (t.walk io op ks).res = .ok d ∧ (t'.walk io' op' ks).res = .ok d') := by
  have h1 := walk_agree io op t ks h
  have h2 := walk_agree io' op' t' ks h'
  rw [← he] at h2
  rcases h1 with h1 | h1 | ⟨d1, e1, h1, h1'⟩
  · rw [hp] at h1; cases h1
  · rcases h2 with h2 | h2 | ⟨d2, e2, h2, h2'⟩
    · rw [hp'] at h2; cases h2
    · left; rw [h1, h2]
    · right; exact ⟨e2, d2, by rw [h1, h2'], h2⟩
  · rcases h2 with h2 | h2 | ⟨d2, e2, h2, _⟩
    · rw [hp'] at h2; cases h2
    · right; exact ⟨d1, e1, h1, by rw [h2, h1']⟩
    · right; exact ⟨d1, d2, h1, h2⟩

/-- **The depth is the number of keys consumed**: the type-level outcome of any key is one of
`Ok(n)` (a leaf after `n` keys), `TooShort(n)` (keys exhausted at an internal node after `n`),
`TooLong(n)` (surplus keys at a leaf after `n`), `NotFound(n + 1)` (the `n+1`-th key names no
child) — where `n` is the length of the node path the keys selected (or, in the model, a panic
site, excluded by C16).  With `one_walk` this fixes the depth of every structural outcome of
every operation. -/
theorem structural_depths (s : Schema) (hwf : s.WF) (ks : KeySrc) :
    ∃ p t, s.at? p = some t ∧
      ((s.traverse cb0 ks ()).1 = .ok p.length ∧ t.isLeaf = true ∨
       (s.traverse cb0 ks ()).1 = .trav (.tooLong p.length) ∧ t.isLeaf = true ∨
       (s.traverse cb0 ks ()).1 = .trav (.tooShort p.length) ∧ t.isLeaf = false ∨
       (s.traverse cb0 ks ()).1 = .trav (.notFound (p.length + 1)) ∧ t.isLeaf = false ∨
       (s.traverse cb0 ks ()).1.isPanic = true) := by
  obtain ⟨p, hp⟩ := traverse_factor cb0 s ks () hwf
  rcases hp with ⟨t, ks', st', h1, _, h3, h4⟩ | ⟨_, _, _, _, _, _, _, _, h5, _⟩
  · refine ⟨p, t, h1, ?_⟩
    rw [h4]
    simp only [stopAt]
    cases hl : t.isLeaf with
    | true =>
      simp only [if_true]
      cases hf : ks'.finalize with
      | ok u => left; simp [incrN_ok]
      | error e => right; left; rw [finalize_err ks' e hf]; simp [incrN_tooLong]
    | false =>
      simp only [Bool.false_eq_true, if_false]
      rcases h3 with h3 | ⟨e, he⟩
      · rw [hl] at h3; cases h3
      · simp only [he]
        rcases next_err ks' _ e he with rfl | rfl | hpn
        · right; right; left; simp [incrN_tooShort]
        · right; right; right; left; simp [incrN_notFound]; omega
        · right; right; right; right
          obtain ⟨sx, hs⟩ := incrN_panic p.length e hpn
          rw [hs]; rfl
  · simp [cb0] at h5

/-- every index handed on by a key source is within the node's children
(so no container impl can index out of bounds) -/
theorem indices_in_range (ks ks' : KeySrc) (lk : Lookup) (i : Nat) (h : ks.next lk = .ok (i, ks')) : i < lk.len :=
  next_lt ks lk i ks' h

/-! ## non-vacuity -/
def exT : Tree := .node false (some (some 1)) (.named ["a", "b"])
  [({}, .leaf (.leaf (.int false 8)) (.int 1)), ({}, .gate .option true (.array [.leaf (.leaf .bool) (.bool true)]))]
example : exT.WF := by simp [exT, Tree.WF, Tree.WF.wfFs, Tree.WF.wfArr, Lookup.len]
example : (exT.walk ⟨fun _ _ => true, fun _ => none⟩ .ser (.list [.str "b".toList, .int 5])).res = .trav (.absent 1) := by
  decide +kernel
example : (exT.erase.traverse cb0 (.list [.str "b".toList, .int 5]) ()).1 = .trav (.notFound 2) := by decide +kernel
example : (KeySrc.list [Key.str "x".toList]).finalize = .error (.tooLong 0) := rfl
example : gateErr .option .ser true = some (.absent 0) := rfl


/-! ### Tie to the translated source (`Gen/Core.lean`, regenerated from error.rs, key.rs, node.rs) -/
open MiniconfVerif.Gen MiniconfVerif.Gen.Core MiniconfVerif.GenTie in
/-- the depth bookkeeping (`Traversal::increment`, `Error::increment_result`), the index → name lookup
(`KeyLookup::lookup`, `len`) and the result → node conversion (`TryFrom<Result<usize, Error<()>>> for Node`)
**as translated from the source** are the model's `Trav.incr`, `Res.incr`, `Lookup.name?`/`len`, `Res.toNode` -/
theorem source_bookkeeping_is_model :
    (∀ t : Traversal, travOfGen t.increment = (travOfGen t).incr ∧ t.depth = (travOfGen t).depth) ∧
    (∀ r : Except (Error Unit) Nat, resOfGen (Error.increment_result r) = (resOfGen r).incr) ∧
    (∀ r : Except (Error Unit) Nat, nodeResOfGen (Node.try_from r) = (resOfGen r).toNode) ∧
    (∀ (lk : Lookup) (i : Nat), (lookupToGen lk).lookup i =
        if i < lk.len then .ok (lk.name? i) else .error (.NotFound 1)) ∧
    (∀ lk : Lookup, 0 < lk.len → (lookupToGen lk).len = .val lk.len) :=
  ⟨fun t => ⟨increment_tie t, depth_tie t⟩, increment_result_tie, try_from_tie, lookup_tie, len_tie⟩


open MiniconfVerif.GenTie in
/-- `TreeKey::traverse_by_key` of every built-in container **as translated from impls.rs** (`Gen/Impls.lean`: the
`impl_tuple!` body expanded for the arities 1–8, `[T; N]`, `Result`, `Bound`, `Range`, `RangeInclusive`, `RangeFrom`,
`RangeTo`; key source, callback and children's traversals as parameters) is the model's `Schema.traverse` at the
node that the generator's schema reading assigns to that type — lookup (names / `numbered n` / `homog n`),
children and their order, callback arguments `(index, name, len)`, `Inner(1)` on callback failure, one
`increment` on the way up.  The transparent wrappers (`Option`, `Cell`, `RefCell`, `Box`, `Rc`, `Arc`, both `Weak`s,
`Cow`, `Mutex`, `RwLock`, `&T`, `&mut T`) are checked by the translator to be the plain delegation to `T`. -/
theorem source_containers_are_model : ContainerTies := containerTies

open MiniconfVerif.Gen MiniconfVerif.GenTie in
/-- **The code `#[derive(TreeKey)]` generates** — obtained on every run by running the macro crate's own source
(`/verif/expander`) on every struct / enum of the generated corpus, and translated like the container impls
(`Gen/Derive.lean`, `Lemmas/GenTieDerive.lean`: one theorem per type, both regenerated on every run) — is the model's
traversal at the node the declaration denotes: the lookup (field names after `rename` / `skip`, variant names without the
skipped and unit variants, numbered for tuple structs), the children and their order (arm `i` ↦ the `i`-th retained
field, its `typ` override if any), callback arguments, `Inner(1)` on callback failure, one `increment` on the way up; a
`#[tree(flatten)]` type is its only child (no key consumed, no callback, no increment).  The run additionally checks that
the schema these readings compose to for every corpus type is the one the corpus generator reads off the definition. -/
theorem source_derive_is_model : DeriveTies := deriveTies


open MiniconfVerif.Gen MiniconfVerif.GenTie in
/-- The by-key functions of `Leaf<T>`, `StrLeaf<T>` and `Deny<T>` **as translated from leaf.rs** (`Gen/Leaf.lean`; the key
source's `finalize`, the value's (de)serializer and `T::try_from(&str)` as parameters) are the model's walk at a leaf:
surplus keys are reported (`TooLong`) before the value is touched, (de)serializer failures are `Inner(0)`, the stored
value changes exactly on a successful deserialization, `StrLeaf` refuses `Any` access and `Deny` every access — after
the keys were finalized. -/
theorem source_leaves_are_model (io : Io) (v : Val) (ks : KeySrc) :
    (∀ ty, resOfGen (Leaf.Leaf.serialize_by_key finM (serM io (.leaf ty) v) v ks ()) =
        (Tree.walk io .ser (.leaf (.leaf ty) v) ks).res ∧
      resOfGen (Leaf.Leaf.deserialize_by_key finM (deM io (.leaf ty)) v ks ()).2 =
        (Tree.walk io .de (.leaf (.leaf ty) v) ks).res ∧
      some (Leaf.Leaf.deserialize_by_key finM (deM io (.leaf ty)) v ks ()).1 =
        valOf (Tree.walk io .de (.leaf (.leaf ty) v) ks).tree) ∧
    (∀ variants, resOfGen (Leaf.StrLeaf.serialize_by_key finM (serM io (.strLeaf variants) v) v ks ()) =
        (Tree.walk io .ser (.leaf (.strLeaf variants) v) ks).res ∧
      resOfGen (Leaf.StrLeaf.deserialize_by_key finM (deStrM io (.strLeaf variants)) (tryFromM variants) v ks ()).2 =
        (Tree.walk io .de (.leaf (.strLeaf variants) v) ks).res) ∧
    (∀ ty op, (Tree.walk io op (.leaf (.deny ty) v) ks).tree = .leaf (.deny ty) v) :=
  ⟨fun ty => ⟨(leafLeaf_tie io ty v ks).2.1, (leafLeaf_tie io ty v ks).2.2.1.1, (leafLeaf_tie io ty v ks).2.2.1.2⟩,
   fun vs => ⟨(strLeaf_tie io vs v ks).1, (strLeaf_tie io vs v ks).2.1.1⟩,
   fun ty op => (denyLeaf_tie io ty v ks op).1⟩

open MiniconfVerif.Gen.Wrappers MiniconfVerif.GenTie in
/-- **The value-level impls of the transparent wrappers as translated from miniconf/src/impls.rs** (`Gen.Wrappers.wrapperBeh`:
for `Option`, `Box`, `Cow`, `Cell`, `RefCell`, `&RefCell`, `Rc`, `Arc`, `rc::Weak`, `sync::Weak`, `Mutex`, `&Mutex`, `RwLock`,
`&RwLock` and each of `serialize_by_key` / `deserialize_by_key` / `ref_any_by_key` / `mut_any_by_key` the source implements —
which accessor reaches the wrapped value, what is answered when it fails, or that the operation is refused) **answer what the
model's `gateErr` says** (the "absent-container" / "failed accessor" step of the walk this property is about, at depth 0
before any key is consumed), for every runtime state the wrapper can be in: `None`, a live `RefMut` **or a live shared
`Ref`**, a second owner, a dangling `Weak`, a poisoned lock. What makes an accessor fail (`accFails`) is `std`'s
documented behaviour, stated by hand. -/
theorem source_wrappers_are_model (g : GateKind) (op : Op) (b : Beh) (s : RState)
    (hb : wrapperBeh g op = some b) (hs : s ∈ statesOf g) :
    behErr g op s b = gateErr g op (closedOf s) :=
  wrappers_tie g op b s hb hs

open MiniconfVerif.Gen.Wrappers MiniconfVerif.GenTie in
/-- non-vacuity: the table has the rows the theorem speaks about, e.g. a shared borrow does not block a read -/
example : wrapperBeh .refCell .ser = some (.via .tryBorrow (.access 0 "Borrowed")) ∧
    behErr .refCell .ser .shrBorrowed (.via .tryBorrow (.access 0 "Borrowed")) = none ∧
    behErr .refCell .ser .mutBorrowed (.via .tryBorrow (.access 0 "Borrowed")) = some (.access 0 "Borrowed") := by
  refine ⟨rfl, ?_, ?_⟩ <;> simp [behErr, accFails]

end MiniconfVerif.C02
