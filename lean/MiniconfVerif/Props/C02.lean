import MiniconfVerif.Lemmas.Walk

/-! # C02 — every by-key operation classifies a key as the documented top-down walk does
(first instalment: the per-node step order as equations of the walk; the global
`walk = refWalk` theorem is being added, see DESIGN.md §7 C02) -/
namespace MiniconfVerif.C02
open MiniconfVerif

/-- a leaf reports surplus keys (`TooLong`) before touching the value, for every operation -/
theorem leaf_surplus_first (io : Io) (op : Op) (k : LeafKind) (v : Val) (ks : KeySrc) (e : Trav)
    (h : ks.finalize = .error e) :
    (Tree.leaf k v |>.walk io op ks).res = .trav e ∧ (Tree.leaf k v |>.walk io op ks).tree = .leaf k v := by
  simp [Tree.walk, h]

/-- an absent/closed container is reported before any key is looked at -/
theorem closed_container_first (io : Io) (op : Op) (g : GateKind) (inner : Tree) (ks : KeySrc) (e : Trav)
    (h : gateErr g op true = some e) : (Tree.gate g true inner |>.walk io op ks).res = .trav e := by
  simp [Tree.walk, h]

/-- key exhausted / key not found are decided by the key lookup alone, before variant
presence, deny attributes or accessors are consulted -/
theorem lookup_before_arm (io : Io) (op : Op) (active : Option (Option Nat)) (lk : Lookup)
    (fs : List (Attrs × Tree)) (ks : KeySrc) (e : Trav) (h : ks.next lk = .error e) :
    (Tree.node false active lk fs |>.walk io op ks).res = .trav e := by
  simp [Tree.walk, h]

/-- an absent enum variant is reported (at the depth of the consumed key) before the
field's deny attribute or accessor is consulted -/
theorem absent_variant_before_accessor (io : Io) (op : Op) (a : Option Nat) (lk : Lookup)
    (fs : List (Attrs × Tree)) (ks ks' : KeySrc) (i : Nat) (h : ks.next lk = .ok (i, ks')) (ha : a ≠ some i) :
    (Tree.node false (some a) lk fs |>.walk io op ks).res = .trav (.absent 1) := by
  simp [Tree.walk, h, ha, Res.incr, Trav.incr]

/-- a flattened container consumes no key and adds no depth -/
theorem flatten_adds_no_depth (io : Io) (op : Op) (lk : Lookup) (a : Attrs) (t : Tree) (ks : KeySrc) :
    (Tree.node true none lk [(a, t)] |>.walk io op ks).res = (Tree.walk.goFld io op [(a, t)] 0 ks).1.res := by
  simp [Tree.walk]

/-! ## non-vacuity -/
example : (KeySrc.list [Key.str "x".toList]).finalize = .error (.tooLong 0) := rfl
example : gateErr .option .ser true = some (.absent 0) := rfl

end MiniconfVerif.C02
