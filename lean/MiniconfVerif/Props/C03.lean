import MiniconfVerif.Lemmas.Meta
import MiniconfVerif.Model.Iter

/-! # C03 — node iteration yields every leaf exactly once, in key order
(first instalment; the enumeration theorem `nodes_eq_leaves` is being added,
see DESIGN.md §7 C03) -/
namespace MiniconfVerif.C03
open MiniconfVerif

/-- the number of leaves equals the leaf count reported by the metadata
(what `exact_size()` counts down from) -/
theorem count_eq (s : Schema) : s.leaves.length = s.meta.count := (meta_count s).symm

/-- the iterator's own key source (indices with an always-succeeding `finalize`) never
reports surplus keys, so the `TooLong` arm of `next()` is unreachable -/
theorem state_keys_never_too_long (st : List Nat) : (stateKeys st).finalize = .ok () := rfl

def ex : Schema := .node (.named ["foo", "bar", "baz"]) [.leaf, .array 3 .leaf, .leaf]
example : ex.leaves.length = 5 := by decide

end MiniconfVerif.C03
