import MiniconfVerif.Lemmas.IterEnum
import MiniconfVerif.Lemmas.GenTieLoop

/-! # C03 — node iteration yields every leaf exactly once, in key order, nothing else

Model: `Model/Iter.lean` (`IterSt.step` = one pass of the `loop` in `NodeIter::next`,
`IterSt.next` = the loop, `IterSt.poll` = repeated `next()` calls), `Model/Schema.lean`
(`traverse` = `TreeKey::traverse_by_key`, `leaves` = the specification: all leaf index paths,
depth first in declaration order), `Model/Transcode.lean` (the targets' callbacks).

The proof (Lemmas/Enum.lean, IdxWalk.lean, IterEnum.lean): the depth-first order of the leaves
is the orbit of a successor function with carry (`succRev`); the traversal of the state array
through the ordinary key lookup is a pure recursion over the index list (`idxWalk`); one pass
of the loop either advances to the first leaf of the next sibling or carries one level up;
by induction over the carry chain `next()` computes the successor. -/
namespace MiniconfVerif.C03
open MiniconfVerif

/-- **`nodes::<N, D>()` enumerates the leaves.** For every well-formed type, every state
depth `D ≥ max_depth` and every target that does not run out of capacity: polling a fresh
iterator `n` times returns exactly the first `n` leaves in depth-first declaration (= key)
order — each once, with nothing else in between, each as a leaf `Node` of its depth paired
with the target transcoded along that very leaf — and `None` from then on, for every `n`. -/
theorem nodes_enumerates_leaves (s : Schema) (hwf : s.WF) (hsm : s.Small) (D : Nat) (hD : s.maxDepth ≤ D)
    (fresh : Target) (hacc : Accepts s fresh) (n : Nat) :
    (IterSt.init D).poll s D fresh n =
      ((s.leaves.map fun p => Polled.item (.node (tgtAt s fresh p) (.leaf p.length))) ++
        List.replicate n Polled.finished).take n :=
  poll_init s hwf hsm D fresh hacc hD n

open MiniconfVerif.Gen MiniconfVerif.Gen.Core MiniconfVerif.GenTie in
/-- **The translated iterator enumerates the leaves.** `nodes_enumerates_leaves` for `NodeIter::next` **as translated from
iter.rs** (the `loop` of `next` run as `nextG`, started at the translated `NodeIter::default()`): for every well-formed type,
every `D ≥ max_depth`, every accepting target and every `n`, polling the translated code `n` times returns exactly the first
`n` leaves in key order, each once, each as a leaf node of its depth with the target transcoded along that leaf, and `None`
from then on.  `tcN` / `tcU` stand for the two `transcode` calls in the loop body and are required to return what the model's
`Schema.transcode` returns (that is C04's subject). -/
theorem source_next_enumerates_leaves (s : Schema) (hwf : s.WF) (hsm : s.Small) (D : Nat) (hD : s.maxDepth ≤ D)
    (fresh : Target) (hacc : Accepts s fresh)
    (tcN : List Nat → Except Traversal (Target × Node)) (tcU : List Nat → Except Traversal (Unit × Node))
    (hN : ∀ st, tcToGen (s.transcode (stateKeys st) fresh) = some (tcN st))
    (hU : ∀ st, tcUToGen (s.transcode (stateKeys st) .unit) = some (tcU st)) (n : Nat) :
    innerPolled itemOf (nextG D tcN tcU) n (NodeIter.default D) =
      ((s.leaves.map fun p => Polled.item (.node (tgtAt s fresh p) (.leaf p.length))) ++
        List.replicate n Polled.finished).take n := by
  have hlen : (IterSt.init D).state.length = D := by simp [IterSt.init]
  have h := poll_tie s D fresh tcN tcU hN hU n (IterSt.init D) hlen
  rw [show itToGen (IterSt.init D) = NodeIter.default D from rfl] at h
  rw [h]
  exact nodes_enumerates_leaves s hwf hsm D hD fresh hacc n

/-- the target yielded with a leaf is the one `transcode` produces from that leaf's own key -/
theorem yielded_target_is_transcoding (s : Schema) (hwf : s.WF) (hsm : s.Small) (fresh : Target)
    (hacc : Accepts s fresh) (p : List Nat) (hp : p ∈ s.leaves) :
    s.transcode (.list (intKeys p)) fresh = (.leaf p.length, tgtAt s fresh p) :=
  tgtAt_eq_transcode s hwf hsm fresh hacc p (mem_leaves_at? p s hp)

/-- the hypothesis on the target holds for `()` and for index arrays with `max_depth` slots
(for those the yielded key *is* the leaf's index path) -/
theorem targets_accept (s : Schema) (cap m : Nat) (hcap : s.maxDepth ≤ cap)
    (har : ∀ q u, s.at? q = some u → u.arity ≤ m + 1) :
    Accepts s .unit ∧ Accepts s (.idx [] cap m) ∧
    (∀ p ∈ s.leaves, tgtAt s (.idx [] cap m) p = .idx p cap m) :=
  ⟨accepts_unit s, accepts_idx s cap m hcap har,
   fun p hp => tgtAt_idx s cap m hcap har p .leaf (mem_leaves_at? p s hp)⟩

/-- the order of the leaves is the orbit of the odometer successor, starting at the all-zero
path and ending where the successor has nothing left -/
theorem leaves_successor_orbit (s : Schema) (h : s.WF) :
    s.leaves.head? = some s.firstLeaf ∧ Chain (after s) s.leaves none :=
  leaves_are_successor_chain s h

/-- the enumeration order is strictly increasing lexicographic order of the index tuples; in
particular no leaf occurs twice -/
theorem leaves_sorted (s : Schema) : s.leaves.Pairwise LexLt ∧ s.leaves.Nodup := by
  have h := leaves_pairwise s.maxDepth s (Nat.le_refl _)
  refine ⟨h, h.imp ?_⟩
  intro a b hab e
  subst e
  -- `LexLt` is irreflexive
  have : ∀ p : List Nat, ¬ LexLt p p := by
    intro p
    induction p with
    | nil => simp [LexLt]
    | cons i r ih => simp only [LexLt]; rintro (h | ⟨_, h⟩); · omega
                     · exact ih h
  exact this a hab

/-- **Conversely**: an index path is among the enumerated leaves exactly when it resolves to a leaf -/
theorem leaf_iff_enumerated (s : Schema) (p : List Nat) : p ∈ s.leaves ↔ s.at? p = some .leaf :=
  ⟨mem_leaves_at? p s, at?_leaf_mem p s⟩

/-- the number of leaves equals the leaf count reported by the metadata
(what `exact_size()` counts down from) -/
theorem count_eq (s : Schema) : s.leaves.length = s.meta.count := (meta_count s).symm

/-- the iterator's own key source (indices with an always-succeeding `finalize`) never
reports surplus keys, so the `TooLong` arm of `next()` is unreachable -/
theorem state_keys_never_too_long (st : List Nat) : (stateKeys st).finalize = .ok () := rfl

/-! ## non-vacuity -/
def ex : Schema := .node (.named ["foo", "bar", "baz"]) [.leaf, .array 3 .leaf, .leaf]
example : ex.WF := by simp [ex, Schema.WF, Schema.WF.wfList, Lookup.len]
example : ex.Small := small_of_smallB ex (by decide)
example : ex.maxDepth ≤ 2 := by decide
example : ex.leaves = [[0], [1, 0], [1, 1], [1, 2], [2]] := by decide
example : (IterSt.init 2).poll ex 2 .unit 7 =
    [.item (.node .unit (.leaf 1)), .item (.node .unit (.leaf 2)), .item (.node .unit (.leaf 2)),
     .item (.node .unit (.leaf 2)), .item (.node .unit (.leaf 1)), .finished, .finished] := by decide +kernel

end MiniconfVerif.C03
