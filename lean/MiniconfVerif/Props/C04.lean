import MiniconfVerif.Lemmas.GenTieTranscode
import MiniconfVerif.Lemmas.GenTieKeys
import MiniconfVerif.Lemmas.GenTieText
import MiniconfVerif.Lemmas.Factor
import MiniconfVerif.Lemmas.TextKeys
import MiniconfVerif.Lemmas.Chain
import MiniconfVerif.Props.C09

/-! # C04 — key representations are interchangeable; transcoding is lossless

Model: `Schema.traverse` / `transcode` with the targets of Model/Transcode.lean and the key
sources of Model/Keys.lean.  Proved: chaining = concatenation; every traversal (any key source)
factors through an index path with exactly one callback per consumed key; every target is a
function of that path only (so all keys of one node are interchangeable for every
representation), the index form is the position tuple, the packed form decodes back to the
node, re-transcoding is a fixpoint.  The text forms: `path_text_roundtrip` and `jsonpath_text_roundtrip`
(render along the node path, split with the iterators of C15, look the names / decimal indices up
again — the same walk as the position tuple). -/
namespace MiniconfVerif.C04
open MiniconfVerif

/-- Chaining two key lists behaves as their concatenation: for every schema, callback and
callback state the traversal result and the callback effects are identical. -/
theorem chain_is_concat {σ : Type} (cb : σ → CbArg → Option σ) (s : Schema) (a b : List Key) (st : σ) :
    s.traverse cb (.chain (.list a) (.list b)) st = s.traverse cb (.list (a ++ b)) st :=
  traverse_bisim chainRel_bisim cb s _ _ st ⟨a, b, rfl, rfl⟩

/-- hence every transcoding target sees the same keys -/
theorem chain_transcode (s : Schema) (a b : List Key) (t : Target) :
    s.transcode (.chain (.list a) (.list b)) t = s.transcode (.list (a ++ b)) t := by
  simp only [Schema.transcode, chain_is_concat]

/-- Any two key sources that agree step by step (a bisimulation) are interchangeable on
every schema — the general form behind "representations of the same node are equivalent". -/
theorem bisimilar_sources_interchangeable {σ : Type} {R : KeySrc → KeySrc → Prop} (hR : Bisim R)
    (cb : σ → CbArg → Option σ) (s : Schema) (k1 k2 : KeySrc) (st : σ) (h : R k1 k2) :
    s.traverse cb k1 st = s.traverse cb k2 st :=
  traverse_bisim hR cb s k1 k2 st h

/-- **The callback contract**: for every key source the recording callback ends up with exactly
the arguments `(index, name, sibling count)` of the consumed levels, in order, one per consumed
key; an `Ok(depth)` reports exactly that many. -/
theorem callback_once_per_key (s : Schema) (hwf : s.WF) (ks : KeySrc) :
    ∃ p t, s.at? p = some t ∧ (s.traverse recCb ks []).2 = argsAlong s p ∧ (argsAlong s p).length = p.length ∧
      (∀ d, (s.traverse recCb ks []).1 = .ok d → d = p.length ∧ t.isLeaf = true) := by
  obtain ⟨p, hp⟩ := traverse_factor recCb s ks [] hwf
  rcases hp with ⟨t, ks', st', h1, h2, h3, h4⟩ | ⟨q, i, t, stq, _, _, _, _, h5, _⟩
  · rw [cbAlong_rec p s t [] h1] at h2
    simp only [List.nil_append, Option.some.injEq] at h2
    refine ⟨p, t, h1, by rw [h4, h2], argsAlong_length p s t h1, ?_⟩
    intro d hd
    rw [h4] at hd
    simp only [stopAt] at hd
    cases hl : t.isLeaf with
    | true =>
      simp only [hl, if_true] at hd
      cases hf : ks'.finalize with
      | ok u => simp only [hf, incrN_ok] at hd; cases hd; exact ⟨by omega, rfl⟩
      | error e =>
        simp only [hf] at hd
        exfalso
        have : ∀ n, ∃ e', Res.incrN n (.trav e) = .trav e' := by
          intro n; induction n with
          | zero => exact ⟨e, rfl⟩
          | succ n ih => obtain ⟨e', he'⟩ := ih; exact ⟨e'.incr, by simp [Res.incrN, he', Res.incr]⟩
        obtain ⟨e', he'⟩ := this p.length
        rw [he'] at hd; cases hd
    | false =>
      simp only [hl, Bool.false_eq_true, if_false] at hd
      exfalso
      have : ∀ (e : Trav) n, ∃ e', Res.incrN n (.trav e) = .trav e' := by
        intro e n; induction n with
        | zero => exact ⟨e, rfl⟩
        | succ n ih => obtain ⟨e', he'⟩ := ih; exact ⟨e'.incr, by simp [Res.incrN, he', Res.incr]⟩
      cases hn : ks'.next t.lookup with
      | ok r => simp only [hn] at hd; obtain ⟨e', he'⟩ := this (.panic "not a stop") p.length; rw [he'] at hd; cases hd
      | error e => simp only [hn] at hd; obtain ⟨e', he'⟩ := this e p.length; rw [he'] at hd; cases hd
  · simp [recCb] at h5

/-- **Any key, any representation**: every key source walks some node path `p`; what a target
with enough capacity holds afterwards is a function of `p` alone — the same as transcoding the
position tuple `p` itself.  Hence all keys that denote one node are interchangeable. -/
theorem any_key_any_target (s : Schema) (hwf : s.WF) (hsm : s.Small) (fresh : Target) (hacc : Accepts s fresh)
    (ks : KeySrc) :
    ∃ p t, s.at? p = some t ∧ (s.transcode ks fresh).2 = tgtAt s fresh p ∧
      (s.transcode (.list (intKeys p)) fresh).2 = tgtAt s fresh p ∧
      (∀ d, (s.transcode ks fresh).1 = .leaf d ∨ (s.transcode ks fresh).1 = .internal d →
        (s.transcode (.list (intKeys p)) fresh).1 = (s.transcode ks fresh).1) := by
  obtain ⟨p, t, ks', h1, h2, h3⟩ := transcode_factor s hwf fresh hacc ks
  have hidx := transcode_index_key s t hwf hsm fresh hacc p h1
  refine ⟨p, t, h1, by rw [h3], by rw [hidx], ?_⟩
  intro d hd
  rw [hidx, h3] at *
  exact (stop_node_kind t ks' p.length h2 d hd).symm

/-- **The index form is the node's position tuple**, and re-transcoding it is a fixpoint -/
theorem index_form_is_position (s : Schema) (hwf : s.WF) (hsm : s.Small) (ks : KeySrc) :
    ∃ p t, s.at? p = some t ∧
      (s.transcode ks (.idx [] s.maxDepth (2 ^ 64 - 1))).2 = .idx p s.maxDepth (2 ^ 64 - 1) ∧
      (s.transcode (.list (intKeys p)) (.idx [] s.maxDepth (2 ^ 64 - 1))).2 = .idx p s.maxDepth (2 ^ 64 - 1) := by
  have har : ∀ q u, s.at? q = some u → u.arity ≤ (2 ^ 64 - 1) + 1 := fun q u h => by
    have := hsm q u h; omega
  have hacc := accepts_idx s s.maxDepth (2 ^ 64 - 1) (Nat.le_refl _) har
  obtain ⟨p, t, h1, h2, h3, _⟩ := any_key_any_target s hwf hsm _ hacc ks
  have := tgtAt_idx s s.maxDepth (2 ^ 64 - 1) (Nat.le_refl _) har p t h1
  exact ⟨p, t, h1, by rw [h2, this], by rw [h3, this]⟩

/-- **The packed form** of any key is the packed key of the node it denotes, which decodes back
to exactly that node (kind, depth and position), when `max_bits` fits the word -/
theorem packed_form_resolves (s : Schema) (hwf : s.WF) (hsm : s.Small) (hmax : s.meta.maxBits ≤ 63) (ks : KeySrc) :
    ∃ p t w, s.at? p = some t ∧ (s.transcode ks (.packed Gen.Packed.EMPTY)).2 = .packed w ∧
      C09.packOf s p = some w ∧
      s.transcode (.packed w) (.idx [] s.maxDepth (2 ^ 64 - 1)) = (C09.kindAt t p.length, .idx p s.maxDepth (2 ^ 64 - 1)) := by
  have har : ∀ q u, s.at? q = some u → u.arity ≤ (2 ^ 64 - 1) + 1 := fun q u h => by
    have := hsm q u h; omega
  have hacc := accepts_packed s hwf hsm hmax
  obtain ⟨p, t, h1, h2, _, _⟩ := any_key_any_target s hwf hsm _ hacc ks
  have hfit : pathW Wbits s p ≤ 63 := Nat.le_trans (node_bits_le_max s t hwf p h1) hmax
  obtain ⟨w, hw1, hw2, _⟩ := C09.encode s t hwf hsm p h1 hfit
  have htg : tgtAt s (.packed Gen.Packed.EMPTY) p = .packed w := by
    have := transcode_index_key s t hwf hsm _ hacc p h1
    rw [hw2] at this
    exact (Prod.mk.inj this).2.symm
  refine ⟨p, t, w, h1, by rw [h2, htg], hw1, ?_⟩
  exact C09.decode s t hwf hsm p h1 hmax w hw1 s.maxDepth (2 ^ 64 - 1) (Nat.le_refl _) har

/-- **Separator paths**: transcoding a node's position tuple into a `Path` (any separator that
does not occur in a key text on the way, enough capacity) yields the text `S key S key …`; read
back as a `Path` key it drives every traversal — hence every by-key operation and every further
transcoding — exactly as the position tuple does. -/
theorem path_text_roundtrip {σ : Type} (cb : σ → CbArg → Option σ) (s t : Schema) (hwf : s.WF) (hsm : s.Small)
    (S : Char) (cap : Nat) (p : List Nat) (ht : s.at? p = some t) (hfree : ∀ k ∈ keyTexts s p, S ∉ k)
    (hcap : PathIter.byteLen (renderPath S (keyTexts s p)) ≤ cap) (st : σ) :
    tgtAt s (.path S [] cap) p = .path S (renderPath S (keyTexts s p)) cap ∧
    s.traverse cb (TreeDriver.pathKeys S (renderPath S (keyTexts s p))) st = s.traverse cb (.list (intKeys p)) st :=
  path_roundtrip cb s t hwf hsm S cap p ht hfree hcap st

/-- **JSON-style paths**: the same for the `JsonPath` target (`.name` / `[index]`), for key texts
free of the four delimiter characters -/
theorem jsonpath_text_roundtrip {σ : Type} (cb : σ → CbArg → Option σ) (s t : Schema) (hwf : s.WF) (hsm : s.Small)
    (cap : Nat) (p : List Nat) (ht : s.at? p = some t) (hfree : ∀ k ∈ keyTexts s p, PathIter.DelimFree k)
    (hcap : PathIter.byteLen (PathIter.renderAll (jsonKeysOf s p)) ≤ cap) (st : σ) :
    tgtAt s (.json [] cap) p = .json (PathIter.renderAll (jsonKeysOf s p)) cap ∧
    s.traverse cb (TreeDriver.jsonKeys (PathIter.renderAll (jsonKeysOf s p))) st = s.traverse cb (.list (intKeys p)) st :=
  jsonpath_roundtrip cb s t hwf hsm cap p ht hfree hcap st

/-! ## non-vacuity -/
def ex : Schema := .node (.named ["foo", "bar"]) [.leaf, .array 3 .leaf]
example : (ex.transcode (.chain (.list [.str "bar".toList]) (.list [.int 2])) (.path '/' [] 100)).1 = .leaf 2 := by
  decide +kernel


/-! ### Tie to the translated source (`Gen/Text.lean`, regenerated from key.rs on every run) -/
open MiniconfVerif.Gen MiniconfVerif.Gen.Core MiniconfVerif.GenTie in
/-- `<str as Key>::find` and `<integer as Key>::find` **as translated from key.rs** are the model's
`Key.find`: names are compared exactly, numerals are parsed by `usize::from_str` and range-checked against the
sibling count, integers of every width are converted with `try_into` and range-checked. -/
theorem source_key_find_is_model (lk : Lookup) :
    (∀ s : String, exceptOfGen (Text.strFind s (lookupToGen lk)) = Key.find lk (.str s.toList)) ∧
    (0 < lk.len → ∀ v : Int, Text.intFind v (lookupToGen lk) = .val (match Key.find lk (.int v) with
      | .ok i => .ok i
      | .error _ => .error (.NotFound 1))) :=
  ⟨fun s => strFind_tie s lk, fun h v => intFind_tie v lk h⟩

open MiniconfVerif.Gen MiniconfVerif.Gen.Transcode MiniconfVerif.GenTie MiniconfVerif.PathIter in
/-- The traversal callbacks of `Transcode for Path<T, S>` and `Transcode for JsonPath<T>` **as translated from node.rs /
jsonpath.rs** (the closures handed to `traverse_by_key`; `core::fmt::Write` on a bounded buffer is `capWrite`) are the
model's `Target.cb`: they fail exactly when the model's callback does, and otherwise leave exactly the model's buffer;
likewise the callback of `Transcode for [T]` (`impl_transcode_slice!`, every integer slot type): the next slot receives the
index, nothing else changes, it fails exactly when no slot is left or the index does not fit the slot type. -/
theorem source_transcode_callbacks_are_model (buf : Str) (cap : Nat) (a : CbArg) :
    (∀ sep : Char, match Target.cb (.path sep buf cap) a with
      | some t => (Path.callback sep (buf, cap) a.index a.name a.len).2 = .ok () ∧
          t = .path sep (Path.callback sep (buf, cap) a.index a.name a.len).1.1 cap
      | none => (Path.callback sep (buf, cap) a.index a.name a.len).2 = .error ()) ∧
    (match Target.cb (.json buf cap) a with
      | some t => (JsonPath.callback (buf, cap) a.index a.name a.len).2 = .ok () ∧
          t = .json (JsonPath.callback (buf, cap) a.index a.name a.len).1.1 cap
      | none => (JsonPath.callback (buf, cap) a.index a.name a.len).2 = .error ()) ∧
    (∀ (slots rest : List Nat) (maxIdx : Nat),
      match Target.cb (.idx slots (slots.length + rest.length) maxIdx) a with
      | some t =>
        ∃ r', rest = r' ++ rest.drop 1 ∧ r'.length = 1 ∧
          Slice.callback (tryIntoMax maxIdx) (sliceOf slots rest) a.index a.name a.len =
            (sliceOf (slots ++ [a.index]) (rest.drop 1), .ok ()) ∧
          t = .idx (slots ++ [a.index]) (slots.length + rest.length) maxIdx
      | none =>
        (Slice.callback (tryIntoMax maxIdx) (sliceOf slots rest) a.index a.name a.len).2 = .error () ∧
        (Slice.callback (tryIntoMax maxIdx) (sliceOf slots rest) a.index a.name a.len).1.1 = slots ++ rest) :=
  ⟨fun sep => path_callback_tie sep buf cap a, jsonpath_callback_tie buf cap a,
   fun slots rest maxIdx => slice_callback_tie slots rest maxIdx a⟩

open MiniconfVerif.Gen MiniconfVerif.Gen.Core MiniconfVerif.Gen.Keys MiniconfVerif.GenTie in
/-- The `Keys` implementations **as translated from key.rs / iter.rs / packed.rs** are the model's key sources: for every
state, every lookup with at least one child, `KeysIter::next` over any item list and `Packed::next` return the model's index
and leave the model's successor state (same error otherwise; a `TooShort` leaves the state as it was; `Packed` panics
exactly where the model marks a panic); `Chain<T, U>` and `Consume<T>` do so for any components that do (so every nesting
of these types does); `finalize` likewise; and the traversal callback of `Transcode for Packed` panics / fails / succeeds
exactly as the model's `Target.cbPanics` / `Target.cb`, leaving the model's word. -/
theorem source_keys_are_model :
    (KeysRel (KeysIter.next keyFindG) KeySrc.list ∧ FinRel (KeysIter.finalize (κ := Key)) (fun l => .list (l.map id))) ∧
    (KeysRel Gen.Keys.Packed.next KeySrc.packed ∧ FinRel Gen.Keys.Packed.finalize KeySrc.packed) ∧
    (∀ (α β : Type) (nextA : α → KeyLookup → P (α × Except Traversal Nat))
        (nextB : β → KeyLookup → P (β × Except Traversal Nat)) (ιA : α → KeySrc) (ιB : β → KeySrc),
      KeysRel nextA ιA → KeysRel nextB ιB → KeysRel (Chain.next nextA nextB) (fun s => .chain (ιA s.1) (ιB s.2))) ∧
    (∀ (α β : Type) (finA : α → α × Except Traversal Unit) (finB : β → β × Except Traversal Unit)
        (ιA : α → KeySrc) (ιB : β → KeySrc),
      FinRel finA ιA → FinRel finB ιB → FinRel (Chain.finalize finA finB) (fun s => .chain (ιA s.1) (ιB s.2))) ∧
    (∀ (α : Type) (nextA : α → KeyLookup → P (α × Except Traversal Nat)) (ι : α → KeySrc),
      KeysRel nextA ι → KeysRel (Consume.next nextA) (fun s => .consume (ι s)) ∧
        FinRel (Consume.finalize (α := α)) (fun s => .consume (ι s))) ∧
    (∀ (w : BitVec 64) (a : CbArg), 0 < a.len →
      if (Target.packed w).cbPanics a then ∃ m, Gen.Keys.Packed.callback w a.index a.name a.len = .panic m
      else match Target.cb (.packed w) a with
        | some t => ∃ w', Gen.Keys.Packed.callback w a.index a.name a.len = .val (w', .ok ()) ∧ t = .packed w'
        | none => ∃ w', Gen.Keys.Packed.callback w a.index a.name a.len = .val (w', .error ())) :=
  ⟨⟨keysIter_next_tie, keysIter_finalize_tie id⟩, ⟨packed_next_tie, packed_finalize_tie⟩,
   fun _ _ nextA nextB ιA ιB hA hB => chain_next_tie nextA nextB ιA ιB hA hB,
   fun _ _ finA finB ιA ιB hA hB => chain_finalize_tie finA finB ιA ιB hA hB,
   fun _ nextA ι hA => ⟨consume_next_tie nextA ι hA, consume_finalize_tie ι⟩,
   packed_callback_tie⟩

/-- non-vacuity: the relation is about real steps — a chained source over a path segment and a packed word -/
example : (match (KeySrc.chain (.list [.int 1]) (.packed Gen.Packed.EMPTY)).next (.numbered 3) with
    | .ok (1, .chain (.list []) (.packed _)) => true
    | _ => false) = true := by decide +kernel

end MiniconfVerif.C04
