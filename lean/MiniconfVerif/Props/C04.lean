import MiniconfVerif.Lemmas.Chain
import MiniconfVerif.Model.Transcode

/-! # C04 — key representations are interchangeable; transcoding is lossless
(first instalment: chaining and the callback contract; the per-representation
left-inverse theorems are being added, see DESIGN.md §7 C04) -/
namespace MiniconfVerif.C04
open MiniconfVerif

/-- Chaining two key lists behaves as their concatenation: for every schema, callback and
callback state the traversal result and the callback effects are identical. -/
theorem chain_is_concat {σ : Type} (cb : σ → CbArg → Option σ) (s : Schema) (a b : List Key) (st : σ) :
    s.traverse cb (.chain (.list a) (.list b)) st = s.traverse cb (.list (a ++ b)) st :=
  traverse_bisim chainRel_bisim cb s _ _ st ⟨a, b, rfl, rfl⟩

/-- hence every transcoding target sees the same keys -/
theorem chain_transcode (s : Schema) (a b : List Key) (t : Target) :
    s.transcode (.chain (.list a) (.list b)) t = s.transcode (.list (a ++ b)) t := by
  simp only [Schema.transcode, chain_is_concat]

/-- Any two key sources that agree step by step (a bisimulation) are interchangeable on
every schema — the general form behind "representations of the same node are equivalent". -/
theorem bisimilar_sources_interchangeable {σ : Type} {R : KeySrc → KeySrc → Prop} (hR : Bisim R)
    (cb : σ → CbArg → Option σ) (s : Schema) (k1 k2 : KeySrc) (st : σ) (h : R k1 k2) :
    s.traverse cb k1 st = s.traverse cb k2 st :=
  traverse_bisim hR cb s k1 k2 st h

/-! ## non-vacuity -/
def ex : Schema := .node (.named ["foo", "bar"]) [.leaf, .array 3 .leaf]
example : (ex.transcode (.chain (.list [.str "bar".toList]) (.list [.int 2])) (.path '/' [] 100)).1 = .leaf 2 := by
  decide +kernel

end MiniconfVerif.C04
