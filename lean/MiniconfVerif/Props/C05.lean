import MiniconfVerif.Model.Codec

/-! # C05 — leaf values survive get/set through JSON and postcard unchanged
(first instalment: integer / bool / option / unit round trips of the JSON model by
`decide`-free structural proofs are in progress; floats are opaque in the model) -/
namespace MiniconfVerif.C05
open MiniconfVerif MiniconfVerif.Codec

/-- zig-zag coding (postcard signed integers) is a bijection -/
theorem unzigzag_zigzag (v : Int) : unzigzag (zigzag v) = v := by
  unfold zigzag unzigzag
  split
  · next h =>
    have : (2 * v.toNat) % 2 = 0 := by omega
    simp only [this, if_true]
    omega
  · next h =>
    have h1 : (2 * (-v).toNat - 1) % 2 = 1 := by omega
    simp only [h1]
    simp only [show ¬ ((1 : Nat) = 0) from by decide, if_false]
    omega

/-- the JSON text of `true`/`false`/`null` decodes to the value and consumes exactly the text -/
theorem bool_roundtrip (b : Bool) (rest : List Char) :
    jsonDec .bool ((if b then "true".toList else "false".toList) ++ rest) = some (.bool b, rest) := by
  cases b <;> simp [jsonDec, skipWs, isWs, stripLit, List.isPrefixOf]

theorem unit_roundtrip (rest : List Char) : jsonDec .unit ("null".toList ++ rest) = some (.unit, rest) := by
  simp [jsonDec, skipWs, isWs, stripLit, List.isPrefixOf]

/-! ## documented examples as checks of the model (tests, not theorems) -/
example : jsonEnc (.arr 3 (.int true 16)) (.arr [.int 1, .int (-2), .int 3]) = some ['[', '1', ',', '-', '2', ',', '3', ']'] := by
  decide +kernel
example : pcEnc (.int false 64) (.int (2^64 - 1)) = some [255,255,255,255,255,255,255,255,255,1] := by decide +kernel

end MiniconfVerif.C05
