import MiniconfVerif.Lemmas.GenTieHelpers
import MiniconfVerif.Lemmas.PcRT
import MiniconfVerif.Lemmas.WalkFrame

/-! # C05 — leaf values survive get/set through JSON and postcard unchanged

Model: `Model/Codec.lean` — the two wire formats as the helpers see them (serde-json-core /
postcard on the leaf value universe `Ty`), and `Tree.walk` with an abstract (de)serializer
`Io`.  Proved: the JSON and postcard decoders invert the encoders on every value of the modelled
input class (all integer widths incl. extremes, bool, unit, `Option`, arrays, nested structs,
string-tagged enums; for JSON also strings without characters that need an escape), consuming
exactly the encoded text; writing back what a read returned is the identity on the tree; a read
after a write returns the written value.  Not theorems: floats (opaque in the model), postcard
strings (UTF-8 transcoding), JSON escapes. -/
namespace MiniconfVerif.C05
open MiniconfVerif MiniconfVerif.Codec

/-- zig-zag coding (postcard signed integers) is a bijection -/
theorem unzigzag_zigzag (v : Int) : unzigzag (zigzag v) = v := unzigzag_zigzag' v

/-- the JSON text of `true`/`false`/`null` decodes to the value and consumes exactly the text -/
theorem bool_roundtrip (b : Bool) (rest : List Char) :
    jsonDec .bool ((if b then "true".toList else "false".toList) ++ rest) = some (.bool b, rest) := by
  cases b <;> simp [jsonDec, skipWs, isWs, stripLit, List.isPrefixOf]

theorem unit_roundtrip (rest : List Char) : jsonDec .unit ("null".toList ++ rest) = some (.unit, rest) := by
  simp [jsonDec, skipWs, isWs, stripLit, List.isPrefixOf]

/-- **JSON round trip**: for every type and value of the modelled class, decoding the canonical
text (followed by any continuation that does not start with a digit) returns the value and
exactly the continuation. -/
theorem json_roundtrip (t : Ty) (v : Val) (txt rest : List Char) (hf : fits t v = true) (he : jsonEnc t v = some txt)
    (hr : NoDigit rest) : jsonDec t (txt ++ rest) = some (v, rest) :=
  (json_rt v t txt rest hf he hr).1

/-- hence `json::set_by_key` on the text `get_by_key` produced stores the same value, finalizes
cleanly (nothing left over) and reports exactly the number of bytes of the text -/
theorem json_set_of_get (t : Ty) (v : Val) (txt : List Char) (hf : fits t v = true) (he : jsonEnc t v = some txt) :
    jsonSetLeaf t txt = some (v, true, PathIter.byteLen txt) := by
  have := (json_rt v t txt [] hf he (by intro c hc; simp at hc)).1
  rw [List.append_nil] at this
  simp [jsonSetLeaf, this, skipWs, PathIter.byteLen]

/-- **postcard round trip**: every unsigned/signed integer width (LEB128 + zig-zag, one raw byte
for 8-bit), bool, unit, `Option`, arrays, structs, unit enums, and strings of any Unicode text (LEB128 byte length +
UTF-8, proved with the UTF-8 encoder/decoder round trip `utf8Dec_enc`; bounded `heapless` strings within their
capacity) -/
theorem postcard_roundtrip (t : Ty) (v : Val) (bs rest : Bytes) (hf : pcFits t v = true) (he : pcEnc t v = some bs) :
    pcDec t (bs ++ rest) = some (v, rest) :=
  pc_rt v t bs rest hf he

/-- LEB128 itself, for every width and value below `2^bits`, within the byte limit postcard enforces -/
theorem varint_roundtrip (bits n : Nat) (hb : 1 ≤ bits) (hn : n < 2 ^ bits) (rest : Bytes) :
    unvarint bits (maxVarBytes bits) (maxVarBytes bits + 1) (varint n ++ rest) 0 0 = some (n, rest) :=
  unvarint_roundtrip bits n hb hn rest

/-- **Serialize-then-write-back is the identity on the tree**: if reading by a key yielded the
value `v` of a plain leaf, writing a payload that decodes to `v` by the same key leaves the whole
tree unchanged (whatever the write reports) -/
theorem write_back_identity (io io' : Io) (t : Tree) (ks : KeySrc) (v : Val) (ty : Ty)
    (hdec : io'.dec (.leaf ty) = some v) (hv : (t.walk io .ser ks).val = some v)
    (hk : (t.walk io .ser ks).leaf = some (.leaf ty)) : (t.walk io' .de ks).tree = t :=
  walk_writeback io io' v ty hdec t ks hv hk

/-- **Write-then-read returns the written value** (through the same key) -/
theorem read_back (io io2 : Io) (t : Tree) (ks : KeySrc) (v' : Val) (hw : (t.walk io .de ks).val = some v')
    (hok : ((t.walk io .de ks).tree.walk io2 .ser ks).res.isOk = true) :
    ((t.walk io .de ks).tree.walk io2 .ser ks).val = some v' :=
  walk_readback io io2 .ser rfl t ks v' hw hok

/-- a too-small output buffer (the serializer fails) is an error without partial success: no
value is reported and the tree is unchanged -/
theorem small_buffer_no_partial (io : Io) (ty : Ty) (v : Val) (h : io.enc (.leaf ty) v = false) :
    (leafOp io .ser (.leaf ty) v).res = .inner 0 ∧ (leafOp io .ser (.leaf ty) v).val = none ∧
      (leafOp io .ser (.leaf ty) v).tree = .leaf (.leaf ty) v := by
  simp [leafOp, h]

/-! ## non-vacuity / documented examples -/
example : fits (.arr 3 (.int true 16)) (.arr [.int 1, .int (-2), .int 32767]) = true := by decide +kernel
example : jsonEnc (.arr 3 (.int true 16)) (.arr [.int 1, .int (-2), .int 3]) = some ['[', '1', ',', '-', '2', ',', '3', ']'] := by
  decide +kernel
example : pcEnc (.int false 64) (.int (2^64 - 1)) = some [255,255,255,255,255,255,255,255,255,1] := by decide +kernel
example : pcFits (.int true 64) (.int (-(2^63))) = true := by decide +kernel
example : fits (.opt (.struct [("a", .bool), ("s", .string (some 4))])) (.some (.struct [.bool true, .str "hé".toList])) = true := by
  decide +kernel

open MiniconfVerif.Gen MiniconfVerif.Gen.Core MiniconfVerif.Gen.Helpers MiniconfVerif.GenTie in
/-- **The helpers as translated from json.rs / postcard.rs** (`Gen/Helpers.lean`; the third-party (de)serializer is
abstract: constructing it, its `end()` / `finalize()` and the tree's own by-key function are parameters) are the model's
glue (`Model/Helpers.lean`, which the value-level driver prints through): `set_by_key` runs the by-key write FIRST and
returns its error as it is; only after a successful write it asks the deserializer for trailing data, whose complaint is
`Error::Finalization` — **the tree is what the write left in either case** (the documented exception of C01); on success
the deserializer's count is returned.  `get_by_key` returns the serializer's byte count after a successful walk and the
walk's error otherwise (postcard: the flavor's `finalize()` may fail with `Error::Finalization`).  `json::set` / `json::get`
are checked to be these functions at `Path::<_, '/'>::from(path)`. -/
theorem source_helpers_are_model {T K Data De R Ser F O : Type} (count : R → Nat) (countO : O → Nat)
    (deserByKey : T → K → De → Except (Error Unit) Nat × (T × De)) (deEnd : De → Except Unit R)
    (serByKey : T → K → Ser → Except (Error Unit) Nat × Ser) (serEnd : Ser → Nat)
    (pserByKey : T → K → F → Except (Error Unit) Nat × F) (serFinalize : F → Except Unit O)
    (tree : T) (keys : K) (de0 : De) (ser0 : Ser) (f0 : F) (data : Data)
    (hde : ∀ d, (deserByKey tree keys de0).1 ≠ .error (.Finalization d))
    (hser : ∀ d, (serByKey tree keys ser0).1 ≠ .error (.Finalization d))
    (hpser : ∀ d, (pserByKey tree keys f0).1 ≠ .error (.Finalization d)) :
    (∀ out, (out = json.set_by_key (fun (_ : Data) _ => de0) deserByKey deEnd tree keys data ∨
             out = postcard.set_by_key (fun (_ : Data) => de0) deserByKey deEnd tree keys data) →
      ∃ r, out = .val (r, (deserByKey tree keys de0).2.1) ∧
        helperOfGen count r =
          setThenEnd (resOfGen (deserByKey tree keys de0).1) (endOfGen count (deEnd (deserByKey tree keys de0).2.2))) ∧
    helperOfGen id (json.get_by_key (fun (_ : Data) => ser0) serByKey serEnd tree keys data) =
      getThenEnd (resOfGen (serByKey tree keys ser0).1) (serEnd (serByKey tree keys ser0).2) ∧
    helperOfGen countO (postcard.get_by_key pserByKey serFinalize tree keys f0) =
      setThenEnd (resOfGen (pserByKey tree keys f0).1) (endOfGen countO (serFinalize (pserByKey tree keys f0).2)) :=
  ⟨set_by_key_tie count deserByKey deEnd tree keys de0 data hde,
   json_get_by_key_tie serByKey serEnd tree keys ser0 data hser,
   postcard_get_by_key_tie countO pserByKey serFinalize tree keys f0 hpser⟩

end MiniconfVerif.C05
