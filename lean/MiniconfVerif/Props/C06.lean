import MiniconfVerif.Lemmas.WalkAll
import MiniconfVerif.Lemmas.Enum
import MiniconfVerif.Lemmas.GenTie
import MiniconfVerif.Lemmas.PackedPath
import MiniconfVerif.Lemmas.TextKeys

/-! # C06 — type-level metadata is exact and sufficient for sizing key buffers

Model: `Model/Meta.lean` mirrors `Metadata::{leaf, internal}` (walk.rs:71-104) as the same
left fold over the children; `Schema.leaves` is the brute-force enumeration.  Statements
hold for every schema (unbounded nesting, fan-out, array length). -/
namespace MiniconfVerif.C06
open MiniconfVerif

/-- the leaf count is exactly the number of leaves -/
theorem count_exact (s : Schema) : s.meta.count = s.leaves.length := meta_count s

/-- the maximum depth is exceeded by no leaf and attained by some leaf -/
theorem depth_exact (s : Schema) (h : s.WF) :
    (∀ p ∈ s.leaves, p.length ≤ s.meta.maxDepth) ∧ (∃ p ∈ s.leaves, p.length = s.meta.maxDepth) := by
  rw [meta_depth s h]
  exact ⟨fun p hp => leaves_len_le s p hp, leaves_depth_attained s h⟩

/-- the maximum packed bit width is the bit weight (sum of the per-level field widths) of some
leaf's key and no leaf's key is wider -/
theorem bits_exact (s : Schema) (h : s.WF) :
    (∀ p ∈ s.leaves, pathW Wbits s p ≤ s.meta.maxBits) ∧ (∃ p ∈ s.leaves, pathW Wbits s p = s.meta.maxBits) := by
  rw [meta_bits]
  exact ⟨fun p hp => pathW_le Wbits p s hp, pathW_attained Wbits s.maxDepth s (Nat.le_refl _) h⟩

/-- the maximum summed key length in bytes (names, or decimal digits of the index; separators
not counted) is attained by some leaf and exceeded by none -/
theorem length_exact (s : Schema) (h : s.WF) :
    (∀ p ∈ s.leaves, pathW Wlen s p ≤ s.meta.maxLength) ∧ (∃ p ∈ s.leaves, pathW Wlen s p = s.meta.maxLength) := by
  rw [meta_len]
  exact ⟨fun p hp => pathW_le Wlen p s hp, pathW_attained Wlen s.maxDepth s (Nat.le_refl _) h⟩

/-- **Consequently**: an index array with `max_depth` slots holds the key of every node — no
capacity error, the key is the node's index path — and when `max_bits` fits, a packed word
holds the key of every node, using at most `max_bits` bits. -/
theorem buffers_suffice (s : Schema) (hwf : s.WF) (hsm : s.Small) (p : List Nat) (t : Schema) (ht : s.at? p = some t) :
    tgtAt s (.idx [] s.meta.maxDepth (2 ^ 64 - 1)) p = .idx p s.meta.maxDepth (2 ^ 64 - 1) ∧
    Accepts s (.idx [] s.meta.maxDepth (2 ^ 64 - 1)) ∧
    (s.meta.maxBits ≤ 63 → ∃ w, Packed.pushAll Gen.Packed.EMPTY (packFields s p) = some w ∧
      (Gen.Packed.len w).toNat ≤ s.meta.maxBits ∧
      ∃ k, s.transcode (.list (intKeys p)) (.packed Gen.Packed.EMPTY) = (k, .packed w)) := by
  have har : ∀ q u, s.at? q = some u → u.arity ≤ (2 ^ 64 - 1) + 1 := fun q u h => by
    have := hsm q u h; omega
  have hd : s.maxDepth ≤ s.meta.maxDepth := by rw [meta_depth s hwf]; exact Nat.le_refl _
  refine ⟨tgtAt_idx s _ _ hd har p t ht, accepts_idx s _ _ hd har, ?_⟩
  intro hmax
  have hle := node_bits_le_max s t hwf p ht
  have hV0 : PackedWord.Valid 0 0 := by constructor <;> decide
  have htb := totalBits_eq_pathW p s t hwf ht
  obtain ⟨w, hw1, hw2, hok⟩ := cbAlong_packed p s t 0 0 hwf hsm ht hV0 (by rw [htb]; simp; omega)
  obtain ⟨w2, hw3, _, hlen⟩ := PackedWord.pushAll_popAll (packFields s p) 0 0 [] [] hV0 hok (by rw [htb]; simp; omega)
    (by rw [← PackedWord.empty_repr]; rfl)
  rw [hw1] at hw3
  cases hw3
  rw [← PackedWord.empty_repr] at hw1 hw2
  refine ⟨w, hw1, by rw [hlen, htb]; simp; exact hle, ?_⟩
  have hsrc : KeySrc.list (intKeys p) = idxSrc true p := by simp [idxSrc]
  simp only [Schema.transcode, hsrc, traverse_eq_idxWalk Target.cbP true _ s _ hwf hsm]
  have := idxWalk_prefix Target.cbP true p s t [] (.packed Gen.Packed.EMPTY, false) (.packed w, false) ht hw2
  rw [List.append_nil] at this
  rw [this]
  unfold idxWalk
  cases hl : t.isLeaf <;> simp

/-- the length weight of any node path (leaf or internal) is at most `max_length` -/
theorem node_len_le_max (s t : Schema) (hwf : s.WF) (p : List Nat) (ht : s.at? p = some t) :
    pathW Wlen s p ≤ s.meta.maxLength := by
  have htwf := wf_at? s t p hwf ht
  have hleaf := at?_append_some s t .leaf p t.firstLeaf ht (at?_firstLeaf t htwf)
  have hm := at?_leaf_mem _ s hleaf
  have := pathW_le Wlen _ s hm
  rw [pathW_append Wlen p s t _ ht] at this
  rw [meta_len]; omega

/-- **… and a path buffer of `max_length` plus one separator per level holds the `Path` of every
node**: with that capacity the `Path` target's callbacks never fail (no `Inner`/capacity error),
for every separator not occurring in a key text -/
theorem path_buffer_suffices (s t : Schema) (hwf : s.WF) (S : Char) (p : List Nat) (ht : s.at? p = some t)
    (hfree : ∀ k ∈ keyTexts s p, S ∉ k) :
    tgtAt s (.path S [] (s.meta.maxLength + s.meta.maxDepth * S.utf8Size)) p =
      .path S (renderPath S (keyTexts s p)) (s.meta.maxLength + s.meta.maxDepth * S.utf8Size) := by
  have hlen := byteLen_renderPath S p s t hwf ht
  have h1 := node_len_le_max s t hwf p ht
  have h2 : p.length ≤ s.meta.maxDepth := by
    rw [meta_depth s hwf]; have := at?_depth p s t ht; omega
  have hcap : PathIter.byteLen (renderPath S (keyTexts s p)) ≤ s.meta.maxLength + s.meta.maxDepth * S.utf8Size := by
    rw [hlen]
    have := Nat.mul_le_mul_right S.utf8Size h2
    omega
  have := cbAlong_path S _ p s t [] ht hfree (by simpa [PathIter.byteLen] using hcap)
  simp [tgtAt, this]

/-! ## non-vacuity -/
def ex : Schema := .node (.named ["foo", "bar", "baz"]) [.leaf, .array 3 .leaf, .leaf]
example : ex.WF := by simp [ex, Schema.WF, Schema.WF.wfList, Lookup.len]
example : ex.meta = ⟨4, 2, 5, 4⟩ := by decide +kernel
example : ex.leaves = [[0], [1, 0], [1, 1], [1, 2], [2]] := by decide


/-! ### Tie to the translated source (`Gen/Core.lean`, regenerated from walk.rs on every run) -/
open MiniconfVerif.Gen MiniconfVerif.Gen.Core MiniconfVerif.GenTie in
/-- `<Metadata as Walk>::internal` **as translated from walk.rs** never panics on the children of a
well-formed struct/tuple/enum-like node and returns exactly the model's merge of the children's metadata
(so `count_exact` … `length_exact` are statements about the translated source). -/
theorem source_internal_is_model (lk : Lookup) (cs : List Schema)
    (hwf : (Schema.node lk cs).WF) (h64 : lk.len < 2 ^ 64) :
    Metadata.internal (cs.map fun c => metaToGen c.meta) (lookupToGen lk) =
      .val (.ok (metaToGen (Schema.node lk cs).meta)) := by
  obtain ⟨hlen, hpos, hnames, hcs⟩ := hwf
  have hk : ∀ n, lk ≠ .homog n := by
    intro n h; subst h; exact hnames
  have h := internal_tie lk (cs.map Schema.meta) (by simpa using hlen) hpos h64 hk (by
    intro c hc
    obtain ⟨x, hx, rfl⟩ := List.mem_map.mp hc
    rw [meta_count x]
    exact List.length_pos_iff.mpr (leaves_ne_nil x (wfList_mem cs hcs x hx)))
  simpa [Schema.meta, go_eq_mergeList, List.map_map, Function.comp_def] using h

open MiniconfVerif.Gen MiniconfVerif.Gen.Core MiniconfVerif.GenTie in
/-- the same for arrays (`Homogeneous(n)`, one child) -/
theorem source_internal_array_is_model (n : Nat) (c : Schema) (hwf : (Schema.array n c).WF) (h64 : n < 2 ^ 64) :
    Metadata.internal [metaToGen c.meta] (.Homogeneous n) = .val (.ok (metaToGen (Schema.array n c).meta)) := by
  have := internal_array_tie n c.meta hwf.1 h64 (by
    rw [meta_count c]; exact List.length_pos_iff.mpr (leaves_ne_nil c hwf.2))
  simpa [Schema.meta] using this

open MiniconfVerif.Gen MiniconfVerif.Gen.Core MiniconfVerif.GenTie in
/-- `<Metadata as Walk>::leaf` and `Metadata::max_length(separator)` of the source -/
theorem source_leaf_and_max_length (m : Meta) (sep : String) :
    Metadata.leaf = metaToGen Schema.leaf.meta ∧
    (metaToGen m).max_length_sep sep = m.maxLength + m.maxDepth * sep.utf8ByteSize := ⟨rfl, rfl⟩


/-- **A user-supplied walker sees every internal node with exactly its declared children.**  For an arbitrary `Walk`
implementation (`leafW`, `internalW`), `traverse_all` (`Schema.walkAll`: the function the correspondence run executes
against the harness's recording walker on every corpus type) is the evaluation of the walker on what the *free*
(recording) walker is shown, and that is the declared structure of the type: each struct / tuple / enum / `Result` /
… node once, bottom-up, with its lookup and the walks of its children in declaration order, each array once with
`Homogeneous(n)` and the walk of its element type.  `Metadata` is the instance with `Metadata`'s own `leaf`/`internal`
(tied to the translated walk.rs by `source_internal_is_model`). -/
theorem walker_sees_every_node {W : Type} (leafW : W) (internalW : List W → Lookup → W) (s : Schema) :
    s.walkAll leafW internalW = s.shown.eval leafW internalW ∧
    s.walkAll Shown.leaf Shown.internal = s.shown ∧
    (s.WF → s.meta = s.walkAll Meta.leaf Meta.internalW) :=
  ⟨walkAll_factors leafW internalW s, walkAll_free s, meta_is_walkAll s⟩

example : (Schema.node (.named ["a", "b"]) [.leaf, .array 3 .leaf]).shown =
    .internal [.leaf, .internal [.leaf] (.homog 3)] (.named ["a", "b"]) := rfl

end MiniconfVerif.C06
