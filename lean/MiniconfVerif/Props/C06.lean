import MiniconfVerif.Lemmas.Meta

/-! # C06 — type-level metadata is exact and sufficient for sizing key buffers

Model: `Model/Meta.lean` mirrors `Metadata::{leaf, internal}` (walk.rs:71-104) as the same
left fold over the children; `Schema.leaves` is the brute-force enumeration.  Statements
hold for every schema (unbounded nesting, fan-out, array length). -/
namespace MiniconfVerif.C06
open MiniconfVerif

/-- the leaf count is exactly the number of leaves -/
theorem count_exact (s : Schema) : s.meta.count = s.leaves.length := meta_count s

/-- the maximum depth is exceeded by no leaf and attained by some leaf -/
theorem depth_exact (s : Schema) (h : s.WF) :
    (∀ p ∈ s.leaves, p.length ≤ s.meta.maxDepth) ∧ (∃ p ∈ s.leaves, p.length = s.meta.maxDepth) := by
  rw [meta_depth s h]
  exact ⟨fun p hp => leaves_len_le s p hp, leaves_depth_attained s h⟩

/-! ## non-vacuity -/
def ex : Schema := .node (.named ["foo", "bar", "baz"]) [.leaf, .array 3 .leaf, .leaf]
example : ex.WF := by simp [ex, Schema.WF, Schema.WF.wfList, Lookup.len]
example : ex.meta = ⟨4, 2, 5, 4⟩ := by decide +kernel
example : ex.leaves = [[0], [1, 0], [1, 1], [1, 2], [2]] := by decide

end MiniconfVerif.C06
