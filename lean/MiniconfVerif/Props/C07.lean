import MiniconfVerif.Lemmas.MqttStep
import MiniconfVerif.Lemmas.GenTieMqtt

/-! # C07 — MQTT Get/Set/List requests are answered once, correctly, and correlated

Model: `Model/Mqtt.lean` (`handleMsg` = the poll closure, `listPump`/`iterList` = the list
pump).  `canPub` = the client is able to publish when the request is handed over (the
hypothesis "delivered while the client is able to publish" of the property). -/
namespace MiniconfVerif.C07
open MiniconfVerif MiniconfVerif.Mqtt MiniconfVerif.PathIter

variable {σ : Type}

/-- **Set**: a non-empty payload on a settings topic is applied as a JSON write and answered
(if the request names a response topic) with exactly one message there, carrying the
request's correlation data, `Ok`/"OK" or `Error`/error text. -/
theorem set_answer (ops : SettingsOps σ) (pfx : Str) (c : Client) (s : σ) (m : Req) (fits : Bool)
    (path : Str) (hp : topicPath pfx m.topic = some path) (hne : m.payload.isEmpty = false) :
    let r := handleMsg ops pfx c s m true fits
    r.1 = c ∧ r.2.1 = (ops.set s path m.payload).2 ∧
    r.2.2.1 = (match m.respTopic with
      | some rt => [Out.pub rt (setBody (ops.set s path m.payload).1)
                      (if (ops.set s path m.payload).1 = .ok then .ok else .error) m.cd]
      | none => []) := by
  simp only [handleMsg, hp, hne]
  cases hs : ops.set s path m.payload with
  | mk r s' =>
    cases r <;> cases hrt : m.respTopic <;> simp [respond, hrt, setBody]

/-- **Get** on a leaf: one `Ok` message with the leaf's JSON value, on the response topic
(or the request topic if none is named), with the request's correlation data. -/
theorem get_answer (ops : SettingsOps σ) (pfx : Str) (c : Client) (s : σ) (m : Req)
    (path txt : Str) (hp : topicPath pfx m.topic = some path) (he : m.payload.isEmpty = true)
    (hg : ops.get s path = .value txt) :
    handleMsg ops pfx c s m true true = (c, s, [.pub (m.respTopic.getD m.topic) (.text txt) .ok m.cd], .unchanged) := by
  simp [handleMsg, hp, he, hg]

/-- **Get** on an invalid or absent path: one `Error` message with the traversal error. -/
theorem get_error (ops : SettingsOps σ) (pfx : Str) (c : Client) (s : σ) (m : Req) (fits : Bool)
    (path rt : Str) (t : Trav) (hp : topicPath pfx m.topic = some path) (he : m.payload.isEmpty = true)
    (hg : ops.get s path = .err t) (hrt : m.respTopic = some rt) :
    handleMsg ops pfx c s m true fits = (c, s, [.pub rt (.errTrav t) .error m.cd], .unchanged) := by
  simp [handleMsg, hp, he, hg, respond, hrt]

/-- **List** accepted while idle: the answer is rooted at the node, with the request's
response topic and correlation data cached; nothing is sent by the handler itself. -/
theorem list_accepted (ops : SettingsOps σ) (pfx : Str) (c : Client) (s : σ) (m : Req) (fits : Bool)
    (path : Str) (ls : List Str) (hp : topicPath pfx m.topic = some path) (he : m.payload.isEmpty = true)
    (hg : ops.get s path = .internal) (hs : c.st = .single) (h1 : rtTooLong m = false) (h2 : cdTooLong m = false)
    (hl : ops.leavesBelow path = some ls) :
    handleMsg ops pfx c s m true fits =
      ({ c with st := .multipart, pending := { remaining := ls, respTopic := m.respTopic, cd := m.cd } }, s, [], .unchanged) := by
  simp [handleMsg, hp, he, hg, hs, h1, h2, hl]

/-- **Busy**: a list/dump request while another multipart answer (or the initial dump) is
pending is refused with one `Error` response and does not disturb the pending one. -/
theorem busy_refused (ops : SettingsOps σ) (pfx : Str) (c : Client) (s : σ) (m : Req) (fits : Bool)
    (path : Str) (hp : topicPath pfx m.topic = some path) (he : m.payload.isEmpty = true)
    (hg : ops.get s path = .internal) (hs : c.st ≠ .single) :
    handleMsg ops pfx c s m true fits =
      (c, s, (match m.respTopic with
        | some rt => [Out.pub rt (.text msgPending) .error m.cd]
        | none => []), .unchanged) := by
  simp only [handleMsg, hp, he, hg, hs]
  cases hrt : m.respTopic <;> simp [respond, hrt]

/-- **List pump**, for every split of publish slots over `update()` calls: what has been sent
so far are the first paths in order as `Continue` (no gaps, no repeats), followed by
`Ok ""` exactly when the walk completes, all on the cached response topic with the cached
correlation data; what remains is the rest. -/
theorem list_no_gaps (rt : Str) (cd : Option (List Nat)) (rem : List Str) (k : Nat) :
    ∃ sent, rem = sent ++ (listPump rt cd rem k).1 ∧
      (listPump rt cd rem k).2.1 = sent.map (fun p => Out.pub rt (.text p) .continue cd) ++
        (if (listPump rt cd rem k).2.2 then [Out.pub rt (.text []) .ok cd] else []) ∧
      ((listPump rt cd rem k).2.2 = true → (listPump rt cd rem k).1 = []) :=
  let ⟨sent, h1, h2, h3, _⟩ := listPump_spec rt cd k rem
  ⟨sent, h1, h2, h3⟩

/-- with enough slots the answer is complete: every leaf path below the node in iteration
order, then one `Ok` with empty payload, and the client is idle again -/
theorem list_complete (c : Client) (rt : Str) (h : c.pending.respTopic = some rt) (k : Nat)
    (hk : c.pending.remaining.length < k) :
    (iterList c k).1.st = .single ∧
    (iterList c k).2 = c.pending.remaining.map (fun p => Out.pub rt (.text p) .continue c.pending.cd)
      ++ [.pub rt (.text []) .ok c.pending.cd] := by
  simp [iterList, h, listPump_complete rt c.pending.cd c.pending.remaining k hk]

/-- the delivery schedule does not matter: `k1` slots now and `k2` later send what `k1 + k2` would -/
theorem list_any_schedule (rt : Str) (cd : Option (List Nat)) (k1 k2 : Nat) (rem : List Str)
    (h : (listPump rt cd rem k1).2.2 = false) :
    (listPump rt cd rem (k1 + k2)).2.1 =
      (listPump rt cd rem k1).2.1 ++ (listPump rt cd (listPump rt cd rem k1).1 k2).2.1 := by
  rw [listPump_schedule rt cd k1 k2 rem h]

/-- a request outside `<prefix>/settings…` is ignored -/
theorem foreign_topic_ignored (ops : SettingsOps σ) (pfx : Str) (c : Client) (s : σ) (m : Req) (cp fits : Bool)
    (h : topicPath pfx m.topic = none) : handleMsg ops pfx c s m cp fits = (c, s, [], .unchanged) := by
  simp [handleMsg, h]

/-! ## non-vacuity -/
example : listPump "r".toList (some [1]) ["/a".toList, "/b".toList] 5 =
    ([], [.pub "r".toList (.text "/a".toList) .continue (some [1]), .pub "r".toList (.text "/b".toList) .continue (some [1]),
          .pub "r".toList (.text []) .ok (some [1])], true) := by decide +kernel
example : topicPath "p".toList "p/settings/a".toList = some "/a".toList := by decide +kernel

open MiniconfVerif.Gen MiniconfVerif.Gen.Core MiniconfVerif.Gen.Mqtt MiniconfVerif.GenTie in
/-- **The request handler as translated from miniconf_mqtt/src/lib.rs** (`Gen/Mqtt.lean`, regenerated on every run: the
closure `poll()` hands to minimq, with every call into minimq / the settings tree answered by an `Env`, and every
publication it asks for appended to an action list) **is the model's `handleMsg`** — on which `set_answer`, `get_answer`,
`get_error`, `list_accepted`, `busy_refused`, `foreign_topic_ignored` (C07), `changed_flag`, `long_props_refused`,
`handleMsg_no_panic` (C14) are proved — for the environment the model assumes (`pubGetOf`: no free slot ⇒ `NotReady`
before anything is serialized, otherwise the outcome of serializing the value; `mpTryOf`: response topic, then correlation
data; `setResOf`).  Same protocol state and pending request afterwards, same publications in the same order (texts, response
codes, response topic / correlation data), same report to `update()`, panic exactly at the model's panic marker
(`m.root(path).unwrap()` on a path `root()` refuses). -/
theorem source_handler_is_model (ops : SettingsOps σ) (pfx : Str) (c : Client) (s : σ) (m : Req) (canPub fits : Bool)
    (envG : Except (PubErr Unit) Unit) (envS : Except (Error Unit) Nat)
    (hG : ∀ path, topicPath pfx m.topic = some path →
      pubGetOf canPub (ops.get s path) fits (path.count '/') = some envG)
    (hS : ∀ path, topicPath pfx m.topic = some path → setResOf (ops.set s path m.payload).1 = some envS) :
    match poll_closure (envOf ops ((topicPath pfx m.topic).getD []) m envG envS) pfx
        ({ st := stToGen c.st, pending := c.pending, acts := [], ext := () } : Cl Unit Unit Pending Unit) m.topic m.payload with
    | .val (cl, ret) =>
      handleMsg ops pfx c s m canPub fits =
        ({ c with st := stOfGen cl.st, pending := cl.pending },
         (match topicPath pfx m.topic with
          | some p => if m.payload.isEmpty then s else (ops.set s p m.payload).2
          | none => s),
         outsOfActs m canPub (getTxtOf (ops.get s ((topicPath pfx m.topic).getD [])) envG) cl.acts, retOfGen ret)
    | .panic _ => (handleMsg ops pfx c s m canPub fits).2.2.2 = .panic :=
  poll_closure_tie ops pfx c s m canPub fits envG envS hG hS

open MiniconfVerif.Gen MiniconfVerif.Gen.Core MiniconfVerif.Gen.Mqtt MiniconfVerif.GenTie in
/-- **`iter_list` as translated from miniconf_mqtt/src/lib.rs** (one pass of its `while can_publish { .. }` loop is
`Gen.Mqtt.iter_list_body`; `runListG` runs the loop as written: `k` passes with a free publication slot, then the
condition fails) **is the model's list pump** `listPump`, about which `list_no_gaps`, `list_complete` and
`list_any_schedule` speak: for every number of granted slots, every remaining path list, response topic and correlation
data — one `Continue` message per path in order, then one `Ok` with empty payload together with the `Complete` transition
(`Multipart → Single`), every message on the cached response topic with the cached correlation data, nothing else sent,
no panic. -/
theorem source_iter_list_is_model {E Es X : Type} (env : Env E Es Pend) (rt : Str) (cd : Option (List Nat))
    (k : Nat) (rem : List Str) (acts0 : List (Act E Es)) (log : List String) (ext : X) :
    ∃ cl', runListG env k { st := .Multipart, pending := ⟨rem, some rt, cd⟩, acts := acts0, log := log, ext := ext } = .val cl' ∧
      cl'.pending = ⟨(listPump rt cd rem k).1, some rt, cd⟩ ∧
      cl'.st = (if (listPump rt cd rem k).2.2 then SmState.Single else SmState.Multipart) ∧
      cl'.log = log ∧ cl'.ext = ext ∧
      ∃ new, cl'.acts = acts0 ++ new ∧ new.filterMap outOfAct = (listPump rt cd rem k).2.1 :=
  iter_list_tie env rt cd k rem acts0 log ext

end MiniconfVerif.C07
