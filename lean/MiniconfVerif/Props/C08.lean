import MiniconfVerif.Lemmas.PackedLsb
import MiniconfVerif.Lemmas.PackedSeq

/-! # C08 — packed key arithmetic is a lossless stack of bit fields

Every definition named here (`pushLsb`, `popMsb`, `intoLsb`, `fromLsb`, `bitsFor`, `len`,
`EMPTY`) is *generated* from `/repo/miniconf/src/packed.rs` on every run
(`Gen/Packed.lean`).  Words are `BitVec 64` (`usize` on a 64-bit target).
Only property theorems and their non-vacuity examples live in this file. -/
namespace MiniconfVerif.C08
open MiniconfVerif.Gen.Packed MiniconfVerif.Packed MiniconfVerif.PackedWord

/-- Every non-zero word is a stack `(len, content)` with `len ≤ 63`, `content < 2^len`,
and the representation is injective: the abstract view loses nothing. -/
theorem every_word_is_a_stack (w : BitVec 64) (hw : w ≠ 0) :
    ∃ l c, Valid l c ∧ w = reprW l c ∧ len w = l ∧
      ∀ l' c', Valid l' c' → w = reprW l' c' → l' = l ∧ c' = c := by
  obtain ⟨hV, he⟩ := word_is_repr w hw
  refine ⟨_, _, hV, he, rfl, ?_⟩
  intro l' c' hV' he'
  have := reprW_inj _ _ _ _ hV' hV (he'.symm.trans he)
  exact this

/-- push: fits ⇒ the stored length grows by exactly the width, the content is extended at
the LSB end, the returned value is the remaining capacity; does not fit ⇒ `None`
(the functional translation returns no new `self`, i.e. the key is unchanged). -/
theorem push_refines (l c b v : BitVec 64) (h : Valid l c) (hb : b ≤ 63) (hv : v >>> b = 0) :
    pushLsb (reprW l c) b v =
      if l.toNat + b.toNat ≤ 63 then some (reprW (l + b) ((c <<< b) ||| v), 63 - (l + b))
      else none := by
  split
  · next hfit => exact push_ok l c b v h hb hv hfit
  · next hfit => exact push_fail l c b v h hb (by omega)

theorem push_len (l c b v : BitVec 64) (h : Valid l c) (hb : b ≤ 63) (hv : v >>> b = 0)
    (w' r : BitVec 64) (hp : pushLsb (reprW l c) b v = some (w', r)) :
    (len w').toNat = (len (reprW l c)).toNat + b.toNat ∧ r = capacity w' := by
  rw [push_refines l c b v h hb hv] at hp
  split at hp
  · next hfit =>
    simp only [Option.some.injEq, Prod.mk.injEq] at hp
    obtain ⟨rfl, rfl⟩ := hp
    have hV' := push_valid l c b v h hb hv hfit
    have e1 := len_reprW _ _ hV'
    have e2 := len_reprW _ _ h
    refine ⟨by rw [e1, e2]; exact toNat_add_of_fit l b hfit, ?_⟩
    have : len (reprW (l + b) (c <<< b ||| v)) = 63 - capacity (reprW (l + b) (c <<< b ||| v)) := rfl
    have hl : l + b ≤ 63 := hV'.1
    have hc : capacity (reprW (l + b) (c <<< b ||| v)) ≤ 64 := by
      simp only [capacity]; bv_decide
    rw [this] at e1
    generalize capacity (reprW (l + b) (c <<< b ||| v)) = k at *
    have hk : k ≠ 64 := by
      intro hk; subst hk; revert e1 hl; generalize l + b = z; intro e1 hl; bv_decide
    bv_omega
  · exact absurd hp (by simp)

/-- pop: enough bits ⇒ the top `b` bits are returned and removed; otherwise `None`. -/
theorem pop_refines (l c b : BitVec 64) (h : Valid l c) :
    popMsb (reprW l c) b =
      if b ≤ l then some (reprW (l - b) (c &&& (((1 : BitVec 64) <<< (l - b)) - 1)), c >>> (l - b))
      else none := by
  split
  · next hb => exact pop_ok l c b h hb
  · next hb => exact pop_none_of_lt l c b h (by bv_omega)

/-- Pushing any sequence of fields that fits onto the empty key and popping the same
widths returns the same values in the same order and restores the empty key; the stored
length is the sum of the widths.  (Induction over the field list; unbounded length.) -/
theorem push_pop_seq (fs : List (BitVec 64 × BitVec 64)) (hok : ∀ f ∈ fs, FieldOk f)
    (hfit : totalBits fs ≤ 63) :
    ∃ w, pushAll EMPTY fs = some w ∧
      popAll w (fs.map (·.1)) = some (fs.map (·.2), EMPTY) ∧
      (len w).toNat = totalBits fs := by
  have hV0 : Valid 0 0 := by constructor <;> decide
  have := pushAll_popAll fs 0 0 [] [] hV0 hok (by simpa using hfit) (by rw [← empty_repr]; rfl)
  rw [← empty_repr] at this
  simpa using this

/-- A sequence whose total width exceeds the capacity cannot be pushed. -/
theorem push_seq_overflow (fs : List (BitVec 64 × BitVec 64)) (hok : ∀ f ∈ fs, FieldOk f)
    (h : 63 < totalBits fs) : pushAll EMPTY fs = none := by
  have hV0 : Valid 0 0 := by constructor <;> decide
  have := pushAll_overflow fs 0 0 hV0 hok (by simpa using h)
  rwa [← empty_repr] at this

/-- LSB form: a bijection on all non-zero words … -/
theorem lsb_bijection (w : BitVec 64) (hw : w ≠ 0) :
    intoLsb w ≠ 0 ∧ fromLsb w ≠ 0 ∧ fromLsb (intoLsb w) = w ∧ intoLsb (fromLsb w) = w :=
  ⟨intoLsb_ne_zero w hw, fromLsb_ne_zero w hw, fromLsb_intoLsb w hw, intoLsb_fromLsb w hw⟩

/-- The public constructors: `new` and `new_from_lsb` refuse exactly zero; `new_from_lsb` is the inverse of
`into_lsb` on every key and is defined on **every** non-zero word (also those with the top bit set: the LSB forms
of full keys); `clear` gives the empty key. -/
theorem constructors (v : BitVec 64) :
    (new_ v = none ↔ v = 0) ∧ (newFromLsb v = none ↔ v = 0) ∧
    (v ≠ 0 → new_ v = some v ∧ newFromLsb (intoLsb v) = some v ∧
      ∃ p, newFromLsb v = some p ∧ p ≠ 0 ∧ intoLsb p = v) ∧
    clear v = EMPTY := by
  refine ⟨?_, ?_, ?_, rfl⟩
  · by_cases h : v = 0 <;> simp [new_, h]
  · by_cases h : v = 0 <;> simp [newFromLsb, h]
  · intro h
    refine ⟨by rw [new_, if_neg h], ?_, ?_⟩
    · rw [newFromLsb, if_neg (intoLsb_ne_zero v h), fromLsb_intoLsb v h]
    · exact ⟨fromLsb v, by rw [newFromLsb, if_neg h], fromLsb_ne_zero v h, intoLsb_fromLsb v h⟩

/-- … that preserves the stored fields: the LSB form is `2^len + content`. -/
theorem lsb_preserves (l c : BitVec 64) (h : Valid l c) :
    intoLsb (reprW l c) = ((1 : BitVec 64) <<< l) ||| c ∧
    fromLsb (((1 : BitVec 64) <<< l) ||| c) = reprW l c :=
  ⟨intoLsb_reprW l c h, fromLsb_marker l c h⟩

/-- `bits_for n`: covers `n`, is minimal, and is never zero. -/
theorem bitsFor_spec (n : BitVec 64) :
    1 ≤ bitsFor n ∧ bitsFor n ≤ 64 ∧
    (bitsFor n ≤ 63 → n >>> bitsFor n = 0) ∧
    (1 < bitsFor n → n >>> (bitsFor n - 1) ≠ 0) :=
  ⟨(bitsFor_pos n).1, (bitsFor_pos n).2, bitsFor_covers n, bitsFor_minimal n⟩

/-- The width used for an index among `len` siblings is `bits_for (len - 1)` and every
valid index fits it. -/
theorem key_width (len idx : BitVec 64) (hl : len ≠ 0) (hi : idx < len) (h63 : keyBits len ≤ 63) :
    keyBits len = bitsFor (len - 1) ∧ idx >>> keyBits len = 0 :=
  ⟨rfl, index_fits len idx hl hi h63⟩

/-! ## non-vacuity -/
example : Valid 5 0b10110 ∧ FieldOk (3, 0b101) ∧ reprW 5 0b10110 ≠ 0 := by
  refine ⟨⟨by decide, by decide⟩, ⟨by decide, by decide⟩, by decide⟩
example : pushAll EMPTY [(2, 0b11), (1, 0), (0, 0), (3, 0b101)] = some (0b1101011 <<< 57) := by decide +kernel
example : popAll (0b1101011 <<< 57) [2, 1, 0, 3] = some ([0b11, 0, 0, 0b101], EMPTY) := by decide +kernel
example : intoLsb (0b1101011 <<< 57) = 0b1110101 := by decide +kernel

end MiniconfVerif.C08
