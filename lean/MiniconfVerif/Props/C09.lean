import MiniconfVerif.Props.C08
import MiniconfVerif.Model.Transcode

/-! # C09 — packed node keys are unique, ordered like iteration, bounded by max_bits
(first instalment: the per-level field; the path-level theorems `dec_enc`, `enc_order`
are being added on top of C08's sequence theorem, see DESIGN.md §7 C09) -/
namespace MiniconfVerif.C09
open MiniconfVerif MiniconfVerif.Gen.Packed MiniconfVerif.PackedWord

/-- One level: pushing an index among `len` siblings with the width the code uses and
popping that width again returns the index and the previous key (so distinct indices
give distinct keys, and decoding inverts encoding level by level). -/
theorem level_roundtrip (l c len idx : BitVec 64) (h : Valid l c) (hl : len ≠ 0) (hi : idx < len)
    (h63 : keyBits len ≤ 63) (hfit : l.toNat + (keyBits len).toNat ≤ 63) :
    ∃ w r, pushLsb (reprW l c) (keyBits len) idx = some (w, r) ∧
      MiniconfVerif.Packed.popAll w [l, keyBits len] = some ([c, idx], EMPTY) := by
  have hv := index_fits len idx hl hi h63
  have hp := push_ok l c (keyBits len) idx h h63 hv hfit
  refine ⟨_, _, hp, ?_⟩
  have hV' := push_valid l c (keyBits len) idx h h63 hv hfit
  have h1 : l ≤ l + keyBits len := by bv_omega
  have hl63 := h.1
  obtain ⟨c1, c2, c3⟩ := commute l c l (keyBits len) idx h h63 hv hfit (by bv_omega)
  simp only [MiniconfVerif.Packed.popAll]
  rw [pop_ok _ _ _ hV' h1, c3, c1, c2]
  have e0 : l - l = 0 := by bv_omega
  simp only [e0]
  have hV2 : Valid (0 + keyBits len) (((c &&& (((1 : BitVec 64) <<< (0 : BitVec 64)) - 1)) <<< keyBits len) ||| idx) := by
    have : c &&& (((1 : BitVec 64) <<< (0 : BitVec 64)) - 1) = 0 := by bv_decide
    rw [this]
    have hV0 : Valid 0 0 := by constructor <;> decide
    exact push_valid 0 0 (keyBits len) idx hV0 h63 hv (by simpa using (by bv_omega : (keyBits len).toNat ≤ 63))
  have hle : keyBits len ≤ 0 + keyBits len := by bv_omega
  rw [pop_ok _ _ _ hV2 hle]
  have z1 : c >>> (0 : BitVec 64) = c := by bv_decide
  generalize keyBits len = b at *
  have z2 : (0 : BitVec 64) + b - b = 0 := by bv_omega
  have z3 : (((c &&& (((1 : BitVec 64) <<< (0 : BitVec 64)) - 1)) <<< b) ||| idx) >>> ((0 : BitVec 64) + b - b) = idx := by
    rw [z2]; bv_decide
  have z4 : (((c &&& (((1 : BitVec 64) <<< (0 : BitVec 64)) - 1)) <<< b) ||| idx) &&& (((1 : BitVec 64) <<< ((0 : BitVec 64) + b - b)) - 1) = 0 := by
    rw [z2]; bv_decide
  rw [z1, z3, z4, z2, ← empty_repr]

end MiniconfVerif.C09
