import MiniconfVerif.Props.C08
import MiniconfVerif.Lemmas.PackedOrder
import MiniconfVerif.Lemmas.GenTieKeys

/-! # C09 — packed node keys are unique, ordered like iteration, decode to their node, bounded by max_bits

Model: the `Transcode for Packed` callback and `Keys for Packed` (`Model/Transcode.lean`,
`Model/Keys.lean`) over the single-word functions regenerated from packed.rs; the path-level
statements are built on C08's `pushAll`/`popAll` theorems (Lemmas/PackedPath.lean).
-/
namespace MiniconfVerif.C09
open MiniconfVerif MiniconfVerif.Gen.Packed MiniconfVerif.PackedWord MiniconfVerif.Packed

/-- One level: pushing an index among `len` siblings with the width the code uses and
popping that width again returns the index and the previous key (so distinct indices
give distinct keys, and decoding inverts encoding level by level). -/
theorem level_roundtrip (l c len idx : BitVec 64) (h : Valid l c) (hl : len ≠ 0) (hi : idx < len)
    (h63 : keyBits len ≤ 63) (hfit : l.toNat + (keyBits len).toNat ≤ 63) :
    ∃ w r, pushLsb (reprW l c) (keyBits len) idx = some (w, r) ∧
      MiniconfVerif.Packed.popAll w [l, keyBits len] = some ([c, idx], EMPTY) := by
  have hv := index_fits len idx hl hi h63
  have hp := push_ok l c (keyBits len) idx h h63 hv hfit
  refine ⟨_, _, hp, ?_⟩
  have hV' := push_valid l c (keyBits len) idx h h63 hv hfit
  have h1 : l ≤ l + keyBits len := by bv_omega
  have hl63 := h.1
  obtain ⟨c1, c2, c3⟩ := commute l c l (keyBits len) idx h h63 hv hfit (by bv_omega)
  simp only [MiniconfVerif.Packed.popAll]
  rw [pop_ok _ _ _ hV' h1, c3, c1, c2]
  have e0 : l - l = 0 := by bv_omega
  simp only [e0]
  have hV2 : Valid (0 + keyBits len) (((c &&& (((1 : BitVec 64) <<< (0 : BitVec 64)) - 1)) <<< keyBits len) ||| idx) := by
    have : c &&& (((1 : BitVec 64) <<< (0 : BitVec 64)) - 1) = 0 := by bv_decide
    rw [this]
    have hV0 : Valid 0 0 := by constructor <;> decide
    exact push_valid 0 0 (keyBits len) idx hV0 h63 hv (by simpa using (by bv_omega : (keyBits len).toNat ≤ 63))
  have hle : keyBits len ≤ 0 + keyBits len := by bv_omega
  rw [pop_ok _ _ _ hV2 hle]
  have z1 : c >>> (0 : BitVec 64) = c := by bv_decide
  generalize keyBits len = b at *
  have z2 : (0 : BitVec 64) + b - b = 0 := by bv_omega
  have z3 : (((c &&& (((1 : BitVec 64) <<< (0 : BitVec 64)) - 1)) <<< b) ||| idx) >>> ((0 : BitVec 64) + b - b) = idx := by
    rw [z2]; bv_decide
  have z4 : (((c &&& (((1 : BitVec 64) <<< (0 : BitVec 64)) - 1)) <<< b) ||| idx) &&& (((1 : BitVec 64) <<< ((0 : BitVec 64) + b - b)) - 1) = 0 := by
    rw [z2]; bv_decide
  rw [z1, z3, z4, z2, ← empty_repr]

/-- the node kind the lookup reports for the node at the end of a path -/
def kindAt (t : Schema) (d : Nat) : NodeRes := if t.isLeaf then .leaf d else .internal d

/-- the packed key of the node at index path `p` -/
def packOf (s : Schema) (p : List Nat) : Option (BitVec 64) := pushAll EMPTY (packFields s p)

/-- **Encoding**: for every node (leaf or internal) whose bit weight fits the word, transcoding
its index key into a `Packed` succeeds, without reaching a panic site; the key is the fields
of the path pushed in order and uses exactly the path's bit weight. -/
theorem encode (s t : Schema) (hwf : s.WF) (hsm : s.Small) (p : List Nat) (ht : s.at? p = some t)
    (hfit : pathW Wbits s p ≤ 63) :
    ∃ w, packOf s p = some w ∧
      s.transcode (.list (intKeys p)) (.packed EMPTY) = (kindAt t p.length, .packed w) ∧
      (len w).toNat = pathW Wbits s p := by
  have hV0 : Valid 0 0 := by constructor <;> decide
  have htb := totalBits_eq_pathW p s t hwf ht
  obtain ⟨w, hw1, hw2, hok⟩ := cbAlong_packed p s t 0 0 hwf hsm ht hV0 (by rw [htb]; simpa using hfit)
  rw [← empty_repr] at hw1 hw2
  obtain ⟨w2, hw3, _, hlen⟩ := pushAll_popAll (packFields s p) 0 0 [] [] hV0 hok (by rw [htb]; simpa using hfit)
    (by rw [← empty_repr]; rfl)
  rw [← empty_repr, hw1] at hw3
  cases hw3
  refine ⟨w, hw1, ?_, by rw [hlen, htb]; simp⟩
  have hsrc : KeySrc.list (intKeys p) = idxSrc true p := by simp [idxSrc]
  simp only [Schema.transcode, hsrc, traverse_eq_idxWalk Target.cbP true _ s _ hwf hsm]
  have := idxWalk_prefix Target.cbP true p s t [] (.packed EMPTY, false) (.packed w, false) ht hw2
  rw [List.append_nil] at this
  rw [this]
  unfold idxWalk
  cases hl : t.isLeaf <;> simp [incrN_ok, incrN_tooShort, Res.toNode, kindAt, hl]

/-- **Decoding**: the packed key of a node, used as a key, walks to exactly that node: the
lookup reports its kind and depth and hands the callbacks exactly its indices. -/
theorem decode (s t : Schema) (hwf : s.WF) (hsm : s.Small) (p : List Nat) (ht : s.at? p = some t)
    (hmax : s.meta.maxBits ≤ 63) (w : BitVec 64) (hw : packOf s p = some w)
    (cap m : Nat) (hcap : s.maxDepth ≤ cap) (har : ∀ q u, s.at? q = some u → u.arity ≤ m + 1) :
    s.transcode (.packed w) (.idx [] cap m) = (kindAt t p.length, .idx p cap m) := by
  have hV0 : Valid 0 0 := by constructor <;> decide
  have htb := totalBits_eq_pathW p s t hwf ht
  have hfit : pathW Wbits s p ≤ 63 := Nat.le_trans (node_bits_le_max s t hwf p ht) hmax
  obtain ⟨w', hw1, _, hok⟩ := cbAlong_packed p s t 0 0 hwf hsm ht hV0 (by rw [htb]; simpa using hfit)
  obtain ⟨w2, hw3, hpop, _⟩ := pushAll_popAll (packFields s p) 0 0 [] [] hV0 hok (by rw [htb]; simpa using hfit)
    (by rw [← empty_repr]; rfl)
  rw [← empty_repr] at hw3
  simp only [packOf] at hw
  rw [hw] at hw3
  cases hw3
  simp only [List.nil_append] at hpop
  have hdep := at?_depth p s t ht
  have hidx := cbAlong_idx cap m p s t [] ht (by simp; omega) har
  have htr := traverse_packed Target.cbP p s t w (.idx [] cap m, false) _ hwf hsm ht hpop hok hidx
  -- the end of the walk: the key is used up
  have hend := traverse_packed_empty Target.cbP t (Target.idx ([] ++ p) cap m, false) (by
    intro hnl
    -- the width of `t`'s own level is part of some leaf's weight
    obtain ⟨c0, hc0⟩ : ∃ c0, t.kids[0]? = some c0 := by
      have := wf_arity_pos t (wf_at? s t p hwf ht) (by intro e; subst e; simp [Schema.isLeaf] at hnl)
      unfold Schema.arity at this
      exact ⟨t.kids[0], by simp [this]⟩
    have hc0at := at?_snoc s p 0 t c0 ht hc0
    have hle := node_bits_le_max s c0 hwf (p ++ [0]) hc0at
    rw [pathW_append Wbits p s t [0] ht] at hle
    have hw0 : pathW Wbits t [0] = widthFor t.lookup.len := by
      cases t with
      | leaf => simp [Schema.isLeaf] at hnl
      | node lk cs => simp [pathW, Schema.levelW, Wbits, Schema.lookup, hc0]
      | array n c => simp [pathW, Schema.levelW, Wbits, Schema.lookup, hc0, Lookup.len]
    rw [hw0] at hle
    rw [BitVec.le_def]
    simp only [widthFor] at hle
    have h63 : (63 : BitVec 64).toNat = 63 := rfl
    rw [h63]; omega)
  simp only [Schema.transcode, htr, hend]
  cases hl : t.isLeaf <;> simp [incrN_ok, incrN_tooShort, Res.toNode, kindAt, hl]

/-- **Distinct nodes have distinct packed keys.** -/
theorem unique (s t t' : Schema) (hwf : s.WF) (hsm : s.Small) (hmax : s.meta.maxBits ≤ 63)
    (p p' : List Nat) (ht : s.at? p = some t) (ht' : s.at? p' = some t') (w : BitVec 64)
    (hw : packOf s p = some w) (hw' : packOf s p' = some w) : p = p' := by
  have har : ∀ q u, s.at? q = some u → u.arity ≤ (2 ^ 64 - 1) + 1 := fun q u h => by
    have := hsm q u h; omega
  have h1 := decode s t hwf hsm p ht hmax w hw s.maxDepth (2 ^ 64 - 1) (Nat.le_refl _) har
  have h2 := decode s t' hwf hsm p' ht' hmax w hw' s.maxDepth (2 ^ 64 - 1) (Nat.le_refl _) har
  rw [h1] at h2
  simp only [Prod.mk.injEq, Target.idx.injEq] at h2
  exact h2.2.1

/-- **No key uses more bits than the metadata's maximum bit width** (and the bound is exact:
some leaf's key uses exactly that many). -/
theorem bounded (s : Schema) (hwf : s.WF) :
    (∀ p t, s.at? p = some t → pathW Wbits s p ≤ s.meta.maxBits) ∧
    (∃ p ∈ s.leaves, pathW Wbits s p = s.meta.maxBits) := by
  refine ⟨fun p t ht => node_bits_le_max s t hwf p ht, ?_⟩
  rw [meta_bits]
  exact pathW_attained Wbits s.maxDepth s (Nat.le_refl _) hwf

/-- **The numeric order of the packed keys of the leaves is their iteration order**: the leaves
are listed in strictly increasing lexicographic order of their index paths, and of two diverging
node paths the lexicographically smaller has the numerically smaller packed key; hence the packed
keys of `s.leaves`, in that order, are strictly increasing. -/
theorem order (s : Schema) (hwf : s.WF) (hsm : s.Small) (hmax : s.meta.maxBits ≤ 63) :
    (s.leaves.map (packOf s)).Pairwise (fun a b => ∃ w w', a = some w ∧ b = some w' ∧ w < w') := by
  rw [List.pairwise_map]
  refine (leaves_pairwise s.maxDepth s (Nat.le_refl _)).imp_of_mem ?_
  intro p p' hp hp' hlex
  have ht := mem_leaves_at? p s hp
  have ht' := mem_leaves_at? p' s hp'
  have hfit : pathW Wbits s p ≤ 63 := Nat.le_trans (node_bits_le_max s _ hwf p ht) hmax
  have hfit' : pathW Wbits s p' ≤ 63 := Nat.le_trans (node_bits_le_max s _ hwf p' ht') hmax
  obtain ⟨w, hw, _, _⟩ := encode s _ hwf hsm p ht hfit
  obtain ⟨w', hw', _, _⟩ := encode s _ hwf hsm p' ht' hfit'
  refine ⟨w, w', hw, hw', ?_⟩
  have hV0 : Valid 0 0 := by constructor <;> decide
  have htb := totalBits_eq_pathW p s _ hwf ht
  have htb' := totalBits_eq_pathW p' s _ hwf ht'
  simp only [packOf] at hw hw'
  rw [empty_repr] at hw hw'
  exact pack_lt p p' s _ _ 0 0 w w' hwf hsm ht ht' hV0 hlex (by rw [htb]; simpa using hfit)
    (by rw [htb']; simpa using hfit') hw hw'

/-- two types agree on the field width at every node of `s` that also exists in `s'`
(e.g. `s'` is `s` with children appended to some nodes without crossing a power of two) -/
def WidthsAgree (s s' : Schema) : Prop :=
  ∀ q t i c, s.at? q = some t → t.kids[i]? = some c →
    ∃ t' c', s'.at? q = some t' ∧ t'.kids[i]? = some c' ∧
      keyBits (BitVec.ofNat 64 (t.cbArg i).len) = keyBits (BitVec.ofNat 64 (t'.cbArg i).len)

theorem widthsAgree_kid (s s' c c' : Schema) (i : Nat) (h : WidthsAgree s s') (hk : s.kids[i]? = some c)
    (hk' : s'.kids[i]? = some c') : WidthsAgree c c' := by
  intro q t j d hq hd
  obtain ⟨t', d', h1, h2, h3⟩ := h (i :: q) t j d (by rw [at?_cons, hk]; exact hq) hd
  rw [at?_cons, hk'] at h1
  exact ⟨t', d', h1, h2, h3⟩

/-- **Appending children without changing a level's bit width leaves the packed keys of all
previously existing nodes unchanged.** -/
theorem append_stable : ∀ (p : List Nat) (s s' t : Schema), WidthsAgree s s' → s.at? p = some t →
    packFields s p = packFields s' p := by
  intro p
  induction p with
  | nil => intro s s' t _ _; rfl
  | cons i p ih =>
    intro s s' t h ht
    rw [at?_cons] at ht
    cases hk : s.kids[i]? with
    | none => simp [hk] at ht
    | some c =>
      simp only [hk] at ht
      obtain ⟨t', c', h1, h2, h3⟩ := h [] s i c rfl hk
      simp only [Schema.at?, Option.some.injEq] at h1
      subst h1
      simp only [packFields, hk, h2, h3]
      congr 1
      exact ih c c' t (widthsAgree_kid s s' c c' i h hk h2) ht

open MiniconfVerif.Gen MiniconfVerif.Gen.Core MiniconfVerif.GenTie in
/-- **The packed key protocol as translated from packed.rs is the model's.**  `encode` / `decode` / `unique` / `order` above
speak about `Schema.transcode` into the target `.packed` and about the key source `KeySrc.packed`.  These are what the source
does: `Keys::next` / `Keys::finalize` for `Packed` **as translated** return the model's index and successor word for every
word and every lookup with at least one child (a `TooShort` leaves the word as it was, a panic exactly where the model marks
one), and the closure handed to `traverse_by_key` by `Transcode for Packed` **as translated** panics / fails / succeeds
exactly as `Target.cbPanics` / `Target.cb` on `.packed w`, leaving the model's word. -/
theorem source_packed_keys_are_model :
    KeysRel Gen.Keys.Packed.next KeySrc.packed ∧ FinRel Gen.Keys.Packed.finalize KeySrc.packed ∧
    (∀ (w : BitVec 64) (a : CbArg), 0 < a.len →
      if (Target.packed w).cbPanics a then ∃ m, Gen.Keys.Packed.callback w a.index a.name a.len = .panic m
      else match Target.cb (.packed w) a with
        | some t => ∃ w', Gen.Keys.Packed.callback w a.index a.name a.len = .val (w', .ok ()) ∧ t = .packed w'
        | none => ∃ w', Gen.Keys.Packed.callback w a.index a.name a.len = .val (w', .error ())) :=
  ⟨packed_next_tie, packed_finalize_tie, packed_callback_tie⟩

/-! ## non-vacuity -/
def ex : Schema := .node (.named ["foo", "bar", "baz"]) [.leaf, .array 3 .leaf, .leaf]
example : packOf ex [1, 2] = some 0x6800000000000000#64 := by decide +kernel
example : ex.meta.maxBits = 4 := by decide +kernel
example : ex.transcode (.packed 0x6800000000000000#64) (.idx [] 2 100) = (.leaf 2, .idx [1, 2] 2 100) := by
  decide +kernel

end MiniconfVerif.C09
