import MiniconfVerif.Lemmas.MqttStep
import MiniconfVerif.Lemmas.GenTieMqtt

/-! # C10 — a settings dump publishes every present leaf exactly once with its current value -/
namespace MiniconfVerif.C10
open MiniconfVerif MiniconfVerif.Mqtt MiniconfVerif.PathIter

variable {σ : Type}

/-- **Dump pump**, for every number of granted publish slots: the leaves consumed so far
are a prefix of the walk; exactly the present ones among them have been published, in
order, once each, on `<prefix>/settings<path>` with the value the settings hold now (or the
"Serialized value too large" Error message); absent leaves are skipped silently; the walk
reports completion only when nothing remains. -/
theorem dump_exactly_once (ops : SettingsOps σ) (pfx : Str) (s : σ) (cd : Option (List Nat)) (k : Nat)
    (rem : List Str) (big : List Bool) (hok : LeafPathsOk ops s rem) :
    ∃ consumed, rem = consumed ++ (dumpPump ops pfx s cd rem k big).1 ∧
      AllPairs (IsDumpOut ops pfx s cd) (consumed.filter (Present ops s)) (dumpPump ops pfx s cd rem k big).2.1 ∧
      ((dumpPump ops pfx s cd rem k big).2.2 = true → (dumpPump ops pfx s cd rem k big).1 = []) :=
  let ⟨consumed, h1, h2, h3, _⟩ := dumpPump_spec ops pfx s cd k rem big hok
  ⟨consumed, h1, h2, h3⟩

/-- with enough slots every present leaf is published and the client accepts multipart
requests again (`Single`) -/
theorem dump_completes (ops : SettingsOps σ) (pfx : Str) (s : σ) (c : Client) (k : Nat) (big : List Bool)
    (hok : LeafPathsOk ops s c.pending.remaining) (hk : c.pending.remaining.length < k) :
    (iterDump ops pfx s c k big).1.st = .single ∧ (iterDump ops pfx s c k big).1.pending.remaining = [] ∧
    AllPairs (IsDumpOut ops pfx s c.pending.cd) (c.pending.remaining.filter (Present ops s)) (iterDump ops pfx s c k big).2 := by
  obtain ⟨h1, h2, h3⟩ := dumpPump_complete ops pfx s c.pending.cd c.pending.remaining k big hok hk
  simp only [iterDump, h1, h2]
  exact ⟨by simp, by simp, h3⟩

/-- the three ways into a dump all root the walk at the requested node with no response
topic: the initial one (`Init`), the API call, and an empty payload without response topic -/
theorem dump_entry_points (ops : SettingsOps σ) (pfx : Str) (c : Client) (s : σ) (o : Obs) (ls : List Str) :
    (c.st = .init → ops.leavesBelow [] = some ls →
      (arm ops pfx c s o).1.pending = { remaining := ls, respTopic := none, cd := none } ∧ (arm ops pfx c s o).1.st = .multipart) ∧
    (∀ path, (c.st = .init ∨ c.st = .single) → ops.leavesBelow (path.getD []) = some ls →
      (apiDump ops c path) = ({ c with st := .multipart, pending := { remaining := ls, respTopic := none, cd := none } }, true)) := by
  constructor
  · intro h hl; simp [arm, h, hl]
  · intro path h hl
    simp only [apiDump, hl]
    rcases h with h | h <;> simp [h]

/-- while a multipart answer is pending the API refuses another dump and leaves it undisturbed -/
theorem api_dump_busy (ops : SettingsOps σ) (c : Client) (path : Option Str) (h1 : c.st ≠ .init) (h2 : c.st ≠ .single) :
    apiDump ops c path = (c, false) := by
  simp only [apiDump]
  split
  · rfl
  · simp [h1, h2]

/-! ## non-vacuity -/
def exOps : SettingsOps Nat :=
  { get := fun _ p => if p = "/b".toList then .err (.absent 1) else .value "7".toList
    set := fun s _ _ => (.ok, s)
    leavesBelow := fun _ => some ["/a".toList, "/b".toList, "/c".toList] }
example : LeafPathsOk exOps 0 ["/a".toList, "/b".toList, "/c".toList] := by
  intro p hp
  simp at hp
  rcases hp with rfl | rfl | rfl <;> simp [exOps] <;> decide
example : (dumpPump exOps "p".toList 0 none ["/a".toList, "/b".toList, "/c".toList] 4 []).2.1.length = 2 := by
  decide +kernel

open MiniconfVerif.Gen MiniconfVerif.Gen.Core MiniconfVerif.Gen.Mqtt MiniconfVerif.GenTie in
/-- **`iter_dump` as translated from miniconf_mqtt/src/lib.rs** (one pass of its `while can_publish { .. }` loop is
`Gen.Mqtt.iter_dump_body`: the next leaf of the walk, the topic `<prefix>/settings<path>`, the publication of its value,
and the three-way classification of the result exactly as the source's `match` sorts it — `Absent` ignored, out of buffer
→ the "Serialized value too large" Error message on the same topic, anything else `unwrap()`ed; `runDumpG` runs the loop
as written, with the environment answering per leaf what the model's `ops.get` / `big` say) **is the model's dump pump**
`dumpPump`, about which `dump_exactly_once` and `dump_completes` speak: for every number of granted slots, remaining
walk, oversize pattern, correlation data — the same leaves consumed, the same messages in the same order, `Complete`
(`Multipart → Single`) exactly when the walk has ended, nothing else sent, no panic while the walk yields leaf paths. -/
theorem source_iter_dump_is_model {E Es X : Type} (env : Env E Es Pend) (ops : SettingsOps σ) (s : σ) (pfx : Str)
    (rt : Option Str) (cd : Option (List Nat)) (k : Nat) (rem : List Str) (big : List Bool) (acts0 : List (Act E Es))
    (log : List String) (ext : X) (hok : LeafPathsOk ops s rem) :
    ∃ cl', runDumpG env ops s pfx k big
        { st := .Multipart, pending := ⟨rem, rt, cd⟩, acts := acts0, log := log, ext := ext } = .val cl' ∧
      cl'.pending = ⟨(dumpPump ops pfx s cd rem k big).1, rt, cd⟩ ∧
      cl'.st = (if (dumpPump ops pfx s cd rem k big).2.2 then SmState.Single else SmState.Multipart) ∧
      cl'.log = log ∧ cl'.ext = ext ∧
      ∃ new, cl'.acts = acts0 ++ new ∧ new.filterMap (outOfDumpAct ops s) = (dumpPump ops pfx s cd rem k big).2.1 :=
  iter_dump_tie env ops s pfx rt cd k rem big acts0 log ext hok

open MiniconfVerif.Gen MiniconfVerif.Gen.Core MiniconfVerif.Gen.Mqtt MiniconfVerif.GenTie in
/-- **`MqttClient::dump(path)` as translated from miniconf_mqtt/src/lib.rs is the model's `apiDump`** (about which
`api_dump_busy` and `dump_entry_points` speak), for every protocol state, pending request and path: an invalid path is
refused (`root()` fails) before the state machine is asked; while a multipart answer is pending, or before the start-up
has finished, the `Multipart` event is refused and the pending request stays as it is; otherwise the pending request
becomes the walk below `path` with no response topic and no correlation data. Nothing is sent; no panic. The same
translation run also checks that `alive()` and `subscribe()` still hand minimq the retained `<prefix>/alive` publication
(QoS 1) and the no-local `<prefix>/settings/#` subscription, as skeletons. -/
theorem source_dump_api_is_model {E Es X : Type} (ops : SettingsOps σ) (env : Env E Es Pending) (c : Client)
    (path : Option Str) (acts : List (Act E Es)) (log : List String) (ext : X) (hroot : (ops.leavesBelow []).isSome) :
    ∃ cl r, Gen.Mqtt.dump env (denvOf ops) { st := stToGen c.st, pending := c.pending, acts := acts, log := log, ext := ext } path
        = .val (cl, r) ∧
      (apiDump ops c path).1.st = stOfGen cl.st ∧ (apiDump ops c path).1.pending = cl.pending ∧
      (apiDump ops c path).2 = r.isOk ∧ cl.acts = acts ∧ cl.log = log ∧ cl.ext = ext :=
  dump_tie ops env c path acts log ext hroot

end MiniconfVerif.C10
