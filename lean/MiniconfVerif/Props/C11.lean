import MiniconfVerif.Lemmas.GenTieLoop
import MiniconfVerif.Lemmas.IterRootGen
import MiniconfVerif.Lemmas.GenTie
import MiniconfVerif.Lemmas.IterRoot
import MiniconfVerif.Lemmas.IterGen
import MiniconfVerif.Lemmas.Factor

/-! # C11 — rooted and depth-limited iteration is exact, finite and fused

Proved here, for every well-formed type: fusedness for every state; `limited_exact` — for *every*
depth limit `D` and *every* target whose callbacks do not panic, polling yields exactly the
leaves of depth ≤ `D` and the internal nodes at depth `D` (`depth_limited_items`), in order,
each once; a node whose key the target cannot hold is reported as `Err(depth)` with the depth of
the refused key, and the iteration still continues with every other node and terminates; `None`
for ever after; the exact-size counter; iteration rooted at any node given by any key
(simulation: the rooted iterator is the subtree's iterator with the root path prefixed and all
depths shifted).  The combination "rooted *and* limited below the subtree's depth / without
capacity" is `rooted_limited_exact` (`poll_lift` composed with `poll_init_G` for the subtree; `root()` analysed for
every state length). -/
namespace MiniconfVerif.C11
open MiniconfVerif

/-- Fused: once the iterator has returned to its root depth every further `next()`
returns `None`, with any fuel, and `None` carries no state change. -/
theorem fused (s : Schema) (D : Nat) (t : Target) (it : IterSt) (h : it.depth = it.root) (fuel : Nat) :
    it.next s D t (fuel + 1) = some .done := by
  simp [IterSt.next, IterSt.step, h]

/-- a freshly created iterator is not exhausted (the `D + 1` marker is never the root depth 0) -/
theorem init_not_done (D : Nat) : (IterSt.init D).depth ≠ (IterSt.init D).root := by
  simp [IterSt.init]

/-- the always-finalizing key wrapper: the iterator's own keys never report `TooLong` -/
theorem state_keys_finalize (st : List Nat) : (stateKeys st).finalize = .ok () := rfl

/-- **Exact and finite from the tree root with `D ≥ max_depth`**: the leaves in order, then
`None` for ever; no call needs more than `D + 2` passes of the loop and no panic site is reached
(`Polled.broken` does not occur). -/
theorem full_depth_exact (s : Schema) (hwf : s.WF) (hsm : s.Small) (D : Nat) (hD : s.maxDepth ≤ D)
    (fresh : Target) (hacc : Accepts s fresh) (n : Nat) :
    (IterSt.init D).poll s D fresh n =
      ((s.leaves.map fun p => Polled.item (leafItem s fresh p)) ++ List.replicate n Polled.finished).take n ∧
    Polled.broken ∉ (IterSt.init D).poll s D fresh n := by
  have h := poll_init s hwf hsm D fresh hacc hD n
  refine ⟨h, ?_⟩
  rw [h]
  intro hm
  have hm' := List.mem_of_mem_take hm
  simp only [List.mem_append, List.mem_map, List.mem_replicate] at hm'
  rcases hm' with ⟨_, _, h1⟩ | ⟨_, h2⟩
  · cases h1
  · cases h2

/-- **Depth-limited iteration and targets without capacity**: for every depth limit `D` and every
target whose callbacks do not panic, polling a fresh iterator `n` times yields, in order, one
item per leaf of the type cut off at depth `D` — the node (leaf, or internal node at depth `D`)
with the transcoded target, or `Err(depth)` where the target refused the key at that depth — and
`None` from then on, for every `n`; no call needs more than `D + 2` loop passes and no panic
site is reached. -/
theorem limited_exact (s : Schema) (hwf : s.WF) (hsm : s.Small) (D : Nat) (fresh : Target) (hnp : NoCbPanic s fresh)
    (n : Nat) :
    (IterSt.init D).poll s D fresh n =
      (((s.trunc D).leaves.map fun P => Polled.item (cutItem s fresh P)) ++ List.replicate n Polled.finished).take n :=
  poll_init_G s hwf hsm D fresh hnp n

/-- which nodes those are: exactly the leaves of depth at most `D` and the internal nodes at depth `D` -/
theorem depth_limited_items (s : Schema) (D : Nat) (P : List Nat) :
    P ∈ (s.trunc D).leaves ↔ ∃ t, s.at? P = some t ∧ P.length ≤ D ∧ (t.isLeaf = true ∨ P.length = D) :=
  mem_trunc_leaves s D P

/-- the hypothesis holds for `()` and for index arrays of *any* capacity (too small ones produce
`Err(depth)` items) -/
theorem targets_do_not_panic (s : Schema) (cap m : Nat) : NoCbPanic s .unit ∧ NoCbPanic s (.idx [] cap m) :=
  ⟨noCbPanic_unit s, noCbPanic_idx s cap m⟩

/-- **Rooted iteration is exact**, for a root given by *any* key source: if `root(keys)` succeeds
it has selected the node at some path `c`; polling then yields exactly the leaves at or below
that node in order — each with its full depth and the target transcoded along the full path —
and `None` for ever after. -/
theorem rooted_exact (s : Schema) (hwf : s.WF) (hsm : s.Small) (D : Nat) (hD : s.maxDepth ≤ D)
    (fresh : Target) (hacc : Accepts s fresh) (ks : KeySrc) (it : IterSt) (hroot : IterSt.withRoot s D ks = .ok it) :
    ∃ c t0, s.at? c = some t0 ∧ it.root = c.length ∧ ∀ n,
      it.poll s D fresh n =
        ((t0.leaves.map fun p => Polled.item (.node (tgtAt s fresh (c ++ p)) (.leaf (p.length + c.length)))) ++
          List.replicate n Polled.finished).take n := by
  have har : ∀ q u, s.at? q = some u → u.arity ≤ (2 ^ 64 - 1) + 1 := fun q u h => by
    have := hsm q u h; omega
  have haccI := accepts_idx s D (2 ^ 64 - 1) hD har
  obtain ⟨c, t0, ks', h1, h2, h3⟩ := transcode_factor s hwf _ haccI ks
  have htg := tgtAt_idx s D (2 ^ 64 - 1) hD har c t0 h1
  rw [htg] at h3
  have hdep := at?_depth c s t0 h1
  -- `root()` succeeded, so the lookup reported a node, and then it is the node at `c`
  have hkind : ∀ d, ((Res.incrN c.length (stopAt t0 ks')).toNode = .leaf d ∨
      (Res.incrN c.length (stopAt t0 ks')).toNode = .internal d) → d = c.length := by
    intro d hd
    have := stop_node_kind t0 ks' c.length h2 d hd
    rw [this] at hd
    cases hl : t0.isLeaf <;> simp [hl] at hd <;> omega
  have hit : it = liftSt c (IterSt.init (D - c.length)) := by
    cases hk : (Res.incrN c.length (stopAt t0 ks')).toNode with
    | err e =>
      unfold IterSt.withRoot at hroot
      rw [h3, hk] at hroot
      cases hroot
    | leaf d =>
      have := withRoot_eq s hwf hsm D hD ks c (.leaf d) ⟨d, Or.inl rfl⟩ (by rw [h3, hk])
        (fun d' hd' => hkind d' (by rw [hk]; exact hd')) (by omega)
      rw [this] at hroot; cases hroot; rfl
    | internal d =>
      have := withRoot_eq s hwf hsm D hD ks c (.internal d) ⟨d, Or.inr rfl⟩ (by rw [h3, hk])
        (fun d' hd' => hkind d' (by rw [hk]; exact hd')) (by omega)
      rw [this] at hroot; cases hroot; rfl
  refine ⟨c, t0, h1, by rw [hit]; simp [liftSt, IterSt.init], ?_⟩
  intro n
  rw [hit]
  exact poll_rooted s hwf hsm D hD fresh hacc c t0 h1 n

/-- **Rooted *and* depth-limited / capacity-limited iteration is exact**, for every state length `D` (also below the
type's depth) and a root given by *any* key source: if `root(keys)` succeeds it selected a node at some path `c`
with `|c| ≤ D`, and for every target that accepted the root path (being `fc` there) and does not panic on the
subtree, polling yields — in order, once each, lifted by the root depth — one item per leaf of the **subtree cut
off at depth `D - |c|`** (its leaves of relative depth at most `D - |c|` and its internal nodes at that depth;
`Err(depth)` where the target refused a key), then `None` for ever. -/
theorem rooted_limited_exact (s : Schema) (hwf : s.WF) (hsm : s.Small) (D : Nat) (ks : KeySrc) (it : IterSt)
    (hroot : IterSt.withRoot s D ks = .ok it) :
    ∃ c t0, s.at? c = some t0 ∧ c.length ≤ D ∧ it.root = c.length ∧
      ∀ (fresh fc : Target), cbAlong Target.cbP s c (fresh, false) = some (fc, false) → NoCbPanic t0 fc → ∀ n,
        it.poll s D fresh n =
          (((t0.trunc (D - c.length)).leaves.map fun P => liftPolled c.length (Polled.item (cutItem t0 fc P))) ++
            List.replicate n Polled.finished).take n := by
  obtain ⟨c, t0, h1, h2, rfl⟩ := withRoot_lift s hwf D ks it hroot
  refine ⟨c, t0, h1, h2, by simp [liftSt, IterSt.init], ?_⟩
  intro fresh fc hc hnp n
  have := poll_rooted_G s hwf hsm c t0 h1 fresh fc hc (D - c.length) hnp n
  rwa [show D - c.length + c.length = D by omega] at this

/-- `ExactSize`: the wrapper's counter, started at `Metadata::count`; it depends on the inner
iterator only through what `next()` returns.  `none` = the overflow-checked `count -= 1`
would underflow, or `debug_assert!(self.count == 0)` on `None` would fail. -/
def exactCounts : List Polled → Nat → List (Option Nat)
  | [], _ => []
  | .item _ :: rest, count => if count = 0 then [none] else some (count - 1) :: exactCounts rest (count - 1)
  | .finished :: rest, count => if count = 0 then some 0 :: exactCounts rest 0 else [none]
  | .broken :: _, _ => [none]

theorem exactCounts_finished (n : Nat) :
    exactCounts (List.replicate n Polled.finished) 0 = List.replicate n (some 0) := by
  induction n with
  | zero => rfl
  | succ n ih => simp [List.replicate_succ, exactCounts, ih]

theorem exactCounts_items (f : List Nat → Polled) (hf : ∀ p, ∃ y, f p = Polled.item y) :
    ∀ (items : List (List Nat)) (n : Nat),
      exactCounts ((items.map f ++ List.replicate n Polled.finished).take n) items.length =
        (List.range n).map fun k => some (items.length - (k + 1)) := by
  intro items
  induction items with
  | nil =>
    intro n
    simp only [List.map_nil, List.nil_append, List.take_replicate, Nat.min_self, exactCounts_finished, List.length_nil,
      Nat.zero_sub]
    induction n with
    | zero => rfl
    | succ n ih => simp [List.replicate_succ', List.range_succ, ih]
  | cons x xs ih =>
    intro n
    cases n with
    | zero => rfl
    | succ m =>
      obtain ⟨y, hy⟩ := hf x
      simp only [List.map_cons, List.cons_append, List.take_succ_cons, hy, exactCounts, List.length_cons]
      rw [take_append_replicate _ _ m (m + 1) (by omega)]
      simp only [Nat.add_one_ne_zero, if_false, Nat.add_sub_cancel, ih m, List.range_succ_eq_map, List.map_cons,
        List.map_map]
      congr 1
      apply List.map_congr_left
      intro k _
      simp only [Function.comp, Nat.succ_eq_add_one]
      congr 1; omega

/-- **The exact-size wrapper's remaining length is right before and after every step**: started
at `Metadata::count`, after the `k`-th call it reports the number of leaves not yet yielded;
it never underflows and is `0` whenever the iterator returns `None`. -/
theorem exact_size_remaining (s : Schema) (hwf : s.WF) (hsm : s.Small) (D : Nat) (hD : s.maxDepth ≤ D)
    (fresh : Target) (hacc : Accepts s fresh) (n : Nat) :
    exactCounts ((IterSt.init D).poll s D fresh n) s.meta.count =
      (List.range n).map fun k => some (s.leaves.length - (k + 1)) := by
  rw [poll_init s hwf hsm D fresh hacc hD n, meta_count s]
  exact exactCounts_items (fun p => Polled.item (leafItem s fresh p)) (fun p => ⟨_, rfl⟩) s.leaves n

/-! ## non-vacuity -/
def ex : Schema := .node (.named ["foo", "bar", "baz"]) [.leaf, .array 3 .leaf, .leaf]
example : (IterSt.init 2).next ex 2 (.idx [] 1 (2^64-1)) 5 =
    some (.yield (.node (.idx [0] 1 (2^64-1)) (.leaf 1)) ⟨[0, 0], 0, 1⟩) := by decide +kernel
-- depth limit 1: the array is reported as an internal node; index capacity 0: every node is `Err(1)`
example : (IterSt.init 1).poll ex 1 .unit 5 =
    [.item (.node .unit (.leaf 1)), .item (.node .unit (.internal 1)), .item (.node .unit (.leaf 1)), .finished, .finished] := by
  decide +kernel
example : (IterSt.init 2).poll ex 2 (.idx [] 1 100) 7 =
    [.item (.node (.idx [0] 1 100) (.leaf 1)), .item (.capErr 2), .item (.capErr 2), .item (.capErr 2),
     .item (.node (.idx [2] 1 100) (.leaf 1)), .finished, .finished] := by decide +kernel
-- rooted at `bar` with one state slot: depth limit 1 relative to the tree root, the array itself is the only item
example : (match IterSt.withRoot ex 1 (.list [.str "bar".toList]) with
    | .ok it => decide (it.poll ex 1 .unit 3 = [.item (.node .unit (.internal 1)), .finished, .finished])
    | .error _ => false) = true := by decide +kernel
example : exactCounts ((IterSt.init 2).poll ex 2 .unit 7) ex.meta.count =
    [some 4, some 3, some 2, some 1, some 0, some 0, some 0] := by decide +kernel


/-! ### Tie to the translated source (`Gen/Core.lean`, regenerated from iter.rs on every run) -/
open MiniconfVerif.Gen MiniconfVerif.Gen.Core MiniconfVerif.GenTie in
/-- One pass through the `loop` of `NodeIter::next` **as translated from iter.rs** is the model's
`IterSt.step` (on which `limited_exact`, `rooted_exact`, `fused`, … are proved), for every type, target,
depth limit and state, given that the two `M::transcode` calls return what the model's transcoding returns
(no panic: `C16.traverse_total`).  `NodeIter::default()` is the model's (`root()`: `source_root_is_model`). -/
theorem source_next_is_model (s : Schema) (D : Nat) (fresh : Target) (it : IterSt)
    (hlen : it.state.length = D)
    (tcN : List Nat → Except Traversal (Target × Node)) (tcU : List Nat → Except Traversal (Unit × Node))
    (hN : ∀ st, tcToGen (s.transcode (stateKeys st) fresh) = some (tcN st))
    (hU : ∀ st, tcUToGen (s.transcode (stateKeys st) .unit) = some (tcU st)) :
    stepOfCtl (NodeIter.next_body D tcN tcU (itToGen it)) = (it.step s D fresh).erase ∧
    NodeIter.default D = itToGen (IterSt.init D) :=
  ⟨next_body_tie s D fresh it hlen tcN tcU hN hU, rfl⟩

open MiniconfVerif.Gen MiniconfVerif.Gen.Core MiniconfVerif.GenTie in
/-- **`NodeIter::root` as translated from iter.rs is the model's `withRoot` on EVERY iterator**, fresh, partially
consumed, exhausted or already rooted elsewhere (`it0` is arbitrary): given that the slice transcoding of the root key
into the cleared state returns what the model's transcoding into `D` index slots returns, `root()` is `withRoot` — so
`rooted_exact` / `rooted_limited_exact` describe iteration after *any* history of `next()` and `root()` calls. (On the
pinned tree before the fix the state was not cleared and re-rooting a used iterator skipped leaves: finding F6.) -/
theorem source_root_is_model (s : Schema) (D : Nat) (ks : KeySrc) (it0 : IterSt)
    (tc : List Nat → List Nat × Except Traversal Node) (h : TcStateRel s D ks tc) :
    match IterSt.withRoot s D ks with
    | .ok it => NodeIter.reroot D tc (itToGen it0) = .ok (itToGen it)
    | .error e => ∃ e', travToGen e = some e' ∧ NodeIter.reroot D tc (itToGen it0) = .error e' :=
  root_tie s D ks it0 tc h

theorem exactCountsM_eq (l : List Polled) (c : Nat) : GenTie.exactCountsM l c = exactCounts l c := by
  induction l generalizing c with
  | nil => rfl
  | cons x xs ih => cases x <;> simp [GenTie.exactCountsM, exactCounts, ih]

open MiniconfVerif.Gen MiniconfVerif.Gen.Core MiniconfVerif.GenTie in
/-- `<ExactSize<T> as Iterator>::next` and `NodeIter::exact_size` **as translated from iter.rs** (debug profile): over
*any* inner iterator, the remaining length the wrapper holds after each call is the model's `exactCounts` of what the
inner iterator returned (it panics exactly where `exactCounts` says `none`: on underflow, or when the inner iterator
ends with a non-zero count); and `exact_size()` on a fresh or rooted iterator panics exactly when the iterator is
rooted below the tree root or `D < max_depth`, starting the counter at `Metadata::count` otherwise. -/
theorem source_exact_size_is_model :
    (∀ {ι τ : Type} (f : τ → IterItem) (nextI : ι → P (ι × Option τ)) (n : Nat) (i : ι) (c : Nat),
      exactRun nextI n ⟨i, c⟩ = exactCounts (innerPolled f nextI n i) c) ∧
    (∀ (s : Schema) (_ : s.WF) (D : Nat) (ks : KeySrc) (it : IterSt), IterSt.withRoot s D ks = .ok it →
      if it.root = 0 ∧ s.meta.maxDepth ≤ D
        then NodeIter.exact_size D (metaToGen s.meta) (itToGen it) = .val ⟨itToGen it, s.meta.count⟩
        else ∃ m, NodeIter.exact_size D (metaToGen s.meta) (itToGen it) = .panic m) ∧
    (∀ (m : Meta) (D : Nat), NodeIter.exact_size D (metaToGen m) (NodeIter.default D) =
      if m.maxDepth ≤ D then .val ⟨NodeIter.default D, m.count⟩ else .panic "NodeIter.exact_size: assert! failed") :=
  ⟨fun f nextI n i c => by rw [exactRun_tie f nextI n i c, exactCountsM_eq],
   fun s hwf D ks it h => exact_size_tie s hwf D ks it h, exact_size_fresh_tie⟩

open MiniconfVerif.Gen MiniconfVerif.Gen.Core MiniconfVerif.GenTie in
/-- **The translated iterator run as written is the model's iterator**: the `loop` of `NodeIter::next` iterated until it
returns (`runLoop`) is `IterSt.next` for every fuel; `n` calls of it are `IterSt.poll`; the translated `ExactSize` around
it holds the model's `exactCounts` — for every type, target, depth limit and iterator state with `D` slots, given that the
two `M::transcode` calls return what the model's transcoding returns. -/
theorem source_iteration_is_model (s : Schema) (D : Nat) (fresh : Target)
    (tcN : List Nat → Except Traversal (Target × Node)) (tcU : List Nat → Except Traversal (Unit × Node))
    (hN : ∀ st, tcToGen (s.transcode (stateKeys st) fresh) = some (tcN st))
    (hU : ∀ st, tcUToGen (s.transcode (stateKeys st) .unit) = some (tcU st)) :
    (∀ (fuel : Nat) (it : IterSt), it.state.length = D →
      (runLoop (NodeIter.next_body D tcN tcU) fuel (itToGen it)).map iterStepOfP =
        (it.next s D fresh fuel).map IterStep.erase) ∧
    (∀ (n : Nat) (it : IterSt), it.state.length = D →
      innerPolled itemOf (nextG D tcN tcU) n (itToGen it) = it.poll s D fresh n) ∧
    (∀ (n : Nat) (it : IterSt), it.state.length = D → ∀ c : Nat,
      exactRun (nextG D tcN tcU) n ⟨itToGen it, c⟩ = exactCounts (it.poll s D fresh n) c) :=
  ⟨next_tie s D fresh tcN tcU hN hU, poll_tie s D fresh tcN tcU hN hU,
   fun n it hlen c => by rw [exact_over_next_tie s D fresh tcN tcU hN hU n it hlen c, exactCountsM_eq]⟩

open MiniconfVerif.Gen MiniconfVerif.Gen.Core MiniconfVerif.GenTie in
/-- End to end for the translated code: polling `NodeIter::default()` **as translated** `n` times, on a well-formed type
with `D ≥ max_depth` and an accepting target, returns exactly the first `n` leaves in order and `None` from then on, and
the translated `ExactSize` started at `Metadata::count` reports the number of leaves not yet yielded after every call. -/
theorem source_nodes_enumerate_leaves (s : Schema) (hwf : s.WF) (hsm : s.Small) (D : Nat) (hD : s.maxDepth ≤ D)
    (fresh : Target) (hacc : Accepts s fresh)
    (tcN : List Nat → Except Traversal (Target × Node)) (tcU : List Nat → Except Traversal (Unit × Node))
    (hN : ∀ st, tcToGen (s.transcode (stateKeys st) fresh) = some (tcN st))
    (hU : ∀ st, tcUToGen (s.transcode (stateKeys st) .unit) = some (tcU st)) (n : Nat) :
    innerPolled itemOf (nextG D tcN tcU) n (NodeIter.default D) =
      ((s.leaves.map fun p => Polled.item (leafItem s fresh p)) ++ List.replicate n Polled.finished).take n ∧
    exactRun (nextG D tcN tcU) n ⟨NodeIter.default D, s.meta.count⟩ =
      (List.range n).map fun k => some (s.leaves.length - (k + 1)) := by
  have hlen : (IterSt.init D).state.length = D := by simp [IterSt.init]
  have h := source_iteration_is_model s D fresh tcN tcU hN hU
  refine ⟨?_, ?_⟩
  · have := h.2.1 n (IterSt.init D) hlen
    rw [show itToGen (IterSt.init D) = NodeIter.default D from rfl] at this
    rw [this]
    exact (full_depth_exact s hwf hsm D hD fresh hacc n).1
  · have := h.2.2 n (IterSt.init D) hlen s.meta.count
    rw [show itToGen (IterSt.init D) = NodeIter.default D from rfl] at this
    rw [this]
    exact exact_size_remaining s hwf hsm D hD fresh hacc n

end MiniconfVerif.C11
