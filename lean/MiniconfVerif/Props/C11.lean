import MiniconfVerif.Model.Iter

/-! # C11 — rooted and depth-limited iteration is exact, finite and fused
(first instalment: fusedness and the shape of each step; the enumeration theorem
`rooted_limited` is being added, see DESIGN.md §7 C11) -/
namespace MiniconfVerif.C11
open MiniconfVerif

/-- Fused: once the iterator has returned to its root depth every further `next()`
returns `None`, with any fuel, and `None` carries no state change. -/
theorem fused (s : Schema) (D : Nat) (t : Target) (it : IterSt) (h : it.depth = it.root) (fuel : Nat) :
    it.next s D t (fuel + 1) = some .done := by
  simp [IterSt.next, IterSt.step, h]

/-- a freshly created iterator is not exhausted (the `D + 1` marker is never the root depth 0) -/
theorem init_not_done (D : Nat) : (IterSt.init D).depth ≠ (IterSt.init D).root := by
  simp [IterSt.init]

/-- the always-finalizing key wrapper: the iterator's own keys never report `TooLong` -/
theorem state_keys_finalize (st : List Nat) : (stateKeys st).finalize = .ok () := rfl

/-! ## non-vacuity -/
def ex : Schema := .node (.named ["foo", "bar", "baz"]) [.leaf, .array 3 .leaf, .leaf]
example : (IterSt.init 2).next ex 2 (.idx [] 1 (2^64-1)) 5 =
    some (.yield (.node (.idx [0] 1 (2^64-1)) (.leaf 1)) ⟨[0, 0], 0, 1⟩) := by decide +kernel

end MiniconfVerif.C11
