import MiniconfVerif.Lemmas.Walk

/-! # C12 — accessor, validator and deny attributes are invoked in the documented protocol
(field-level protocol as equations of the walk + the global "validators only on
deserializing writes" theorem; the path-level ordering theorem is being added) -/
namespace MiniconfVerif.C12
open MiniconfVerif

/-- Validators run only on deserializing writes: for every tree, key source and codec the
call log of serialize / ref_any / mut_any contains no validator call. -/
theorem validators_only_on_de (io : Io) (op : Op) (h : op ≠ .de) (t : Tree) (ks : KeySrc) :
    ∀ e ∈ (t.walk io op ks).log, e.isValidate = false :=
  walk_no_validate io op h t ks

/-- a deny attribute stops the walk at its field: `Access(0, msg)` (depth added by the
node), no accessor, no leaf access, no validator, tree unchanged -/
theorem deny_stops (io : Io) (op : Op) (a : Attrs) (t : Tree) (rest : List (Attrs × Tree)) (ks : KeySrc)
    (msg : String) (h : a.deny op = some msg) :
    Tree.walk.goFld io op ((a, t) :: rest) 0 ks =
      ({ res := .trav (.access 0 msg), tree := t }, (a, t) :: rest) := by
  simp [Tree.walk.goFld, h]

/-- a failing custom accessor is called exactly once, stops the walk there (no deeper
accessor, no leaf access, no validator) and is reported as `Access(0, msg)` -/
theorem getter_error_stops (io : Io) (op : Op) (a : Attrs) (t : Tree) (rest : List (Attrs × Tree)) (ks : KeySrc)
    (ev : Ev) (msg : String) (hd : a.deny op = none) (h : a.getter op = some (ev, some msg)) :
    Tree.walk.goFld io op ((a, t) :: rest) 0 ks =
      ({ res := .trav (.access 0 msg), tree := t, log := [ev] }, (a, t) :: rest) := by
  simp [Tree.walk.goFld, hd, h]

/-- reads use `get`, writes use `get_mut` -/
theorem getter_by_mutability (a : Attrs) :
    a.getter .ser = a.get.map (fun r => (Ev.get a.id, r)) ∧ a.getter .refAny = a.get.map (fun r => (Ev.get a.id, r)) ∧
    a.getter .de = a.getMut.map (fun r => (Ev.getMut a.id, r)) ∧
    a.getter .mutAny = a.getMut.map (fun r => (Ev.getMut a.id, r)) := ⟨rfl, rfl, rfl, rfl⟩

/-- the validator runs after the child succeeded, receives the depth returned from below,
and may keep it, replace it, or reject (`Invalid(0, msg)`); it does not run on an error -/
theorem validator_protocol (a : Attrs) (o : Out) :
    (∀ d v, o.res = .ok d → a.validate = some v →
      (applyValidator a .de o).log = o.log ++ [Ev.validate a.id d] ∧
      (applyValidator a .de o).res = (match v with
        | .keep => .ok d | .replace k => .ok k | .err msg => .trav (.invalid 0 msg))) ∧
    (o.res.isOk = false → applyValidator a .de o = o) := by
  constructor
  · intro d v hr hv
    unfold applyValidator
    rw [hr, hv]
    cases v <;> simp
  · intro h
    unfold applyValidator
    cases hr : o.res <;> simp_all [Res.isOk]

end MiniconfVerif.C12
