import MiniconfVerif.Lemmas.WalkLog
import MiniconfVerif.Lemmas.GenTieDeriveArms

/-! # C12 — accessor, validator and deny attributes are invoked in the documented protocol

Model: `Tree.walk` with its call log (`Ev.get`, `Ev.getMut`, `Ev.validate id depth`), see
Model/Tree.lean.  Field-level protocol as equations of the walk; `call_order` and
`validators_only_after_success` are the path-level statements for every tree. -/
namespace MiniconfVerif.C12
open MiniconfVerif

/-- Validators run only on deserializing writes: for every tree, key source and codec the
call log of serialize / ref_any / mut_any contains no validator call. -/
theorem validators_only_on_de (io : Io) (op : Op) (h : op ≠ .de) (t : Tree) (ks : KeySrc) :
    ∀ e ∈ (t.walk io op ks).log, e.isValidate = false :=
  walk_no_validate io op h t ks

/-- **Call order along the whole path**, for every tree, runtime state, operation, key and
codec: the call log is a block of accessor calls (made top-down on the way to the leaf)
followed by a block of validator calls (made bottom-up on the way back); no accessor is ever
called after a validator. -/
theorem call_order (io : Io) (op : Op) (t : Tree) (ks : KeySrc) :
    ∃ g v, (t.walk io op ks).log = g ++ v ∧ (∀ e ∈ g, e.isValidate = false) ∧ (∀ e ∈ v, e.isValidate = true) := by
  obtain ⟨g, v, h1, h2, h3, _⟩ := walk_logShape io op t ks
  exact ⟨g, v, h1, h2, h3⟩

/-- **Validators run only after the leaf was updated**: if the access ends in anything but
`Ok` or a validator rejection — a traversal error, a deny attribute, a failing accessor, a
(de)serialization error — no validator was called at all. -/
theorem validators_only_after_success (io : Io) (op : Op) (t : Tree) (ks : KeySrc)
    (h : (t.walk io op ks).res.okOrInvalid = false) : ∀ e ∈ (t.walk io op ks).log, e.isValidate = false := by
  obtain ⟨g, v, h1, h2, h3, h4⟩ := walk_logShape io op t ks
  have hv : v = [] := by
    cases v with
    | nil => rfl
    | cons x xs => have := h4 (by simp); rw [h] at this; cases this
  rw [h1, hv, List.append_nil]
  exact h2

/-- a deny attribute stops the walk at its field: `Access(0, msg)` (depth added by the
node), no accessor, no leaf access, no validator, tree unchanged -/
theorem deny_stops (io : Io) (op : Op) (a : Attrs) (t : Tree) (rest : List (Attrs × Tree)) (ks : KeySrc)
    (msg : String) (h : a.deny op = some msg) :
    Tree.walk.goFld io op ((a, t) :: rest) 0 ks =
      ({ res := .trav (.access 0 msg), tree := t }, (a, t) :: rest) := by
  simp [Tree.walk.goFld, h]

/-- a failing custom accessor is called exactly once, stops the walk there (no deeper
accessor, no leaf access, no validator) and is reported as `Access(0, msg)` -/
theorem getter_error_stops (io : Io) (op : Op) (a : Attrs) (t : Tree) (rest : List (Attrs × Tree)) (ks : KeySrc)
    (ev : Ev) (msg : String) (hd : a.deny op = none) (h : a.getter op = some (ev, some msg)) :
    Tree.walk.goFld io op ((a, t) :: rest) 0 ks =
      ({ res := .trav (.access 0 msg), tree := t, log := [ev] }, (a, t) :: rest) := by
  simp [Tree.walk.goFld, hd, h]

/-- reads use `get`, writes use `get_mut` -/
theorem getter_by_mutability (a : Attrs) :
    a.getter .ser = a.get.map (fun r => (Ev.get a.id, r)) ∧ a.getter .refAny = a.get.map (fun r => (Ev.get a.id, r)) ∧
    a.getter .de = a.getMut.map (fun r => (Ev.getMut a.id, r)) ∧
    a.getter .mutAny = a.getMut.map (fun r => (Ev.getMut a.id, r)) := ⟨rfl, rfl, rfl, rfl⟩

/-- the validator runs after the child succeeded, receives the depth returned from below,
and may keep it, replace it, or reject (`Invalid(0, msg)`); it does not run on an error -/
theorem validator_protocol (a : Attrs) (o : Out) :
    (∀ d v, o.res = .ok d → a.validate = some v →
      (applyValidator a .de o).log = o.log ++ [Ev.validate a.id d] ∧
      (applyValidator a .de o).res = (match v with
        | .keep => .ok d | .replace k => .ok k | .err msg => .trav (.invalid 0 msg))) ∧
    (o.res.isOk = false → applyValidator a .de o = o) := by
  constructor
  · intro d v hr hv
    unfold applyValidator
    rw [hr, hv]
    cases v <;> simp
  · intro h
    unfold applyValidator
    cases hr : o.res <;> simp_all [Res.isOk]

open MiniconfVerif.Gen MiniconfVerif.GenTie.Arm in
/-- **The arms the derive generates are the model's field step.**  The protocol theorems above are equations of
`Tree.walk.goFld`, the model's step into one field.  (1) For every attribute set, operation, subtree, key source and codec,
the arm the derive generates for such a field — `Arm.shapeOf`: `Err(Access(0, msg))` under a deny attribute of the
operation; otherwise `G.and_then(child)` with `G` the plain place or the operation's custom accessor
`.map_err(Access(0, ·))`, followed by `.and_then(|depth| validate(depth).map_err(Invalid(0, ·)))` in `deserialize_by_key`
only — evaluated with the semantics of `Result::and_then` / `Result::map_err` (`Arm.run`), returns the result of `goFld` at
that field and invokes exactly the same user callbacks in the same order.  (2) For **every derived type of the corpus**
(`DeriveArmTies`, regenerated on every run) the arms actually present in the derive's output
(`Gen/DeriveArms.lean`, read from the expansion produced by the macro crate's current source) are `shapeOf` of the
declared attributes of the retained fields / variants, in declaration order, in all four by-key functions, with the
default arm of the declared kind (`unreachable!()` / `Absent(0)`). -/
theorem source_derive_arms_are_model :
    (∀ (io : Io) (op : Op) (a : Attrs) (t : Tree) (rest : List (Attrs × Tree)) (ks : KeySrc),
      let r := run (shapeOf a op) (rtOf a op) (childOf (t.walk io op ks))
      toRes r.1 = (Tree.walk.goFld io op ((a, t) :: rest) 0 ks).1.res ∧
        r.2 = (Tree.walk.goFld io op ((a, t) :: rest) 0 ks).1.log) ∧
    DeriveArmTies :=
  ⟨arm_is_goFld, deriveArmTies⟩

-- non-vacuity: an accessor + validator arm on a successful write logs the accessor, then the child's calls, then the
-- validator with the child's depth, and returns the validator's replacement depth; a failing accessor stops everything
open MiniconfVerif.Gen MiniconfVerif.GenTie.Arm in
example : run (.access (some 7) (some 7))
    { acc := (.getMut 7, none), val := fun d => (.validate 7 d, .replace 5) } (.ok 2, [.getMut 9]) =
    (.ok 5, [.getMut 7, .getMut 9, .validate 7 2]) := rfl
open MiniconfVerif.Gen MiniconfVerif.GenTie.Arm in
example : run (.access (some 7) (some 7))
    { acc := (.getMut 7, some "locked"), val := fun d => (.validate 7 d, .keep) } (.ok 2, [.getMut 9]) =
    (.error (.trav (.access 0 "locked")), [.getMut 7]) := rfl

end MiniconfVerif.C12
