import MiniconfVerif.Lemmas.GenTieMqtt
import MiniconfVerif.Lemmas.GenTieMqttCompose
import MiniconfVerif.Lemmas.MqttEpoch
import MiniconfVerif.Gen.Consts

/-! # C13 — after every (re)connection: alive, subscribe, wait, then one full dump

Model: `Model/Mqtt.lean` (`arm` = the `match self.state.state()` of `update()`, `pollStep`,
`handleMsg`).  All statements are for every settings type (`SettingsOps σ` abstract), every
sequence of environment observations (connection state, clock, publish slots, inbound
messages, session resets). -/
namespace MiniconfVerif.C13
open MiniconfVerif MiniconfVerif.Mqtt MiniconfVerif.PathIter

variable {σ : Type}

/-- run with ghost epoch bookkeeping -/
def runG (ops : SettingsOps σ) (pfx : Str) : Client → σ → Ghost → List Obs → Client × Ghost
  | c, _, g, [] => (c, g)
  | c, s, g, o :: os =>
    let r := step ops pfx c s o
    runG ops pfx r.1 r.2.1 (ghostStep g o (arm ops pfx (if o.connected then c else c.reset) s o).2) os

/-- time never runs backwards along the observation sequence -/
def Monotone : Nat → List Obs → Prop
  | _, [] => True
  | t, o :: os => t ≤ o.now ∧ Monotone o.now os

/-- **Epoch invariant**, for every history: the protocol state always reflects what the
current connection epoch has seen — nothing before `Subscribe`, the alive message from
`Subscribe` on, alive and subscription from `Wait` on with the timeout set to
subscription time + 2 s, and from `Init` on at least the dump timeout has elapsed since
the subscription was sent. -/
theorem epoch_invariant (ops : SettingsOps σ) (pfx : Str) (os : List Obs) :
    ∀ (c : Client) (s : σ) (g : Ghost), Inv c g → Monotone g.now os →
      Inv (runG ops pfx c s g os).1 (runG ops pfx c s g os).2 := by
  induction os with
  | nil => intro c s g h _; exact h
  | cons o os ih =>
    intro c s g h hm
    simp only [runG]
    apply ih
    · exact inv_step ops pfx c s o g h hm.1
    · have : (ghostStep g o (arm ops pfx (if o.connected then c else c.reset) s o).2).now = o.now := by
        simp only [ghostStep]; split <;> simp [Ghost.fresh]
      rw [this]; exact hm.2

/-- In this order: the alive message is sent only as the first thing of an epoch (none sent
yet), the subscription only after the alive message and only once, and list/dump items only
after both and not earlier than the dump timeout after the subscription. -/
theorem epoch_order (ops : SettingsOps σ) (pfx : Str) (c : Client) (s : σ) (o : Obs) (g : Ghost)
    (hI : Inv c g) (ht : g.now ≤ o.now) (hc : o.connected = true) :
    (Out.alive ∈ (arm ops pfx c s o).2 → g.aliveSent = false ∧ g.subSent = false) ∧
    (Out.sub ∈ (arm ops pfx c s o).2 → g.aliveSent = true ∧ g.subSent = false) ∧
    (∀ t b code cd, Out.pub t b code cd ∈ (arm ops pfx c s o).2 →
      g.aliveSent = true ∧ g.subSent = true ∧ g.subTime + DUMP_TIMEOUT_MS ≤ o.now) := by
  refine ⟨fun h => ?_, fun h => ?_, fun t b code cd h => ?_⟩
  · have := (arm_alive ops pfx c s o h).1
    simpa [Mqtt.Inv, this] using hI
  · have := (arm_sub ops pfx c s o h).1
    simpa [Mqtt.Inv, this] using hI
  · have := arm_pub ops pfx c s o t b code cd h
    simp only [Mqtt.Inv, this] at hI
    exact ⟨hI.1, hI.2.1, by omega⟩

/-- Loss of the connection, or of the broker session, at any point restarts the sequence:
the next state is `Connect` and the epoch record is cleared. -/
theorem loss_restarts (ops : SettingsOps σ) (pfx : Str) (c : Client) (s : σ) (o : Obs) (g : Ghost) :
    (o.connected = false → o.poll = .idle → (step ops pfx c s o).1.st = .connect) ∧
    (o.poll = .sessionReset → (step ops pfx c s o).1.st = .connect ∧
      (ghostStep g o (arm ops pfx (if o.connected then c else c.reset) s o).2) = Ghost.fresh o.now) := by
  constructor
  · intro hc hp
    simp [step, hc, hp, pollStep, arm, Client.reset]
  · intro hp
    simp [step, hp, pollStep, Client.reset, ghostStep]

/-- the state machine only moves along its transition table -/
theorem transitions (ops : SettingsOps σ) (pfx : Str) (c : Client) (s : σ) (o : Obs) :
    (arm ops pfx c s o).1.st = c.st ∨ Next c.st (arm ops pfx c s o).1.st = true :=
  arm_next ops pfx c s o

/-- state names of `sm::States` -/
def stOfName : String → Option St
  | "Connect" => some .connect | "Alive" => some .alive | "Subscribe" => some .subscribe | "Wait" => some .wait
  | "Init" => some .init | "Multipart" => some .multipart | "Single" => some .single | _ => none

/-- both names are states and the model has that transition -/
def rowIsNext (a b : String) : Bool :=
  match stOfName a, stOfName b with
  | some a, some b => Next a b
  | _, _ => false

def allSt : List St := [.connect, .alive, .subscribe, .wait, .init, .multipart, .single]

/-- **The model's transition table is the source's** (`statemachine!{…}` of lib.rs, parsed
into `Gen/Consts.lean` on every run): every row `A + ev = B` of the source is a `Next A B`
of the model, `_ + Reset = Connect` is the only wildcard row, every `Next` pair of the model
is a row of the source, the only guard is `timed_out` on `Wait + Tick` and the only action
`start_timeout` on `Subscribe + Subscribe`; the dump timeout is the source's 2 s. -/
theorem transition_table_matches :
    (∀ row ∈ Gen.Consts.rust_transitions, row.1 ≠ "_" →
      rowIsNext row.1 row.2.2.2.2 = true) ∧
    (∀ row ∈ Gen.Consts.rust_transitions, row.1 = "_" → row.2.1 = "Reset" ∧ row.2.2.2.2 = "Connect") ∧
    (∀ a ∈ allSt, ∀ b ∈ allSt, Next a b = true →
      (Gen.Consts.rust_transitions.any fun row => stOfName row.1 == some a && stOfName row.2.2.2.2 == some b) = true) ∧
    (∀ row ∈ Gen.Consts.rust_transitions, (row.2.2.1 ≠ "" ↔ (row.1 = "Wait" ∧ row.2.1 = "Tick" ∧ row.2.2.1 = "timed_out")) ∧
      (row.2.2.2.1 ≠ "" ↔ (row.1 = "Subscribe" ∧ row.2.2.2.1 = "start_timeout"))) ∧
    (∀ a : St, a ∈ allSt) ∧
    DUMP_TIMEOUT_MS = 1000 * Gen.Consts.rust_DUMP_TIMEOUT_SECONDS := by
  refine ⟨by decide +kernel, by decide +kernel, by decide +kernel, by decide +kernel, ?_, by decide +kernel⟩
  intro a; cases a <;> decide

/-! ## non-vacuity: a concrete history reaching the dump -/
def exOps : SettingsOps Nat :=
  { get := fun _ p => if p = "/foo".toList then .value "1".toList else .internal
    set := fun s _ _ => (.ok, s)
    leavesBelow := fun _ => some ["/foo".toList] }
def exObs (now : Nat) : Obs := { connected := true, now := now, aliveOk := true, subOk := true, slots := 1, tooLarge := [], poll := .idle }
example : Inv Client.init (Ghost.fresh 0) := inv_init 0
example : Monotone 0 [exObs 0, exObs 0, exObs 0, exObs 2000, exObs 2000, exObs 2000] := by simp [Monotone, exObs]
example : ((Mqtt.run exOps "p".toList Client.init 0
    [exObs 0, exObs 0, exObs 0, exObs 2000, exObs 2000, exObs 2000]).2.2.map (·.1)) =
    [[], [.alive], [.sub], [], [], [.pub "p/settings/foo".toList (.text "1".toList) .ok none]] := by
  decide +kernel

open MiniconfVerif.Gen MiniconfVerif.Gen.Core MiniconfVerif.Gen.Mqtt MiniconfVerif.GenTie MiniconfVerif.Mqtt in
/-- **`MqttClient::update` as translated from miniconf_mqtt/src/lib.rs** (`Gen/Mqtt.lean`: `Reset` when the link is down,
the `match self.state.state()` with the transition table of the `statemachine!` invocation, then `poll()`; the link, the
two start-up publications and the client's sub-procedures `dump(None)` / `iter_list` / `iter_dump` / `poll` are the
environment `UEnv`) **is the model's `step`** — on which the start-up sequence theorems of this file are proved — when the
sub-procedures are the model's: it never panics by itself (every `process_event(..).unwrap()` has its transition), takes
the same protocol state, pending request and settings, puts the same messages on the wire in the same order, arms the dump
time-out exactly when the `start_timeout` action runs (`Subscribe → Wait`), leaves `Wait` exactly when the guard
`timed_out` holds, and reports `poll`'s result as "settings changed". -/
theorem source_update_is_model {σ : Type} (ops : SettingsOps σ) (pfx : Str) (c : Client) (s : σ) (o : Obs) :
    ∃ cl r, update ({ pubGet := .ok (), mpTry := .error "", mpRoot := fun _ => none, setRes := .ok 0,
                      guard := guardOf c.timeout o.now } : Env Unit Unit Pending)
        (uenvOf ops pfx c.timeout o)
        ({ st := stToGen c.st, pending := c.pending, ext := (s, []) } : UCl σ) = .val (cl, r) ∧
      let m := step ops pfx c s o
      m.1.st = stOfGen cl.st ∧ m.1.pending = cl.pending ∧ m.1.timeout = tmoOf c.timeout o.now cl.log ∧
      m.2.1 = cl.ext.1 ∧ m.2.2.1 = cl.ext.2 ∧ boolOfRet m.2.2.2 = r :=
  update_tie ops pfx c s o

open MiniconfVerif.Gen MiniconfVerif.Gen.Core MiniconfVerif.Gen.Mqtt MiniconfVerif.GenTie MiniconfVerif.PathIter in
/-- **One `update()` call with every sub-procedure in its translated form**: `source_update_is_model` takes `dump(None)`,
`iter_list` and `iter_dump` as the *model's* functions (an environment of the dispatch); here they are the translations —
`Gen.Mqtt.dump` with `None`, and the loops `Gen.Mqtt.iter_list_body` / `iter_dump_body` run as written (`runListG`,
`runDumpG`) on the client part, their publications appended to the wire log — and the whole call still equals the model's
`step` on which this property's theorems (`epoch_invariant`, `epoch_order`, `loss_restarts`, `transitions`) are proved:
same protocol state, pending request, dump time-out, settings, wire output in order, and result. Hypotheses: the tree has
leaves below its root (`Multipart::default()`), and a pending dump walks leaf paths of the type (what `NodeIter` yields).
What stays an environment: `poll()` around the translated closure (minimq), `alive()` / `subscribe()` (skeleton-checked). -/
theorem source_update_composed_is_model {σ : Type} (ops : SettingsOps σ) (pfx : Str) (c : Client) (s : σ) (o : Obs)
    (env : Env Unit Unit Pend) (envD : Env Unit Unit Pending)
    (hroot : (ops.leavesBelow []).isSome)
    (hok : c.st = .multipart → c.pending.respTopic = none → LeafPathsOk ops s c.pending.remaining) :
    ∃ cl r, update ({ pubGet := .ok (), mpTry := .error "", mpRoot := fun _ => none, setRes := .ok 0,
                      guard := guardOf c.timeout o.now } : Env Unit Unit Pending)
        (uenvG ops pfx c.timeout o env envD)
        ({ st := stToGen c.st, pending := c.pending, ext := (s, []) } : UCl σ) = .val (cl, r) ∧
      let m := step ops pfx c s o
      m.1.st = stOfGen cl.st ∧ m.1.pending = cl.pending ∧ m.1.timeout = tmoOf c.timeout o.now cl.log ∧
      m.2.1 = cl.ext.1 ∧ m.2.2.1 = cl.ext.2 ∧ boolOfRet m.2.2.2 = r :=
  update_composed_tie ops pfx c s o env envD hroot hok

end MiniconfVerif.C13
