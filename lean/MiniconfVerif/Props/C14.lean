import MiniconfVerif.Lemmas.MqttStep

/-! # C14 — settings change only via accepted Set requests; no message crashes the client -/
namespace MiniconfVerif.C14
open MiniconfVerif MiniconfVerif.Mqtt MiniconfVerif.PathIter

variable {σ : Type}

/-- The settings value is modified only by a message with non-empty payload on a
`<prefix>/settings<path>` topic, and then exactly as the tree's JSON write does. -/
theorem change_only_by_set (ops : SettingsOps σ) (pfx : Str) (c : Client) (s : σ) (o : Obs) :
    (step ops pfx c s o).2.1 = s ∨
    (∃ m cp fits path, o.poll = .msg m cp fits ∧ topicPath pfx m.topic = some path ∧ m.payload ≠ [] ∧
      (step ops pfx c s o).2.1 = (ops.set s path m.payload).2) := by
  simp only [step]
  cases hp : o.poll with
  | idle => left; rfl
  | sessionReset => left; rfl
  | error => left; rfl
  | msg m cp fits =>
    simp only [pollStep]
    rcases handleMsg_settings ops pfx (arm ops pfx (if o.connected then c else c.reset) s o).1 s m cp fits with h | ⟨path, h1, h2, h3⟩
    · left; exact h
    · right; exact ⟨m, cp, fits, path, rfl, h1, h2, h3⟩

/-- `update()` returns `true` exactly for the calls in which such a write was applied
successfully (a write rejected by a validator or for trailing data returns `false`
although the leaf was already updated). -/
theorem changed_flag (ops : SettingsOps σ) (pfx : Str) (c : Client) (s : σ) (o : Obs) :
    (step ops pfx c s o).2.2.2 = .changed ↔
    (∃ m cp fits path, o.poll = .msg m cp fits ∧ topicPath pfx m.topic = some path ∧ m.payload ≠ [] ∧
      (ops.set s path m.payload).1 = .ok) := by
  simp only [step]
  cases hp : o.poll with
  | idle => simp [pollStep]
  | sessionReset => simp [pollStep]
  | error => simp [pollStep]
  | msg m cp fits =>
    simp only [pollStep]
    rw [handleMsg_changed]
    constructor
    · rintro ⟨path, h1, h2, h3⟩; exact ⟨m, cp, fits, path, rfl, h1, h2, h3⟩
    · rintro ⟨m', cp', fits', path, he, h1, h2, h3⟩
      cases he
      exact ⟨path, h1, h2, h3⟩

/-- Response topics / correlation data longer than the client can cache: a list or dump
request is refused with an `Error` response and the client state is untouched. -/
theorem long_props_refused (ops : SettingsOps σ) (pfx : Str) (c : Client) (s : σ) (m : Req) (cp fits : Bool)
    (path : Str) (hp : topicPath pfx m.topic = some path) (he : m.payload.isEmpty = true) (hcp : cp = true)
    (hg : ops.get s path = .internal) (hs : c.st = .single) (hl : rtTooLong m = true ∨ cdTooLong m = true) :
    (handleMsg ops pfx c s m cp fits).1 = c ∧ (handleMsg ops pfx c s m cp fits).2.1 = s ∧
    (handleMsg ops pfx c s m cp fits).2.2.2 = .unchanged ∧
    (∀ o ∈ (handleMsg ops pfx c s m cp fits).2.2.1, ∃ rt b, o = .pub rt b .error m.cd) := by
  subst hcp
  simp only [handleMsg, hp, he, hg, hs]
  rcases hl with h | h
  · simp only [h]
    refine ⟨rfl, rfl, rfl, ?_⟩
    intro o ho
    cases hrt : m.respTopic <;> simp [respond, hrt] at ho
    exact ⟨_, _, ho⟩
  · cases h1 : rtTooLong m
    · simp only [h]
      refine ⟨rfl, rfl, rfl, ?_⟩
      intro o ho
      cases hrt : m.respTopic <;> simp [respond, hrt] at ho
      exact ⟨_, _, ho⟩
    · refine ⟨rfl, rfl, rfl, ?_⟩
      intro o ho
      cases hrt : m.respTopic <;> simp [respond, hrt] at ho
      exact ⟨_, _, ho⟩

theorem handleMsg_no_panic (ops : SettingsOps σ) (pfx : Str) (c : Client) (s : σ) (m : Req) (cp fits : Bool)
    (hcoh : ∀ s p, ops.get s p = .internal → (ops.leavesBelow p).isSome = true) :
    (handleMsg ops pfx c s m cp fits).2.2.2 ≠ .panic := by
  unfold handleMsg
  split
  · simp
  · next path _ =>
    split
    · split
      · simp
      · cases hg : ops.get s path with
        | value txt => simp only []; split <;> simp
        | err t => simp
        | internal =>
          simp only []
          split
          · split
            · simp
            · split
              · simp
              · have := hcoh s path hg
                cases hl : ops.leavesBelow path with
                | none => simp [hl] at this
                | some ls => simp
          · simp
    · split <;> simp

/-- No `unwrap()` of the handler is reachable (the model's `panic` result) as long as the
settings type is coherent: a path that `get` reports as an internal node can be used as the
root of an iteration (which is what `TooShort` means). -/
theorem no_panic (ops : SettingsOps σ) (pfx : Str) (c : Client) (s : σ) (o : Obs)
    (hcoh : ∀ s p, ops.get s p = .internal → (ops.leavesBelow p).isSome = true) :
    (step ops pfx c s o).2.2.2 ≠ .panic := by
  simp only [step]
  cases hp : o.poll with
  | idle => simp [pollStep]
  | sessionReset => simp [pollStep]
  | error => simp [pollStep]
  | msg m cp fits =>
    simp only [pollStep]
    exact handleMsg_no_panic ops pfx _ s m cp fits hcoh

end MiniconfVerif.C14
