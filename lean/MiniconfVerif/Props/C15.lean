import MiniconfVerif.Lemmas.GenTieText
import MiniconfVerif.Lemmas.JsonPath

/-! # C15 — path and JSON-path strings split into keys exactly as documented

Model: `Model/PathIter.lean` (hand-written mirror of `node.rs:205-238` and
`jsonpath.rs:58-82`, byte-offset slicing with explicit `panic`), tied to the code by the
`split`/`jsplit` correspondence streams.  All statements are for every separator
character (any width) and every Unicode string. -/
namespace MiniconfVerif.C15
open MiniconfVerif.PathIter

/-- `splitSpec S` is "split at every separator": joining its segments with `S` restores
the string and no segment contains `S`. -/
theorem splitSpec_characterisation (S : Char) (s : Str) :
    [S].intercalate (splitSpec S s) = s ∧ (∀ seg ∈ splitSpec S s, S ∉ seg) ∧ splitSpec S s ≠ [] := by
  refine ⟨?_, ?_, splitSpec_ne_nil S s⟩
  · induction s with
    | nil => simp [splitSpec, List.intercalate]
    | cons c cs ih =>
      simp only [splitSpec]
      split
      · next h =>
        subst h
        cases hsp : splitSpec c cs with
        | nil => exact absurd hsp (splitSpec_ne_nil c cs)
        | cons x xs =>
          rw [hsp] at ih
          simp only [List.intercalate] at ih ⊢
          simp only [List.intersperse, List.flatten_cons, List.nil_append] at ih ⊢
          cases xs <;> simp_all [List.intersperse]
      · cases hsp : splitSpec S cs with
        | nil => exact absurd hsp (splitSpec_ne_nil S cs)
        | cons x xs =>
          rw [hsp] at ih
          simp only [List.intercalate] at ih ⊢
          cases xs <;> simp_all [List.intersperse]
  · induction s with
    | nil => simp [splitSpec]
    | cons c cs ih =>
      simp only [splitSpec]
      split
      · intro seg hseg
        simp only [List.mem_cons] at hseg
        rcases hseg with h | h
        · simp [h]
        · exact ih seg h
      · next hne =>
        cases hsp : splitSpec S cs with
        | nil => exact absurd hsp (splitSpec_ne_nil S cs)
        | cons x xs =>
          rw [hsp] at ih
          intro seg hseg
          simp only [List.mem_cons] at hseg
          rcases hseg with h | h
          · subst h
            have := ih x (List.mem_cons_self)
            simp only [List.mem_cons, not_or]
            exact ⟨fun e => hne e.symm, this⟩
          · exact ih seg (List.mem_cons_of_mem _ h)

/-- Splitting a separator path yields the segments of splitting the string at every
separator, minus the first segment; it never panics (every slice is on a char boundary)
and ends in the exhausted state. -/
theorem pathIter_spec (S : Char) (s : Str) :
    (root S s).bind (drain S (s.length + 2)) = some ((splitSpec S s).tail, none) := by
  simp only [root, next_some]
  rw [splitSpec_eq]
  cases hd : s.dropWhile (· ≠ S) with
  | nil =>
    simp only [Option.bind_some, List.tail_cons]
    exact drain_spec S _ none (by simp)
  | cons c tl =>
    have hlen : tl.length + 1 ≤ s.length := by
      have := (List.dropWhile_sublist (l := s) (· ≠ S)).length_le
      rw [hd] at this
      simpa using this
    simp only [Option.bind_some, List.tail_cons]
    exact drain_spec S _ (some tl) (by simp only; omega)

/-- no `next()` call panics, whatever the state -/
theorem pathIter_no_panic (S : Char) (st : Option Str) : next S st ≠ .panic := by
  cases st with
  | none => simp [next]
  | some s => simp [next_some]

/-- fused: the exhausted state stays exhausted -/
theorem pathIter_fused (S : Char) : next S none = .done ∧
    ∀ fuel, drain S fuel none = some ([], none) := by
  refine ⟨rfl, fun fuel => ?_⟩
  cases fuel <;> simp [drain, next]

/-- the empty string denotes the root (no keys), a lone separator one empty key -/
theorem pathIter_root_cases (S : Char) :
    (root S []).bind (drain S 2) = some ([], none) ∧
    (root S [S]).bind (drain S 3) = some ([[]], none) := by
  constructor
  · simpa [splitSpec] using pathIter_spec S []
  · simpa [splitSpec] using pathIter_spec S [S]

/-- Any mixture of the dot, bracket, quoted and dot-quoted notations of a sequence of
names/indices (free of the four delimiter characters) parses to exactly that sequence. -/
theorem json_notations (ks : List (Notation × Str)) (h : ∀ k ∈ ks, DelimFree k.2) :
    jdrain (ks.length + 1) (renderAll ks) = some (ks.map (·.2), []) :=
  jdrain_renderAll ks h _ (by omega)

/-- hence two written forms of the same key sequence yield identical keys -/
theorem json_notations_agree (ks ks' : List (Notation × Str)) (h : ∀ k ∈ ks, DelimFree k.2)
    (he : ks.map (·.2) = ks'.map (·.2)) :
    (jdrain (ks.length + 1) (renderAll ks)).map (·.1) =
      (jdrain (ks'.length + 1) (renderAll ks')).map (·.1) := by
  have h' : ∀ k ∈ ks', DelimFree k.2 := by
    intro k hk
    have : k.2 ∈ ks'.map (·.2) := List.mem_map_of_mem hk
    rw [← he] at this
    obtain ⟨k0, hk0, e⟩ := List.mem_map.mp this
    rw [← e]; exact h k0 hk0
  rw [json_notations ks h, json_notations ks' h', he]

/-- `JsonPathIter::next` never panics (every slice offset is the byte length of a prefix) -/
theorem json_no_panic (s : Str) : jnext s ≠ .panic := jnextWith_no_panic _ _

/-- fused: `None` leaves the state untouched (the `done` step carries no new state), so a
finished iterator stays finished; and every item strictly shortens the string, so
iteration terminates within `length + 1` steps. -/
theorem json_fused_terminates (s : Str) :
    (jnext s = .done → ∀ fuel, jdrain fuel s = some ([], s)) ∧
    (∀ k st, jnext s = .item k st → st.length < s.length) := by
  refine ⟨fun h fuel => ?_, fun k st h => jnext_shorter s k st h⟩
  cases fuel <;> simp [jdrain, h]

/-! ## non-vacuity / documented examples (jsonpath.rs doc test, node.rs unit test) -/
example : (root '/' "/d/1".toList).bind (drain '/' 6) = some (["d".toList, "1".toList], none) := by decide
example : (root '/' "a/b".toList).bind (drain '/' 5) = some (["b".toList], none) := by decide
example : jdrain 7 ".foo['bar'].4.'baz'['5'].'6'".toList
    = some (["foo", "bar", "4", "baz", "5", "6"].map String.toList, []) := by decide
example : DelimFree "foo".toList := by decide
example : jnext "['".toList = .done := by decide


/-! ### Tie to the translated source (`Gen/Text.lean`, regenerated from node.rs and jsonpath.rs on every run) -/
open MiniconfVerif.Gen MiniconfVerif.GenTie MiniconfVerif.PathIter in
/-- `PathIter::<S>::next` and `JsonPathIter::next` **as translated from the source** (byte-offset arithmetic,
`split_at`, `get(S.len_utf8()..)`, the four JSON-path rules in source order) are the model's `next` / `jnext`
on which the theorems of this file are proved — for every separator, every text, every iterator state. -/
theorem source_iterators_are_model :
    (∀ (S : Char) (st : Option Str), stepOfP (Text.PathIter.next S st) = PathIter.next S st) ∧
    (∀ s : Str, jstepOfP (Text.JsonPathIter.next s) = jnext s) :=
  ⟨pathIter_next_tie, jsonPathIter_next_tie⟩

end MiniconfVerif.C15
