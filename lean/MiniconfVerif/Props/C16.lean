import MiniconfVerif.Props.C15
import MiniconfVerif.Lemmas.PackedLsb
import MiniconfVerif.Lemmas.WalkTotal
import MiniconfVerif.Lemmas.GenTieKeys

/-! # C16 — no key or payload can make a tree operation panic

In the model a panic site of the Rust code (slice off a char boundary, shift overflow,
`unreachable!()`, index out of bounds) is the result value `Trav.panic site`; "no panic" is
the statement that this value is never produced.  Proved: the string splitters, the packed
arithmetic (over the expressions regenerated from packed.rs), every key source, and the whole
by-key walk / type-level traversal on every well-formed tree whose nodes have at most 2^63
children (beyond that: finding F5).  Panics inside serde/serde-json-core/postcard/heapless
are outside the model (runs only). -/
namespace MiniconfVerif.C16
open MiniconfVerif MiniconfVerif.PathIter MiniconfVerif.Gen.Packed MiniconfVerif.PackedWord

/-- no string makes `PathIter::next` slice off a char boundary, for any separator -/
theorem path_split_no_panic (S : Char) (st : Option Str) : PathIter.next S st ≠ .panic :=
  C15.pathIter_no_panic S st

/-- no string makes `JsonPathIter::next` slice off a char boundary or out of range -/
theorem json_split_no_panic (s : Str) : jnext s ≠ .panic := C15.json_no_panic s

/-- with widths in the documented range (≤ 63) no shift amount reaches the word size and
no subtraction borrows in `pop_msb` / `push_lsb`, for every non-zero word -/
theorem packed_ops_no_overflow (w b v : BitVec 64) (hw : w ≠ 0) (hb : b ≤ 63) :
    popMsb_pre w b = true ∧ popMsb_inner w b = true ∧ pushLsb_pre w b v = true ∧
      (pushLsb w b v ≠ none → pushLsb_inner w b v = true) :=
  ⟨(popMsb_no_panic w b hb).1, (popMsb_no_panic w b hb).2, (pushLsb_no_panic w b v hw hb).1,
   (pushLsb_no_panic w b v hw hb).2⟩

/-- the LSB conversions never hit their `unreachable!()` and never over-shift -/
theorem lsb_no_panic (w : BitVec 64) (hw : w ≠ 0) :
    intoLsb w ≠ 0 ∧ fromLsb w ≠ 0 ∧ intoLsb_pre w = true ∧ fromLsb_pre w = true :=
  ⟨intoLsb_ne_zero w hw, fromLsb_ne_zero w hw, intoLsb_no_panic w hw, fromLsb_no_panic w hw⟩

/-- the width used for a lookup stays ≤ 63 as long as it has at most 2^63 children, so the
`Keys`/`Transcode` impls for `Packed` call the above within their contract -/
theorem key_width_in_contract (len : BitVec 64) (hl : len ≠ 0) (h : len ≤ 0x8000000000000000) :
    keyBits len ≤ 63 := by
  simp only [keyBits, bitsFor, BITS]
  bv_decide

open MiniconfVerif.Gen MiniconfVerif.Gen.Core MiniconfVerif.GenTie in
/-- **No packed word makes the translated `Keys::next` panic.**  `<Packed as Keys>::next` **as translated from packed.rs**
(with the `debug_assert!`s, shift-overflow and subtraction-borrow sites of `bits_for` / `pop_msb` explicit as `.panic`)
returns a value — an index or a `Traversal` error — for every word and every lookup with at least one child whose key
width fits the word (`Lookup.fits`: at most `2^63` children; beyond that is the open finding F5). -/
theorem source_packed_next_no_panic (w : BitVec 64) (lk : Lookup) (h0 : 0 < lk.len) (h64 : lk.len < 2 ^ 64)
    (hfit : lk.fits) : ∀ m, Gen.Keys.Packed.next w (lookupToGen lk) ≠ .panic m := by
  intro m hp
  have h := packed_next_tie w lk h0 h64
  rw [hp] at h
  cases hm : (KeySrc.packed w).next lk with
  | ok r => rw [hm] at h; exact h
  | error e =>
    rw [hm] at h
    have := next_no_panic (.packed w) lk hfit e hm
    cases e <;> first | exact h | simp [Trav.isPanic] at this

/-- **Totality of every by-key operation**: for every well-formed tree in every runtime state
whose lookups fit, every operation, every key source (arbitrary strings, integers, packed
words, chains) and every (de)serializer behaviour, the walk returns a result — no panic site
is reached. -/
theorem walk_total (io : Io) (op : Op) (t : Tree) (ks : KeySrc) (hwf : t.WF) (hfit : t.Fits) :
    (t.walk io op ks).res.isPanic = false :=
  walk_no_panic io op t ks hwf hfit

/-- the same for the type-level traversal behind `transcode` and `nodes()`, with any callback -/
theorem traverse_total {σ : Type} (cb : σ → CbArg → Option σ) (s : Schema) (ks : KeySrc) (st : σ)
    (hwf : s.WF) (hfit : s.Fits) : (s.traverse cb ks st).1.isPanic = false :=
  traverse_no_panic cb s ks st hwf hfit

/-- no key source panics in `Keys::next` / `finalize`, and every index it yields is in range -/
theorem keys_total (ks : KeySrc) (lk : Lookup) (hfit : lk.fits) :
    (∀ e, ks.next lk = .error e → e.isPanic = false) ∧ (∀ e, ks.finalize = .error e → e.isPanic = false) ∧
    (∀ i ks', ks.next lk = .ok (i, ks') → i < lk.len) :=
  ⟨next_no_panic ks lk hfit, finalize_no_panic ks, fun i ks' h => next_lt ks lk i ks' h⟩

/-! ## non-vacuity: the excluded region is where F5 lives -/
example : ¬ (Lookup.homog (2 ^ 63 + 1)).fits := by unfold Lookup.fits; decide
example : (Lookup.homog (2 ^ 63)).fits := by unfold Lookup.fits; decide
example : (match (KeySrc.packed 1#64).next (.homog (2 ^ 63 + 1)) with
    | .error (.panic _) => true | _ => false) = true := by decide +kernel

end MiniconfVerif.C16
