import MiniconfVerif.Props.C15
import MiniconfVerif.Lemmas.PackedLsb

/-! # C16 — no key or payload can make a tree operation panic
(first instalment: the string splitters and the packed arithmetic — every slicing site
and every shift/subtraction of the generated packed.rs expressions; the totality theorem
for the tree walk is being added, see DESIGN.md §7 C16) -/
namespace MiniconfVerif.C16
open MiniconfVerif MiniconfVerif.PathIter MiniconfVerif.Gen.Packed MiniconfVerif.PackedWord

/-- no string makes `PathIter::next` slice off a char boundary, for any separator -/
theorem path_split_no_panic (S : Char) (st : Option Str) : PathIter.next S st ≠ .panic :=
  C15.pathIter_no_panic S st

/-- no string makes `JsonPathIter::next` slice off a char boundary or out of range -/
theorem json_split_no_panic (s : Str) : jnext s ≠ .panic := C15.json_no_panic s

/-- with widths in the documented range (≤ 63) no shift amount reaches the word size and
no subtraction borrows in `pop_msb` / `push_lsb`, for every non-zero word -/
theorem packed_ops_no_overflow (w b v : BitVec 64) (hw : w ≠ 0) (hb : b ≤ 63) :
    popMsb_pre w b = true ∧ popMsb_inner w b = true ∧ pushLsb_pre w b v = true ∧
      (pushLsb w b v ≠ none → pushLsb_inner w b v = true) :=
  ⟨(popMsb_no_panic w b hb).1, (popMsb_no_panic w b hb).2, (pushLsb_no_panic w b v hw hb).1,
   (pushLsb_no_panic w b v hw hb).2⟩

/-- the LSB conversions never hit their `unreachable!()` and never over-shift -/
theorem lsb_no_panic (w : BitVec 64) (hw : w ≠ 0) :
    intoLsb w ≠ 0 ∧ fromLsb w ≠ 0 ∧ intoLsb_pre w = true ∧ fromLsb_pre w = true :=
  ⟨intoLsb_ne_zero w hw, fromLsb_ne_zero w hw, intoLsb_no_panic w hw, fromLsb_no_panic w hw⟩

/-- the width used for a lookup stays ≤ 63 as long as it has at most 2^63 children, so the
`Keys`/`Transcode` impls for `Packed` call the above within their contract -/
theorem key_width_in_contract (len : BitVec 64) (hl : len ≠ 0) (h : len ≤ 0x8000000000000000) :
    keyBits len ≤ 63 := by
  simp only [keyBits, bitsFor, BITS]
  bv_decide

end MiniconfVerif.C16
