import MiniconfVerif.Lemmas.GenTiePy
import MiniconfVerif.Lemmas.PyClient

/-! # C17 — the Python client resolves each request exactly once from its own responses

Model: `Model/PyClient.lean` — the `_dispatch` body shared by `async_.py` (68-109) and
`sync.py` (62-101), the tail of `_do`, and `_Path.normalize`.  Dispatcher steps are atomic
in the model (threads / asyncio scheduling are not modelled); a fresh correlation data per
request is the hypothesis `lookup st.inflight cd = none`, `doneFor st cd = []`. -/
namespace MiniconfVerif.C17
open MiniconfVerif MiniconfVerif.PyClient MiniconfVerif.PathIter

/-- **Exactly once, from its own messages only**: after registering a request with fresh
correlation data, any sequence of incoming messages — its own responses interleaved in any
way with responses to other requests, foreign topics, unknown / missing correlation data,
missing codes, duplicates — leaves the request either completed exactly once with the
result the reference reading of *its own* messages gives (all `Continue` payloads in arrival
order, then the final `Ok` payload if non-empty; or the error code and text), or still in
flight with exactly the payloads collected so far. -/
theorem completes_once (rt : Str) (st : PySt) (cd : Cd) (ms : List Msg)
    (hfresh : lookup st.inflight cd = none) (hnew : doneFor st cd = []) :
    match collect [] (ms.filter (Own rt cd)) with
    | .inl d => doneFor (ms.foldl (dispatch rt) (register st cd)) cd = [d] ∧
                lookup (ms.foldl (dispatch rt) (register st cd)).inflight cd = none
    | .inr acc => doneFor (ms.foldl (dispatch rt) (register st cd)) cd = [] ∧
                  lookup (ms.foldl (dispatch rt) (register st cd)).inflight cd = some acc :=
  dispatch_fold rt cd ms (register st cd) [] (lookup_append_new _ _ hfresh) hnew

/-- **Interleaving-independent**: the outcome for a request depends only on the
subsequence of its own messages. -/
theorem interleaving (rt : Str) (st : PySt) (cd : Cd) (ms ms' : List Msg)
    (hfresh : lookup st.inflight cd = none) (hnew : doneFor st cd = [])
    (hsame : ms.filter (Own rt cd) = ms'.filter (Own rt cd)) :
    doneFor (ms.foldl (dispatch rt) (register st cd)) cd = doneFor (ms'.foldl (dispatch rt) (register st cd)) cd ∧
    lookup (ms.foldl (dispatch rt) (register st cd)).inflight cd =
      lookup (ms'.foldl (dispatch rt) (register st cd)).inflight cd := by
  have h1 := completes_once rt st cd ms hfresh hnew
  have h2 := completes_once rt st cd ms' hfresh hnew
  rw [hsame] at h1
  cases hc : collect [] (ms'.filter (Own rt cd)) with
  | inl d => rw [hc] at h1 h2; exact ⟨h1.1.trans h2.1.symm, h1.2.trans h2.2.symm⟩
  | inr acc => rw [hc] at h1 h2; exact ⟨h1.1.trans h2.1.symm, h1.2.trans h2.2.symm⟩

/-- **Foreign messages are inert**: a message with a foreign topic, without correlation
data, with unknown correlation data, or without a response code changes nothing at all. -/
theorem foreign_inert (rt : Str) (st : PySt) (m : Msg)
    (h : m.topic ≠ rt ∨ m.cd = none ∨ (∃ cd, m.cd = some cd ∧ lookup st.inflight cd = none) ∨ m.code = none) :
    dispatch rt st m = st := by
  unfold dispatch
  rcases h with h | h | ⟨cd, h1, h2⟩ | h
  · simp [h]
  · split
    · rfl
    · simp [h]
  · split
    · rfl
    · simp [h1, h2]
  · split
    · rfl
    · cases m.cd with
      | none => rfl
      | some cd => simp only []; cases lookup st.inflight cd <;> simp [h]

/-- and a message for one request never completes, corrupts or fails another one -/
theorem others_untouched (rt : Str) (st : PySt) (m : Msg) (cd : Cd) (h : Own rt cd m = false) :
    lookup (dispatch rt st m).inflight cd = lookup st.inflight cd ∧ doneFor (dispatch rt st m) cd = doneFor st cd :=
  dispatch_other rt st m cd h

/-- what the caller gets (`_do`): a leaf request needs exactly one payload, otherwise
"Not a leaf"; a list needs at least one; a device error becomes an exception with the
device's code and text. -/
theorem do_post :
    (∀ x, post .get (.ok [x]) = .value x) ∧
    (∀ ret, ret.length ≠ 1 → post .get (.ok ret) = .miniconfExc notALeaf (.inl ret)) ∧
    (∀ ret, ret ≠ [] → post .list (.ok ret) = .values ret) ∧
    (∀ k code msg, post k (.exc code msg) = .miniconfExc code (.inr msg)) := by
  refine ⟨fun x => rfl, ?_, ?_, fun k code msg => rfl⟩
  · intro ret h
    match ret, h with
    | [], _ => rfl
    | [x], h => simp at h
    | _ :: _ :: _, _ => rfl
  · intro ret h
    cases ret with
    | nil => exact absurd rfl h
    | cons x xs => rfl

open MiniconfVerif.Gen.Py in
/-- **The tail of `Miniconf._do` as translated from async_.py and sync.py** (`Gen.Py.asyncPost` / `syncPost`: the
statements after the wait — the re-raise of a stored device error in the sync client, `response == 1` → exactly one
payload or "Not a leaf", otherwise `assert ret; return ret` — and `Gen.Py.asyncResponseOf` / `syncResponseOf`: the
`response=` each of `get / set / list / clear / dump` passes) **is the model's `post`** (about which `do_post` and the C18
theorems speak), for every request kind and every way a request can have ended: sync on the `ret` list the dispatcher
leaves (`itemsOf`: the payloads, or the one exception object), async on the list `await fut` returns (an exception set
on the future is raised by `await` itself: Python semantics, not in the source). `dump` awaits nothing in both. -/
theorem source_do_tail_is_model :
    (∀ k d, k ≠ Kind.dump → syncPost (syncResponseOf k) (itemsOf d) = post k d) ∧
    (∀ k ret, k ≠ Kind.dump → asyncPost (asyncResponseOf k) (itemsOf (.ok ret)) = post k (.ok ret)) ∧
    (∀ ret, syncPost (syncResponseOf .dump) ret = .none_ ∧ asyncPost (asyncResponseOf .dump) ret = .none_) ∧
    (∀ d, post .dump (.ok d) = .none_) := by
  refine ⟨?_, ?_, fun ret => ⟨rfl, rfl⟩, fun d => rfl⟩
  · intro k d hk
    cases d with
    | exc code msg => cases k <;> first | exact absurd rfl hk | rfl
    | ok ret =>
      match ret with
      | [] => cases k <;> first | exact absurd rfl hk | rfl
      | [x] => cases k <;> first | exact absurd rfl hk | rfl
      | x :: y :: r =>
        cases k <;> first
          | exact absurd rfl hk
          | simp [syncPost, syncResponseOf, itemsOf, post, notLeaf, whole, strsOf, strsOf_map]
  · intro k ret hk
    match ret with
    | [] => cases k <;> first | exact absurd rfl hk | rfl
    | [x] => cases k <;> first | exact absurd rfl hk | rfl
    | x :: y :: r =>
      cases k <;> first
        | exact absurd rfl hk
        | simp [asyncPost, asyncResponseOf, itemsOf, post, notLeaf, whole, strsOf, strsOf_map]

/-- a path is "absolute or empty" -/
def AbsOrEmpty (p : Str) : Prop := p = [] ∨ p.head? = some '/'

/-- **Relative command-line paths**: the result is always empty or starts with a slash, an
absolute path is returned unchanged, a relative one is appended to the directory of the
last absolute path; the remembered directory stays absolute-or-empty. -/
theorem normalize_spec (cur path : Str) (hc : AbsOrEmpty cur) :
    AbsOrEmpty (normalize cur path).2 ∧ AbsOrEmpty (normalize cur path).1 ∧
    (AbsOrEmpty path → (normalize cur path).2 = path) ∧
    (¬ AbsOrEmpty path → (normalize cur path).2 = cur ++ '/' :: path ∧ (normalize cur path).1 = cur) := by
  unfold normalize
  by_cases hp : path.head? = some '/' ∨ path = []
  · simp only [hp, if_true]
    have hpa : AbsOrEmpty path := hp.symm.imp id id |>.elim Or.inl Or.inr
    refine ⟨hpa, ?_, fun _ => trivial, fun h => absurd hpa h⟩
    -- a prefix of an absolute path is empty or absolute
    rcases hp with h | h
    · cases path with
      | nil => simp at h
      | cons c cs =>
        simp only [List.head?_cons, Option.some.injEq] at h
        subst h
        unfold AbsOrEmpty
        cases hk : ((('/' :: cs).reverse.dropWhile (· ≠ '/')).length - 1) with
        | zero => left; simp
        | succ k => right; simp
    · subst h; left; simp
  · simp only [hp, if_false]
    have hnp : ¬ AbsOrEmpty path := by
      intro h; exact hp (h.symm.imp id id |>.elim Or.inl Or.inr)
    refine ⟨?_, hc, fun h => absurd h hnp, fun _ => ⟨trivial, trivial⟩⟩
    unfold AbsOrEmpty
    right
    rcases hc with h | h
    · subst h; rfl
    · cases cur with
      | nil => simp at h
      | cons c cs => simpa using h

/-! ## non-vacuity -/
def m (cd : Cd) (p code : String) : Msg := ⟨"r".toList, p.toList, some cd, some code.toList⟩
example : doneFor (([m [1] "/a" "Continue", m [2] "7" "Ok", m [1] "/b" "Continue", m [1] "" "Ok", m [1] "x" "Ok"].foldl
    (dispatch "r".toList) (register (register PySt.empty [1]) [2]))) [1] = [.ok ["/a".toList, "/b".toList]] := by
  decide +kernel
example : (normalize "/a".toList "c".toList).2 = "/a/c".toList := by decide +kernel


/-! ### Tie to the translated source (`Gen/Py.lean`, regenerated from the Python files on every run) -/
open MiniconfVerif.GenTie MiniconfVerif.PyTable MiniconfVerif.PyClient MiniconfVerif.PathIter in
/-- The dispatcher of **both** Python clients, as extracted from the AST of `async_.py` / `sync.py` on every run (the
four discard guards in source order, and per response code the actions on the in-flight entry: append / append if
non-empty / `set_result` / `set_exception` / `ret[:] = [exception]` / `event.set()` / `del`), interpreted by
`PyTable.run`, is the model's `dispatch` on which `completes_once`, `interleaving`, `foreign_inert`, … are proved;
and `_Path.normalize` as translated from `common.py` (Python `startswith`, `rfind`, slice with a possibly negative
bound, f-string) is the model's `normalize`, its `assert` never failing.  The Lean driver of the correspondence run
executes exactly these extracted tables / this function against the real clients. -/
theorem source_dispatch_is_model :
    (∀ rt st m, run Gen.Py.asyncTable rt st m = dispatch rt st m) ∧
    (∀ rt st m, run Gen.Py.syncTable rt st m = dispatch rt st m) ∧
    (∀ current path : Str, (Gen.Py.normalize current path).1 = (normalize current path).1 ∧
      (Gen.Py.normalize current path).2.1 = (normalize current path).2 ∧
      ((current = [] ∨ current.head? = some '/') → (Gen.Py.normalize current path).2.2 = true)) :=
  ⟨async_dispatch_tie, sync_dispatch_tie, normalize_tie⟩

end MiniconfVerif.C17
