import MiniconfVerif.Props.C07
import MiniconfVerif.Props.C17
import MiniconfVerif.Gen.Consts

/-! # C18 — device responses decode in the Python client to the device's actual state

Composition of the two models: the publications of the Rust client model (`Model/Mqtt.lean`)
are put on the wire the way `MqttClient::respond` / `iter_list` do (payload text, response
topic, correlation data, one user property `code = <ResponseCode variant name>`) and read by
the Python dispatcher model (`Model/PyClient.lean`).  The literals both sides use come from
`Gen/Consts.lean`, regenerated from `lib.rs`, `async_.py` and `sync.py` on every run. -/
namespace MiniconfVerif.C18
open MiniconfVerif MiniconfVerif.PathIter MiniconfVerif.Mqtt MiniconfVerif.PyClient
open MiniconfVerif.Gen.Consts

/-- `ResponseCode` as `IntoStaticStr` renders it -/
def codeWire : Code → Str
  | .ok => "Ok".toList
  | .continue => "Continue".toList
  | .error => "Error".toList

/-- payload bytes of a publication; `disp` renders the error values (`Display`) -/
def bodyWire (disp : Body → Str) : Body → Str
  | .text s => s
  | b => disp b

/-- one PUBLISH of the device as the Python dispatcher sees it -/
def toMsg (disp : Body → Str) : Out → Option Msg
  | .pub t b c cd => some ⟨t, bodyWire disp b, cd, userCode [(rust_codeKey.toList, codeWire c)]⟩
  | _ => none

def wire (disp : Body → Str) (outs : List Out) : List Msg := outs.filterMap (toMsg disp)

/-- **The two sides use the same literals** (all regenerated from the sources): the response
code strings the Python dispatcher tests for are variant names of the Rust `ResponseCode`, and
the model's rendering of the codes is what Python compares with; the user property key; the
`/settings` topic infix; the response topic is `prefix/response` in both Python clients; a
16-byte uuid fits the 32-byte correlation data cache; the models' constants are the sources'. -/
theorem constants_agree :
    rust_codes = ["Ok", "Continue", "Error"] ∧
    py_async_ok ∈ rust_codes ∧ py_async_continue ∈ rust_codes ∧ py_sync_ok = py_async_ok ∧ py_sync_continue = py_async_continue ∧
    codeWire .ok = py_async_ok.toList ∧ codeWire .continue = py_async_continue.toList ∧
    codeOk = py_async_ok.toList ∧ codeContinue = py_async_continue.toList ∧
    (∀ c, String.ofList (codeWire c) ∈ rust_codes) ∧
    rust_codeKey = py_async_codeKey ∧ rust_codeKey = py_sync_codeKey ∧ codeKey = rust_codeKey.toList ∧
    rust_settings = py_async_settings ∧ rust_settings = py_sync_settings ∧ settingsSuffix = rust_settings.toList ∧
    rust_settings ∈ rust_topicSuffixes ∧ py_async_response = py_sync_response ∧ py_async_response ∉ rust_topicSuffixes ∧
    py_async_cdLen ≤ rust_MAX_CD_LENGTH ∧ py_sync_cdLen ≤ rust_MAX_CD_LENGTH ∧
    MAX_CD_LENGTH = rust_MAX_CD_LENGTH ∧ MAX_TOPIC_LENGTH = rust_MAX_TOPIC_LENGTH ∧
    DUMP_TIMEOUT_MS = 1000 * rust_DUMP_TIMEOUT_SECONDS ∧ rust_SEPARATOR = '/' := by
  refine ⟨by decide +kernel, by decide +kernel, by decide +kernel, by decide +kernel, by decide +kernel,
    by decide +kernel, by decide +kernel, by decide +kernel, by decide +kernel, ?_,
    by decide +kernel, by decide +kernel, by decide +kernel, by decide +kernel, by decide +kernel, by decide +kernel,
    by decide +kernel, by decide +kernel, by decide +kernel, by decide +kernel, by decide +kernel,
    by decide +kernel, by decide +kernel, by decide +kernel, by decide +kernel⟩
  intro c; cases c <;> decide +kernel

/-- the request the Python client publishes for `path` is understood by the device as a
request for exactly that path (`prefix/settings` + path, stripped again by the device) -/
theorem request_topic_understood (pfx path : Str) :
    topicPath pfx (pfx ++ py_async_settings.toList ++ path) = some path ∧
    topicPath pfx (pfx ++ py_sync_settings.toList ++ path) = some path := by
  have h : py_async_settings.toList = settingsSuffix ∧ py_sync_settings.toList = settingsSuffix := by
    constructor <;> decide +kernel
  rw [h.1, h.2]
  have : topicPath pfx (pfx ++ settingsSuffix ++ path) = some path := by
    unfold topicPath stripPrefix prefixSettings
    have hp : (pfx ++ settingsSuffix).isPrefixOf (pfx ++ settingsSuffix ++ path) = true := by
      rw [List.isPrefixOf_iff_prefix]; exact List.prefix_append _ _
    simp
  exact ⟨this, this⟩

/-- the user property the device attaches is found by the Python lookup -/
theorem code_found (c : Code) : userCode [(rust_codeKey.toList, codeWire c)] = some (codeWire c) := by
  cases c <;> decide +kernel

theorem toMsg_own (disp : Body → Str) (rt : Str) (b : Body) (c : Code) (cd : Cd) :
    ∃ m, toMsg disp (.pub rt b c (some cd)) = some m ∧ Own rt cd m = true ∧ m.payload = bodyWire disp b ∧
      m.code = some (codeWire c) := by
  refine ⟨_, rfl, ?_, rfl, code_found c⟩
  simp [Own, code_found]

theorem toMsg_pub (disp : Body → Str) (t : Str) (b : Body) (c : Code) (cd : Option (List Nat)) :
    toMsg disp (.pub t b c cd) = some ⟨t, bodyWire disp b, cd, some (codeWire c)⟩ := by
  simp [toMsg, code_found]

theorem wire_cons_pub (disp : Body → Str) (t : Str) (b : Body) (c : Code) (cd : Option (List Nat)) (outs : List Out) :
    wire disp (.pub t b c cd :: outs) = ⟨t, bodyWire disp b, cd, some (codeWire c)⟩ :: wire disp outs := by
  simp [wire, toMsg_pub]

theorem wire_nil (disp : Body → Str) : wire disp [] = [] := rfl

theorem collect_cons_continue (acc : List Str) (t p : Str) (cd : Option Cd) (ms : List Msg) :
    collect acc (⟨t, p, cd, some (codeWire .continue)⟩ :: ms) = collect (acc ++ [p]) ms := by
  have hc : codeWire .continue = codeContinue := by decide +kernel
  simp [collect, hc]

theorem collect_cons_ok (acc : List Str) (t p : Str) (cd : Option Cd) (ms : List Msg) :
    collect acc (⟨t, p, cd, some (codeWire .ok)⟩ :: ms) = .inl (.ok (if p.isEmpty then acc else acc ++ [p])) := by
  have h1 : ¬ (codeOk = codeContinue) := by decide +kernel
  have h2 : codeWire .ok = codeOk := by decide +kernel
  simp only [collect, h1, h2, if_false, if_true]

theorem collect_cons_error (acc : List Str) (t p : Str) (cd : Option Cd) (ms : List Msg) :
    collect acc (⟨t, p, cd, some (codeWire .error)⟩ :: ms) = .inl (.exc (codeWire .error) p) := by
  have h1 : ¬ (codeWire .error = codeContinue) := by decide +kernel
  have h2 : ¬ (codeWire .error = codeOk) := by decide +kernel
  simp only [collect, h1, h2, if_false]

/-- reading a single final `Ok` answer -/
theorem collect_single_ok (disp : Body → Str) (rt : Str) (b : Body) (cd : Cd) :
    collect [] (wire disp [.pub rt b .ok (some cd)]) =
      .inl (.ok (if (bodyWire disp b).isEmpty then [] else [bodyWire disp b])) := by
  rw [wire_cons_pub, collect_cons_ok]; rfl

/-- reading a single `Error` answer -/
theorem collect_single_error (disp : Body → Str) (rt : Str) (b : Body) (cd : Cd) :
    collect [] (wire disp [.pub rt b .error (some cd)]) = .inl (.exc "Error".toList (bodyWire disp b)) := by
  rw [wire_cons_pub, collect_cons_error]; rfl

/-- reading a complete list answer: all `Continue` paths, then `Ok ""` -/
theorem collect_list (disp : Body → Str) (rt : Str) (cd : Cd) (ls : List Str) (acc : List Str) :
    collect acc (wire disp (ls.map (fun p => Out.pub rt (.text p) .continue (some cd)) ++ [.pub rt (.text []) .ok (some cd)])) =
      .inl (.ok (acc ++ ls)) := by
  induction ls generalizing acc with
  | nil =>
    simp only [List.map_nil, List.nil_append, wire_cons_pub, collect_cons_ok, bodyWire]
    simp
  | cons p ps ih =>
    simp only [List.map_cons, List.cons_append, wire_cons_pub, collect_cons_continue, bodyWire]
    rw [ih]; simp

section EndToEnd
variable {σ : Type} (ops : SettingsOps σ) (disp : Body → Str)

/-- the Python request for `path` as the device receives it -/
def pyReq (pfx rt path payload : Str) (cd : Cd) : Req :=
  ⟨pfx ++ py_async_settings.toList ++ path, payload, some rt, some cd⟩

/-- the caller's view after the dispatcher has seen `ms` (for a request registered with fresh `cd`) -/
def outcome (rt : Str) (st : PySt) (cd : Cd) (ms : List Msg) : List Done :=
  doneFor (ms.foldl (dispatch rt) (register st cd)) cd

/-- **Get**: the value the device holds is what `get` returns, for any other traffic `ms`
interleaved on the Python side, as long as the request's own messages are the device's answer. -/
theorem get_end_to_end (pfx rt path txt : Str) (cd : Cd) (c : Client) (s : σ) (st : PySt) (ms : List Msg)
    (hg : ops.get s path = .value txt) (hne : txt ≠ [])
    (hfresh : lookup st.inflight cd = none) (hnew : doneFor st cd = [])
    (hown : ms.filter (Own rt cd) = wire disp (handleMsg ops pfx c s (pyReq pfx rt path [] cd) true true).2.2.1) :
    outcome rt st cd ms = [.ok [txt]] ∧ post .get (.ok [txt]) = .value txt := by
  have hp := (request_topic_understood pfx path).1
  have hans := C07.get_answer ops pfx c s (pyReq pfx rt path [] cd) path txt hp rfl hg
  rw [hans] at hown
  have hc := collect_single_ok disp rt (.text txt) cd
  have hw : ms.filter (Own rt cd) = wire disp [.pub rt (.text txt) .ok (some cd)] := by simpa [pyReq] using hown
  have := C17.completes_once rt st cd ms hfresh hnew
  rw [hw, hc] at this
  have he : (bodyWire disp (.text txt)).isEmpty = false := by
    cases txt with
    | nil => exact absurd rfl hne
    | cons _ _ => rfl
  simp only [he] at this
  exact ⟨this.1, rfl⟩

/-- **Get/List error** (absent, not found, too long …): an exception with the device's
`Error` code and its error text. -/
theorem get_error_end_to_end (pfx rt path : Str) (t : Trav) (cd : Cd) (c : Client) (s : σ) (st : PySt) (ms : List Msg) (k : Kind)
    (hg : ops.get s path = .err t)
    (hfresh : lookup st.inflight cd = none) (hnew : doneFor st cd = [])
    (hown : ms.filter (Own rt cd) = wire disp (handleMsg ops pfx c s (pyReq pfx rt path [] cd) true true).2.2.1) :
    outcome rt st cd ms = [.exc "Error".toList (disp (.errTrav t))] ∧
    post k (.exc "Error".toList (disp (.errTrav t))) = .miniconfExc "Error".toList (.inr (disp (.errTrav t))) := by
  have hp := (request_topic_understood pfx path).1
  have hans := C07.get_error ops pfx c s (pyReq pfx rt path [] cd) true path rt t hp rfl hg rfl
  rw [hans] at hown
  have hc := collect_single_error disp rt (.errTrav t) cd
  have hw : ms.filter (Own rt cd) = wire disp [.pub rt (.errTrav t) .error (some cd)] := by simpa [pyReq] using hown
  have := C17.completes_once rt st cd ms hfresh hnew
  rw [hw, hc] at this
  exact ⟨this.1, rfl⟩

/-- **Set**: an accepted write completes normally (with the device's "OK"); a rejected one
raises the device's `Error` with its text; the device's settings are what the JSON write produced. -/
theorem set_end_to_end (pfx rt path payload : Str) (cd : Cd) (c : Client) (s : σ) (st : PySt) (ms : List Msg)
    (hne : payload.isEmpty = false)
    (hfresh : lookup st.inflight cd = none) (hnew : doneFor st cd = [])
    (hown : ms.filter (Own rt cd) = wire disp (handleMsg ops pfx c s (pyReq pfx rt path payload cd) true true).2.2.1) :
    (handleMsg ops pfx c s (pyReq pfx rt path payload cd) true true).2.1 = (ops.set s path payload).2 ∧
    outcome rt st cd ms =
      [if (ops.set s path payload).1 = .ok then .ok [msgOK]
       else .exc "Error".toList (bodyWire disp (setBody (ops.set s path payload).1))] := by
  have hp := (request_topic_understood pfx path).1
  have hans := C07.set_answer ops pfx c s (pyReq pfx rt path payload cd) true path hp hne
  simp only [pyReq] at hans hown ⊢
  refine ⟨hans.2.1, ?_⟩
  rw [hans.2.2] at hown
  have := C17.completes_once rt st cd ms hfresh hnew
  by_cases hok : (ops.set s path payload).1 = .ok
  · simp only [hok, if_true] at hown ⊢
    have hc := collect_single_ok disp rt (setBody .ok) cd
    rw [hown, hc] at this
    simpa [outcome, setBody, bodyWire, msgOK] using this.1
  · simp only [hok, if_false] at hown ⊢
    have hc := collect_single_error disp rt (setBody (ops.set s path payload).1) cd
    rw [hown, hc] at this
    exact this.1

/-- **List**: the complete answer of the device (any split over `update()` calls is the same
by `C07.list_any_schedule`) is read by the Python client as exactly the leaf paths below the
node, in the device's order; `list` returns them, `get` raises "Not a leaf" carrying them. -/
theorem list_end_to_end (rt : Str) (cd : Cd) (c : Client) (k : Nat) (st : PySt) (ms : List Msg)
    (hrt : c.pending.respTopic = some rt) (hcd : c.pending.cd = some cd) (hk : c.pending.remaining.length < k)
    (hfresh : lookup st.inflight cd = none) (hnew : doneFor st cd = [])
    (hown : ms.filter (Own rt cd) = wire disp (iterList c k).2) :
    outcome rt st cd ms = [.ok c.pending.remaining] ∧
    (c.pending.remaining ≠ [] → post .list (.ok c.pending.remaining) = .values c.pending.remaining) ∧
    (c.pending.remaining.length ≠ 1 →
      post .get (.ok c.pending.remaining) = .miniconfExc notALeaf (.inl c.pending.remaining)) := by
  have hl := (C07.list_complete c rt hrt k hk).2
  rw [hl, hcd] at hown
  have := C17.completes_once rt st cd ms hfresh hnew
  rw [hown, collect_list disp rt cd c.pending.remaining []] at this
  exact ⟨by simpa [outcome] using this.1, C17.do_post.2.2.1 _, C17.do_post.2.1 _⟩

/-- the request that starts the list: accepted while idle, it roots the walk at the node
with the Python request's response topic and its 16-byte correlation data (which fits) -/
theorem list_request_accepted (pfx rt path : Str) (cd : Cd) (c : Client) (s : σ) (ls : List Str)
    (hg : ops.get s path = .internal) (hs : c.st = .single) (hl : ops.leavesBelow path = some ls)
    (hcd : cd.length = py_async_cdLen) (hrt : byteLen rt ≤ MAX_TOPIC_LENGTH) :
    (handleMsg ops pfx c s (pyReq pfx rt path [] cd) true true).1.pending = ⟨ls, some rt, some cd⟩ := by
  have hp := (request_topic_understood pfx path).1
  have h1 : rtTooLong (pyReq pfx rt path [] cd) = false := by simp [rtTooLong, pyReq]; omega
  have h2 : cdTooLong (pyReq pfx rt path [] cd) = false := by
    have : py_async_cdLen ≤ MAX_CD_LENGTH := by decide +kernel
    simp [cdTooLong, pyReq]; omega
  rw [C07.list_accepted ops pfx c s (pyReq pfx rt path [] cd) true path ls hp rfl hg hs h1 h2 hl]
  rfl

end EndToEnd

/-! ## non-vacuity -/
example : collect [] (wire (fun _ => []) [.pub "r".toList (.text "/a".toList) .continue (some [1]),
    .pub "r".toList (.text []) .ok (some [1])]) = .inl (.ok ["/a".toList]) := by decide +kernel
example : (wire (fun _ => []) [.pub "r".toList (.text "5".toList) .ok (some [1]), .alive]).filter (Own "r".toList [1]) =
    wire (fun _ => []) [.pub "r".toList (.text "5".toList) .ok (some [1])] := by decide +kernel

end MiniconfVerif.C18
