#!/usr/bin/env python3
"""Human-friendly -> wire encoding for pydriver input (sample/test aid).

usage: mkcase.py <id> async|sync|norm <item> ...
  norm items : literal paths ('' for empty)
  event items: get=/a   set=/a=<json>   list=/a   clear=/a   dump=/a
               msg=<topic|R>=<payload>=<cd>=<code>     ('=' separated)
"""
import sys


def enc(s):
    return "e" if s == "" else ".".join(str(ord(c)) for c in s)


def main():
    ident, variant, items = sys.argv[1], sys.argv[2], sys.argv[3:]
    out = ["py", ident, variant]
    for it in items:
        if variant == "norm":
            out.append(enc(it))
            continue
        kind, _, rest = it.partition("=")
        if kind == "set":
            path, _, js = rest.partition("=")
            out.append(f"set:{enc(path)}:{enc(js)}")
        elif kind == "msg":
            topic, payload, cd, code = rest.split("=")
            t = "R" if topic == "R" else enc(topic)
            if code not in ("-", "Ok", "Continue", "Error"):
                code = enc(code)
            out.append(f"msg:{t}:{enc(payload)}:{cd}:{code}")
        else:
            out.append(f"{kind}:{enc(rest)}")
    print(" ".join(out))


main()
