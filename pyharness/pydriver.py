#!/usr/bin/env python3
"""Line-protocol driver for the REAL Python Miniconf MQTT client (no broker).

stdin : py <id> async|sync <event> <event> ...
        py <id> norm <path> <path> ...
        py <id> clia|clis <arg> <arg> ...   (command-line arguments through the real _handle_commands)
stdout: <id> <outcome>                 (exactly one line per input line)

Strings inside tokens are code points joined by '.', `e` = empty string.

Events
  get:<path>  set:<path>:<json>  list:<path>  clear:<path>  dump:<path>
      start request k (k = 0,1,2.. in start order) via the public method and
      leave it in flight.  Its correlation data is bytes([k])*16.
  inpub:<n>
      the n `msg` events that follow the NEXT request event are dispatched while
      that request's publish() call is still in progress (async: while it is
      awaited; sync: before it returns), i.e. a response overtaking the return
      of publish().
  msg:<topic>:<payload>:<cd>:<code>      (<payload> = X<hex>: raw bytes, not necessarily UTF-8)
      topic  : R (client's response topic) | code points
      payload: code points (UTF-8 encoded before delivery)
      cd     : - (no CorrelationData) | r<k> | lowercase hex
      code   : - (no "code" user property) | Ok | Continue | Error | any other
               capitalised literal except K… | code points |
               K<key>~<value>;<key>~<value>…  raw user properties (code points)
      cd == - and code == -  ->  message.properties is None
      code != - and len(payload bytes) odd -> UserProperty = [(x,y),(code,..)]

Outcome
  r<k>=<result> ... inflight=<n> pubs=<topic|payload or -|0/1>,...
  result: ok:<json>                       return value, json.dumps compact
          exc:<Class>:<code>:<msg json>   MiniconfException
          exc:<Class>                     any other exception
          pending                         never completed
          timeout:<one of the above>      sync only: _do ran into its timeout
  <code> is json.dumps(code) without the surrounding quotes (identical to the
  raw string for plain codes such as `Error` or `Not a leaf`).

Environment knobs
  MINICONF_PY          path holding the `miniconf` package
                       (default /repo/py/miniconf-mqtt)
  PYDRIVER_SYNC_TIMEOUT  timeout= forwarded to sync _do   (default 0.2)
  PYDRIVER_SYNC_FAST=1   instead of sleeping through the timeout, wake the
                       blocked requests by setting their Event (the client
                       ignores Event.wait()'s return value, so this takes the
                       identical code path as a real timeout)
  PYDRIVER_ASYNC_GRACE   final grace period for async     (default 0.05)
  PYDRIVER_CASE_TIMEOUT  overall per-case limit           (default 5)
  PYDRIVER_PUBS_FULL=1   pubs entries become topic|payload|0/1|<response topic>|<cd hex>|<retain>
  PYDRIVER_LOG=1         let the miniconf logger print to stderr
"""

import asyncio
import json
import logging
import os
import sys
import threading
import uuid as _real_uuid

HERE = os.path.dirname(os.path.abspath(__file__))
sys.path.insert(0, os.environ.get("MINICONF_PY", "/repo/py/miniconf-mqtt"))
sys.path.insert(0, os.path.join(HERE, "stubs"))

import aiomqtt  # noqa: E402  (stub)
import paho.mqtt.client as paho_client  # noqa: E402  (stub)
from paho.mqtt.properties import Properties, PacketTypes  # noqa: E402  (stub)
import miniconf.async_ as mc_async  # noqa: E402  (REAL)
import miniconf.sync as mc_sync  # noqa: E402  (REAL)
import miniconf.common as mc_common  # noqa: E402  (REAL)

MiniconfException = mc_common.MiniconfException

PREFIX = "dt/sinara/dev"
SYNC_TIMEOUT = float(os.environ.get("PYDRIVER_SYNC_TIMEOUT", "0.2"))
SYNC_FAST = os.environ.get("PYDRIVER_SYNC_FAST", "") not in ("", "0")
ASYNC_GRACE = float(os.environ.get("PYDRIVER_ASYNC_GRACE", "0.05"))
CASE_TIMEOUT = float(os.environ.get("PYDRIVER_CASE_TIMEOUT", "5"))

if os.environ.get("PYDRIVER_LOG", "") in ("", "0"):
    mc_common.LOGGER.addHandler(logging.NullHandler())
    mc_common.LOGGER.propagate = False
else:
    logging.basicConfig(level=logging.DEBUG, stream=sys.stderr)

REQUEST_KINDS = ("get", "set", "list", "clear", "dump")


# --------------------------------------------------------------------------
# uuid monkeypatch: `uuid` as seen from miniconf.async_ / miniconf.sync
# --------------------------------------------------------------------------
class _FakeUUID:
    def __init__(self, data):
        self.bytes = data


class _FakeUuidModule:
    """uuid1() yields bytes([k])*16 where k is the request being started.

    k is set by the driver right before it starts request k (and not a plain
    call counter) because `dump` (response=0) never calls uuid1().
    """

    def __init__(self):
        self.k = 0

    def uuid1(self, *_a, **_kw):
        return _FakeUUID(cd_of(self.k))

    def __getattr__(self, name):
        return getattr(_real_uuid, name)


def cd_of(k):
    return bytes([k % 256]) * 16


FAKE_UUID = _FakeUuidModule()
mc_async.uuid = FAKE_UUID
mc_sync.uuid = FAKE_UUID


# --------------------------------------------------------------------------
# token coding
# --------------------------------------------------------------------------
def dec(tok):
    if tok == "e":
        return ""
    return "".join(chr(int(c)) for c in tok.split("."))


def enc(s):
    if s == "":
        return "e"
    return ".".join(str(ord(c)) for c in s)


def jdump(value):
    return json.dumps(value, separators=(",", ":"), default=repr)


def parse_event(tok):
    parts = tok.split(":")
    kind = parts[0]
    if kind in ("get", "list", "clear", "dump"):
        if len(parts) != 2:
            raise ValueError(tok)
        return kind, (dec(parts[1]),)
    if kind == "set":
        if len(parts) != 3:
            raise ValueError(tok)
        return kind, (dec(parts[1]), json.loads(dec(parts[2])))
    if kind == "inpub":
        if len(parts) != 2:
            raise ValueError(tok)
        return kind, (int(parts[1]),)
    if kind == "msg":
        if len(parts) != 5:
            raise ValueError(tok)
        return kind, tuple(parts[1:])
    raise ValueError(tok)


def build_message(response_topic, args):
    """-> (topic str, payload bytes, Properties|None)"""
    t_tok, p_tok, cd_tok, code_tok = args
    topic = response_topic if t_tok == "R" else dec(t_tok)
    payload = bytes.fromhex(p_tok[1:]) if p_tok.startswith("X") else dec(p_tok).encode("utf-8")
    if cd_tok == "-" and code_tok == "-":
        return topic, payload, None
    props = Properties(PacketTypes.PUBLISH)
    if cd_tok != "-":
        if cd_tok.startswith("r"):
            props.CorrelationData = cd_of(int(cd_tok[1:]))
        else:
            props.CorrelationData = bytes.fromhex(cd_tok)
    if code_tok.startswith("K"):
        # raw user properties as seen on the wire: K<key>~<value>;<key>~<value>...
        for kv in code_tok[1:].split(";"):
            k, v = kv.split("~")
            props.UserProperty = (dec(k), dec(v))
    elif code_tok != "-":
        if code_tok[:1].isalpha() and code_tok[:1].isupper():
            code = code_tok
        else:
            code = dec(code_tok)
        if len(payload) % 2 == 1:
            props.UserProperty = ("x", "y")
        props.UserProperty = ("code", code)
    return topic, payload, props


def fmt_result(done, value, exc):
    if not done:
        return "pending"
    if exc is None:
        return "ok:" + jdump(value)
    if isinstance(exc, MiniconfException):
        code = exc.code
        code = jdump(code)[1:-1] if isinstance(code, str) else jdump(code)
        return f"exc:{type(exc).__name__}:{code}:{jdump(exc.message)}"
    return f"exc:{type(exc).__name__}"


def fmt_pubs(published):
    out = []
    for rec in published:
        topic, payload, props = rec[0], rec[1], rec[2]
        if payload is None:
            ptxt = "-"
        else:
            if isinstance(payload, (bytes, bytearray)):
                payload = bytes(payload).decode("utf-8")
            ptxt = enc(str(payload))
        has_rt = 0
        if props is not None and "ResponseTopic" in props.json():
            has_rt = 1
        if os.environ.get("PYDRIVER_PUBS_FULL") == "1":
            # what actually goes on the wire: response topic, correlation data (hex), retain flag
            pj = props.json() if props is not None else {}
            rt = enc(pj["ResponseTopic"]) if "ResponseTopic" in pj else "-"
            cd = pj.get("CorrelationData", "-") or "e"
            out.append(f"{enc(topic)}|{ptxt}|{has_rt}|{rt}|{cd}|{int(bool(rec[3]))}")
        else:
            out.append(f"{enc(topic)}|{ptxt}|{has_rt}")
    return ",".join(out)


def fmt_outcome(results, inflight, published):
    fields = [f"r{k}={r}" for k, r in enumerate(results)]
    fields.append(f"inflight={inflight}")
    fields.append(f"pubs={fmt_pubs(published)}")
    return " ".join(fields)


def call_request(mc, kind, args, **kw):
    """Public method invocation (returns value or coroutine)."""
    if kind == "get":
        return mc.get(args[0], **kw)
    if kind == "set":
        return mc.set(args[0], args[1], **kw)
    if kind == "list":
        return mc.list(args[0], **kw)
    if kind == "clear":
        return mc.clear(args[0], **kw)
    if kind == "dump":
        return mc.dump(args[0], **kw)
    raise ValueError(kind)


# --------------------------------------------------------------------------
# async variant
# --------------------------------------------------------------------------
async def run_async(events):
    client = aiomqtt.Client("stub")
    mc = mc_async.Miniconf(client, PREFIX)
    for _ in range(10):
        await asyncio.sleep(0)
        if mc.subscribed.is_set():
            break
    tasks = []
    try:
        events = list(events)
        inpub = 0
        i = -1
        while i + 1 < len(events):
            i += 1
            kind, args = events[i]
            if kind == "inpub":
                inpub = args[0]
                continue
            if kind in REQUEST_KINDS:
                FAKE_UUID.k = len(tasks)
                npub = len(client.published)
                if inpub:
                    early = [a for k2, a in events[i + 1:i + 1 + inpub] if k2 == "msg"]
                    del events[i + 1:i + 1 + inpub]
                    inpub = 0

                    def hook(early=early):
                        for a in early:
                            t, p, pr = build_message(mc.response_topic, a)
                            mc._dispatch(aiomqtt.Message(t, p, pr))
                    client.publish_hook = hook
                task = asyncio.ensure_future(call_request(mc, kind, args))
                tasks.append(task)
                for _ in range(20):
                    await asyncio.sleep(0)
                    if (len(client.published) > npub and getattr(client, "publish_hook", None) is None) or task.done():
                        break
                for _ in range(4):
                    await asyncio.sleep(0)
            else:
                topic, payload, props = build_message(mc.response_topic, args)
                mc._dispatch(aiomqtt.Message(topic, payload, props))
                for _ in range(3):
                    await asyncio.sleep(0)
        for _ in range(5):
            await asyncio.sleep(0)
        pend = [t for t in tasks if not t.done()]
        if pend and ASYNC_GRACE > 0:
            await asyncio.wait(pend, timeout=ASYNC_GRACE)
        results = []
        for t in tasks:
            if not t.done():
                results.append(fmt_result(False, None, None))
            elif t.cancelled():
                results.append("exc:CancelledError")
            elif t.exception() is not None:
                results.append(fmt_result(True, None, t.exception()))
            else:
                results.append(fmt_result(True, t.result(), None))
        return fmt_outcome(results, len(mc._inflight), client.published)
    finally:
        # NB: not mc.close(): with requests in flight it raises TypeError
        # (asyncio.wait over (future, list) tuples).
        for t in tasks:
            t.cancel()
        mc.listener.cancel()
        await asyncio.gather(mc.listener, *tasks, return_exceptions=True)


# --------------------------------------------------------------------------
# sync variant
# --------------------------------------------------------------------------
class _SyncReq:
    def __init__(self, k):
        self.k = k
        self.cd = cd_of(k)
        self.thread = None
        self.value = None
        self.exc = None
        self.finished = False
        self.registered = False  # cd was entered into _inflight
        self.completed = False  # a dispatched final message removed the cd


def run_sync(events):
    client = paho_client.Client(None, protocol=mc_common.MQTTv5)
    mc = mc_sync.Miniconf(client, PREFIX)
    reqs = []

    def settle():
        """Join the threads whose request was completed by a dispatch."""
        for r in reqs:
            if r.registered and not r.completed and r.cd not in mc._inflight:
                # only _dispatch ever deletes entries
                r.completed = True
            if (r.completed or not r.registered) and r.thread.is_alive():
                r.thread.join(2.0)

    events = list(events)
    inpub = 0
    i = -1
    while i + 1 < len(events):
        i += 1
        kind, args = events[i]
        if kind == "inpub":
            inpub = args[0]
            continue
        if kind in REQUEST_KINDS:
            req = _SyncReq(len(reqs))
            FAKE_UUID.k = req.k
            if inpub:
                early = [a for k2, a in events[i + 1:i + 1 + inpub] if k2 == "msg"]
                del events[i + 1:i + 1 + inpub]
                inpub = 0

                def hook(early=early):
                    for a in early:
                        t, p, pr = build_message(mc.response_topic, a)
                        mc._dispatch(client, None, paho_client.MQTTMessage(0, t, p, pr))
                client.publish_hook = hook

            def target(req=req, kind=kind, args=args):
                try:
                    req.value = call_request(mc, kind, args,
                                             timeout=SYNC_TIMEOUT)
                except BaseException as e:  # noqa: BLE001
                    req.exc = e
                finally:
                    req.finished = True

            npub = len(client.published)
            client.pub_event.clear()
            req.thread = threading.Thread(target=target, daemon=True)
            reqs.append(req)
            req.thread.start()
            while (len(client.published) <= npub and req.thread.is_alive()):
                client.pub_event.wait(0.0005)
            req.registered = req.cd in mc._inflight
            settle()
        else:
            topic, payload, props = build_message(mc.response_topic, args)
            mc._dispatch(client, None,
                         paho_client.MQTTMessage(0, topic, payload, props))
            settle()

    # grace: blocked requests leave through _do's timeout
    if SYNC_FAST:
        for r in reqs:
            if r.thread.is_alive() and r.cd in mc._inflight:
                mc._inflight[r.cd][0].set()
    for r in reqs:
        if r.thread.is_alive():
            r.thread.join(SYNC_TIMEOUT + 0.5)

    results = []
    for r in reqs:
        if not r.finished:
            results.append(fmt_result(False, None, None))
            continue
        txt = fmt_result(True, r.value, r.exc)
        if r.registered and not r.completed:
            txt = "timeout:" + txt
        results.append(txt)
    return fmt_outcome(results, len(mc._inflight), client.published)


# --------------------------------------------------------------------------
# norm
# --------------------------------------------------------------------------
def run_norm(tokens):
    path = mc_common._Path()
    out = []
    for tok in tokens:
        try:
            out.append(enc(path.normalize(dec(tok))))
        except Exception as e:  # noqa: BLE001
            out.append(f"raise:{type(e).__name__}")
    return " ".join(out)


# --------------------------------------------------------------------------
# cli: the real `_handle_commands` of both clients against a recording interface
# --------------------------------------------------------------------------
class _RecIface:
    """records what the command-line front end asks of the client: L(ist) G(et) D(ump) C(lear) S(et)"""

    def __init__(self, log):
        self.log = log

    def _list(self, path):
        self.log.append("L" + enc(path))
        return []

    def _get(self, path):
        self.log.append("G" + enc(path))
        return 0

    def _dump(self, path):
        self.log.append("D" + enc(path))

    def _clear(self, path):
        self.log.append("C" + enc(path))
        return None

    def _set(self, path, value, retain=False):
        self.log.append("S" + enc(path) + "=" + enc(json.dumps(value, separators=(",", ":"), ensure_ascii=False)))


class _RecSync(_RecIface):
    def list(self, path):
        return self._list(path)

    def get(self, path):
        return self._get(path)

    def dump(self, path):
        return self._dump(path)

    def clear(self, path):
        return self._clear(path)

    def set(self, path, value, retain=False):
        return self._set(path, value, retain)


class _RecAsync(_RecIface):
    async def list(self, path):
        return self._list(path)

    async def get(self, path):
        return self._get(path)

    async def dump(self, path):
        return self._dump(path)

    async def clear(self, path):
        return self._clear(path)

    async def set(self, path, value, retain=False):
        return self._set(path, value, retain)


def run_cli(variant, tokens):
    import contextlib
    import io
    args = [dec(t) for t in tokens]
    log = []
    try:
        with contextlib.redirect_stdout(io.StringIO()):
            if variant == "clia":
                asyncio.run(mc_async._handle_commands(_RecAsync(log), args, False))
            else:
                mc_sync._handle_commands(_RecSync(log), args, False)
    except SystemExit:
        log.append("X")
    except Exception as e:  # noqa: BLE001
        log.append(f"raise:{type(e).__name__}")
    return " ".join(log) if log else "-"


# --------------------------------------------------------------------------
# main loop
# --------------------------------------------------------------------------
def run_case(variant, tokens):
    if variant == "norm":
        return run_norm(tokens)
    if variant in ("clia", "clis"):
        return run_cli(variant, tokens)
    events = [parse_event(t) for t in tokens]
    if variant == "async":
        async def limited():
            done, _ = await asyncio.wait(
                [asyncio.ensure_future(run_async(events))],
                timeout=CASE_TIMEOUT)
            if not done:
                return "hang"  # asyncio.run cancels the leftover task
            return done.pop().result()
        return asyncio.run(limited())
    if variant == "sync":
        return run_sync(events)
    raise ValueError(variant)


def guarded(variant, tokens):
    """Run a case in a worker thread; never hang, never raise."""
    box = {}

    def target():
        try:
            box["out"] = run_case(variant, tokens)
        except BaseException as e:  # noqa: BLE001
            box["out"] = f"crash:{type(e).__name__}"

    th = threading.Thread(target=target, daemon=True)
    th.start()
    th.join(CASE_TIMEOUT + 1.0)
    if th.is_alive():
        return "hang"
    return box.get("out", "crash:NoResult")


def main():
    for line in sys.stdin:
        toks = line.split()
        if len(toks) < 3 or toks[0] != "py":
            ident = toks[1] if len(toks) > 1 else "-"
            out = "crash:BadInput"
        else:
            ident = toks[1]
            out = guarded(toks[2], toks[3:])
        sys.stdout.write(f"{ident} {out}\n")
        sys.stdout.flush()


if __name__ == "__main__":
    main()
