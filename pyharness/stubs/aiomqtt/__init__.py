"""Stub of aiomqtt: Client / Message / MqttError / Topic (no network)."""
import asyncio


class MqttError(Exception):
    pass


class MqttCodeError(MqttError):
    pass


class Topic:
    def __init__(self, value):
        self.value = value

    def __str__(self):
        return self.value

    def __repr__(self):
        return f"Topic({self.value!r})"


class Message:
    def __init__(self, topic, payload=b"", properties=None, qos=0,
                 retain=False, mid=0):
        self.topic = topic if isinstance(topic, Topic) else Topic(topic)
        self.payload = payload
        self.properties = properties
        self.qos = qos
        self.retain = retain
        self.mid = mid


class _Messages:
    """Async-iterable fed from an asyncio.Queue (created lazily in-loop)."""

    def __init__(self):
        self._queue = None

    @property
    def queue(self):
        if self._queue is None:
            self._queue = asyncio.Queue()
        return self._queue

    def __aiter__(self):
        return self

    async def __anext__(self):
        item = await self.queue.get()
        if isinstance(item, BaseException):
            raise item
        return item


class Client:
    def __init__(self, hostname=None, *a, protocol=None, **kw):
        self.hostname = hostname
        self.subscriptions = []
        self.published = []  # (topic, payload, properties, retain, extra kw)
        self.messages = _Messages()

    async def __aenter__(self):
        return self

    async def __aexit__(self, *exc):
        return None

    def feed(self, message):
        """Driver aid: enqueue a Message (or an exception) for `messages`."""
        self.messages.queue.put_nowait(message)

    async def subscribe(self, topic, *a, **kw):
        self.subscriptions.append(topic)
        return (0,)

    async def unsubscribe(self, topic, *a, **kw):
        if topic in self.subscriptions:
            self.subscriptions.remove(topic)

    async def publish(self, topic, payload=None, properties=None,
                      retain=False, **kw):
        self.published.append((topic, payload, properties, retain, kw))
        # driver aid: messages that reach the listener while publish() is still awaiting
        hook, self.publish_hook = getattr(self, "publish_hook", None), None
        if hook is not None:
            import asyncio
            await asyncio.sleep(0)
            hook()
            await asyncio.sleep(0)
