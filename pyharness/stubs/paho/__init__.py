"""Stub of the `paho` namespace package (only what miniconf-mqtt touches)."""
