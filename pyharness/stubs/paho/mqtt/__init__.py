"""Stub of `paho.mqtt`.

miniconf.common does `import paho.mqtt` and then dereferences
`paho.mqtt.enums...`; miniconf.sync dereferences `paho.mqtt.enums` too, so the
submodules must be imported here (the real package does the same for enums).
"""
from . import enums, properties, client  # noqa: F401


class MQTTException(Exception):
    pass
