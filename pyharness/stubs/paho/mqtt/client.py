"""Stub of paho.mqtt.client: Client / MQTTMessage (no network, no threads)."""
import threading


class MQTTMessage:
    def __init__(self, mid=0, topic="", payload=b"", properties=None):
        if isinstance(topic, bytes):
            topic = topic.decode("utf-8")
        self.mid = mid
        self.topic = topic
        self.payload = payload
        self.properties = properties
        self.qos = 0
        self.retain = False
        self.dup = False


class MQTTMessageInfo:
    def __init__(self, mid):
        self.mid = mid
        self.rc = 0

    def wait_for_publish(self, timeout=None):
        return None

    def is_published(self):
        return True


class Client:
    """Records subscriptions and publications; acks (un)subscribe inline."""

    def __init__(self, callback_api_version=None, client_id="", protocol=None,
                 **_kw):
        self.on_message = None
        self.on_subscribe = None
        self.on_unsubscribe = None
        self.subscriptions = []
        self.published = []  # (topic, payload, properties, retain, qos)
        self.pub_event = threading.Event()  # set on every publish (driver aid)
        self._mid = 0

    def connect(self, *a, **kw):
        return 0

    def disconnect(self, *a, **kw):
        return 0

    def loop_start(self):
        return 0

    def loop_stop(self):
        return 0

    def subscribe(self, topic, qos=0, options=None, properties=None):
        self._mid += 1
        self.subscriptions.append(topic)
        cb = self.on_subscribe
        if cb is not None:
            cb(self, None, 1, [0], None)
        return (0, self._mid)

    def unsubscribe(self, topic, properties=None):
        self._mid += 1
        if topic in self.subscriptions:
            self.subscriptions.remove(topic)
        cb = self.on_unsubscribe
        if cb is not None:
            cb(self, None, 1, [0], None)
        return (0, self._mid)

    def publish(self, topic, payload=None, qos=0, retain=False,
                properties=None):
        self._mid += 1
        self.published.append((topic, payload, properties, retain, qos))
        # driver aid: messages the network thread dispatches before publish() has returned
        hook, self.publish_hook = getattr(self, "publish_hook", None), None
        if hook is not None:
            hook()
        self.pub_event.set()
        return MQTTMessageInfo(self._mid)
