import enum


class MQTTProtocolVersion(enum.IntEnum):
    MQTTv31 = 3
    MQTTv311 = 4
    MQTTv5 = 5


class CallbackAPIVersion(enum.Enum):
    VERSION1 = 1
    VERSION2 = 2
