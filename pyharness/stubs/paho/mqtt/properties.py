"""Stub of paho.mqtt.properties: Properties / PacketTypes.

Behaviour copied from the real paho (v2) for the part miniconf uses:
  * attribute assignment with the "compressed" property names,
  * UserProperty / SubscriptionIdentifier accumulate into a list,
  * json() renders only the properties that were set; CorrelationData bytes
    are rendered as lowercase hex.
"""


class MQTTException(Exception):
    pass


class PacketTypes:
    indexes = range(1, 16)
    (CONNECT, CONNACK, PUBLISH, PUBACK, PUBREC, PUBREL, PUBCOMP, SUBSCRIBE,
     SUBACK, UNSUBSCRIBE, UNSUBACK, PINGREQ, PINGRESP, DISCONNECT,
     AUTH) = indexes
    WILLMESSAGE = 99


class Properties:
    # same order as the real paho `names` table (json() iterates in this order)
    _NAMES = [
        "PayloadFormatIndicator",
        "MessageExpiryInterval",
        "ContentType",
        "ResponseTopic",
        "CorrelationData",
        "SubscriptionIdentifier",
        "SessionExpiryInterval",
        "AssignedClientIdentifier",
        "ServerKeepAlive",
        "AuthenticationMethod",
        "AuthenticationData",
        "RequestProblemInformation",
        "WillDelayInterval",
        "RequestResponseInformation",
        "ResponseInformation",
        "ServerReference",
        "ReasonString",
        "ReceiveMaximum",
        "TopicAliasMaximum",
        "TopicAlias",
        "MaximumQoS",
        "RetainAvailable",
        "UserProperty",
        "MaximumPacketSize",
        "WildcardSubscriptionAvailable",
        "SubscriptionIdentifierAvailable",
        "SharedSubscriptionAvailable",
    ]
    _MULTI = ("UserProperty", "SubscriptionIdentifier")
    _PRIVATE = ("packetType",)

    def __init__(self, packetType):
        object.__setattr__(self, "packetType", packetType)

    def allowsMultiple(self, compressedName):
        return compressedName in self._MULTI

    def __setattr__(self, name, value):
        name = name.replace(" ", "")
        if name in self._PRIVATE:
            object.__setattr__(self, name, value)
            return
        if name not in self._NAMES:
            raise MQTTException(
                f"Property name must be one of {self._NAMES}")
        if name in self._MULTI:
            if not isinstance(value, list):
                value = [value]
            if name in self.__dict__:
                value = self.__dict__[name] + value
        self.__dict__[name] = value

    def json(self):
        data = {}
        for name in self._NAMES:
            if name in self.__dict__:
                val = self.__dict__[name]
                if name == "CorrelationData" and isinstance(val, bytes):
                    data[name] = val.hex()
                else:
                    data[name] = val
        return data

    def isEmpty(self):
        return not any(n in self.__dict__ for n in self._NAMES)

    def clear(self):
        for n in self._NAMES:
            self.__dict__.pop(n, None)

    def __str__(self):
        return "[" + ", ".join(
            f"{n} : {self.__dict__[n]}" for n in self._NAMES
            if n in self.__dict__) + "]"

    __repr__ = __str__
