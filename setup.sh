#!/bin/sh
# Build the framework from files on disk only (offline).
set -e
cd "$(dirname "$0")"
export CARGO_NET_OFFLINE=true
python3 - <<'PY'
import sys, os
sys.path.insert(0, os.path.join(os.getcwd(), "checker"))
import common
fails = common.regen()
for f in fails:
    print("translator failure:", f)
PY
python3 harness/gen/typegen.py
(cd lean && lake build MiniconfVerif driver)
[ -f harness/Cargo.lock ] || cp /repo/Cargo.lock harness/Cargo.lock
(cd harness && cargo build --offline --quiet && cargo build --offline --quiet --release)
echo setup-ok
