#!/bin/bash
# usage: tools/confirm_mutation.sh <mutation dir with patch.diff + demo.rs> <name> [crate]
# Confirms in a scratch worktree: compiles + suite passes with the patch, demo fails with it and passes without.
set -u
dir="$1"; name="$2"; crate="${3:-miniconf}"
wt=/tmp/confirm_$name
export CARGO_NET_OFFLINE=true CARGO_TARGET_DIR=$wt/target
git -C /repo worktree add -q --detach "$wt" HEAD || exit 2
res="$dir/confirm.txt"; : > "$res"
cd "$wt"
mkdir -p "$crate/tests"; cp "$dir/demo.rs" "$crate/tests/demo.rs"
feat="--features json-core,derive,postcard"; [ "$crate" = miniconf ] || feat=""
( cd $crate && cargo test --offline $feat --test demo 2>&1 | grep -E "^test result" | head -8 ) > /tmp/confirm_$name.without 2>&1
echo "demo WITHOUT patch: $(grep -c 'test result: ok' /tmp/confirm_$name.without) ok-lines / $(grep -c 'FAILED' /tmp/confirm_$name.without) failed-lines" >> "$res"
git apply "$dir/patch.diff" || { echo "patch does not apply" >> "$res"; }
( cd $crate && cargo test --offline $feat --test demo 2>&1 | grep -E "^test result" | head -8 ) > /tmp/confirm_$name.with 2>&1
echo "demo WITH patch: $(grep -c 'test result: ok' /tmp/confirm_$name.with) ok-lines / $(grep -c 'FAILED' /tmp/confirm_$name.with) failed-lines" >> "$res"
rm "$crate/tests/demo.rs"
cargo test --workspace --no-fail-fast --offline 2>&1 | grep -E "^test result|^test .*FAILED" > /tmp/confirm_$name.suite
echo "suite WITH patch: passed=$(awk '/^test result/ {s+=$4} END {print s}' /tmp/confirm_$name.suite) failed=$(awk '/^test result/ {s+=$6} END {print s}' /tmp/confirm_$name.suite) failing: $(grep FAILED /tmp/confirm_$name.suite | grep '^test ' | tr '\n' ';')" >> "$res"
cd /
git -C /repo worktree remove --force "$wt"
rm -f /tmp/confirm_$name.*
cat "$res"
