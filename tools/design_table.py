#!/usr/bin/env python3
"""Rewrite the seeded-changes table of DESIGN.md (between the two markers) from seeded/*/*/meta.json."""
import glob
import json
import os

V = os.path.dirname(os.path.dirname(os.path.abspath(__file__)))
rows = ["| property / change | what was changed | what it needs to manifest | caught by |", "|---|---|---|---|"]
for f in sorted(glob.glob(os.path.join(V, "seeded", "*", "*", "meta.json"))):
    d = json.load(open(f))
    k = f.split("/")[-2].replace("mutation_", "m")
    rows.append(f"| {d['property']} {k} | {d['change']} | {d['needs_to_manifest']} | {d['caught_by']} |")
p = os.path.join(V, "DESIGN.md")
s = open(p).read()
b, e = "<!-- seeded-table-begin -->", "<!-- seeded-table-end -->"
i, j = s.index(b), s.index(e)
s = s[:i + len(b)] + "\n" + "\n".join(rows) + "\n" + s[j:]
open(p, "w").write(s)
print(len(rows) - 2, "rows")
