import MiniconfVerif.Gen.Impls
import MiniconfVerif.Lemmas.GenTie
import MiniconfVerif.Lemmas.WalkStruct

/-! The type-level traversal of the model (`Schema.traverse` at a node / an array) agrees with
`TreeKey::traverse_by_key` of the built-in containers **as translated from impls.rs** (`Gen/Impls.lean`,
`extract/gen_impls.py`): tuples of every arity of the source, arrays, `Result`, `Bound`, `Range`,
`RangeInclusive`, `RangeFrom`, `RangeTo`.  This also fixes, inside Lean, which schema each of these Rust types
*is* (lookup and children), which elsewhere is only the generator's (`spec.schema`) reading. -/
namespace MiniconfVerif.GenTie
open MiniconfVerif MiniconfVerif.Gen MiniconfVerif.Gen.Core

def lookupOfGen : KeyLookup → Lookup
  | .Named ns => .named ns
  | .Numbered n => .numbered n
  | .Homogeneous n => .homog n

@[simp] theorem lookupOfGen_toGen (lk : Lookup) : lookupOfGen (lookupToGen lk) = lk := by cases lk <;> rfl

/-- the model's key source as `Keys::next` of the translated impls (a panicking `next` is excluded by hypothesis
where this is used; it is mapped to an arbitrary error here) -/
def keysNextM (ks : KeySrc) (lk : KeyLookup) : Except Traversal Nat × KeySrc :=
  match ks.next (lookupOfGen lk) with
  | .ok (i, ks') => (.ok i, ks')
  | .error e => (.error ((travToGen e).getD (.NotFound 0)), ks)

/-- the model's callback as the `FnMut(usize, Option<&str>, NonZero<usize>) -> Result<(), ()>` of the source -/
def funcM {σ : Type} (cb : σ → CbArg → Option σ) (st : σ) (i : Nat) (n : Option String) (l : Nat) : Except Unit σ :=
  match cb st ⟨i, n, l⟩ with
  | some st' => .ok st'
  | none => .error ()

/-- a translated child traversal and a model child traversal that return the same thing -/
def ChildRel {σ : Type} (child : KeySrc → σ → Except (Error Unit) Nat × σ) (c : KeySrc → σ → Res × σ) : Prop :=
  ∀ ks st, (resOfGen (child ks st).1, (child ks st).2) = c ks st

/-- one node of the model's traversal with the children abstracted -/
def nodeStep {σ : Type} (cb : σ → CbArg → Option σ) (lk : Lookup) (children : List (KeySrc → σ → Res × σ))
    (ks : KeySrc) (st : σ) : Res × σ :=
  match ks.next lk with
  | .error e => (.trav e, st)
  | .ok (i, ks') =>
    match cb st ⟨i, lk.name? i, lk.len⟩ with
    | none => (.inner 1, st)
    | some st' =>
      match children[i]? with
      | some c => let r := c ks' st'; (r.1.incr, r.2)
      | none => (.trav (.panic "unreachable"), st')

theorem traverse_go_eq {σ : Type} (cb : σ → CbArg → Option σ) (cs : List Schema) (i : Nat) (ks : KeySrc) (st : σ) :
    Schema.traverse.go cb cs i ks st =
      match (cs.map fun c => c.traverse cb)[i]? with
      | some c => c ks st
      | none => (.trav (.panic "unreachable"), st) := by
  induction cs generalizing i with
  | nil => simp [Schema.traverse.go]
  | cons c cs ih =>
    cases i with
    | zero => simp [Schema.traverse.go]
    | succ i => simp [Schema.traverse.go, ih]

theorem traverse_node_eq {σ : Type} (cb : σ → CbArg → Option σ) (lk : Lookup) (cs : List Schema) (ks : KeySrc) (st : σ) :
    Schema.traverse cb (.node lk cs) ks st = nodeStep cb lk (cs.map fun c => c.traverse cb) ks st := by
  simp only [Schema.traverse, nodeStep]
  cases h : ks.next lk with
  | error e => rfl
  | ok p =>
    obtain ⟨i, ks'⟩ := p
    simp only
    cases hcb : cb st ⟨i, lk.name? i, lk.len⟩ with
    | none => rfl
    | some st' =>
      simp only [traverse_go_eq]
      cases (cs.map fun c => c.traverse cb)[i]? <;> rfl

theorem resOfGen_incr (r : Except (Error Unit) Nat) : resOfGen (Error.increment_result r) = (resOfGen r).incr :=
  increment_result_tie r

/-- what a translated `traverse_by_key` returned, read as the model's result (`none` = it panicked) -/
def outOfP {σ : Type} : P (Except (Error Unit) Nat × σ) → Option (Res × σ)
  | .val (r, s) => some (resOfGen r, s)
  | .panic _ => none

theorem childRel_apply {σ : Type} {child : KeySrc → σ → Except (Error Unit) Nat × σ} {c : KeySrc → σ → Res × σ}
    (h : ChildRel child c) (ks : KeySrc) (st : σ) :
    (resOfGen (Error.increment_result (child ks st).1), (child ks st).2) = ((c ks st).1.incr, (c ks st).2) := by
  rw [resOfGen_incr, ← h ks st]

