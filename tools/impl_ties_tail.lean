
/-- `<[T; N] as TreeKey>::traverse_by_key` of the source = the model's traversal of `array n c` -/
theorem array_traverse_tie {σ : Type} (cb : σ → CbArg → Option σ) (n : Nat) (c : Schema) (ks : KeySrc) (st : σ)
    (child0 : KeySrc → σ → Except (Error Unit) Nat × σ) (h0 : ChildRel child0 (c.traverse cb)) (hn : 0 < n)
    (hnp : ∀ s, ks.next (.homog n) ≠ .error (.panic s)) :
    outOfP (Impls.array.traverse_by_key keysNextM (funcM cb) n child0 ks st) =
      some (Schema.traverse cb (.array n c) ks st) := by
  have hne : n ≠ 0 := by omega
  simp only [Schema.traverse, Impls.array.traverse_by_key, Impls.KeyLookup.homogeneous, nonZeroNew, hne, ↓reduceIte,
    keysNextM, lookupOfGen]
  cases hnext : ks.next (.homog n) with
  | error e =>
    cases e with
    | panic s => exact absurd hnext (hnp s)
    | _ => simp [outOfP, resOfGen, travToGen, travOfGen]
  | ok p =>
    obtain ⟨i, ks'⟩ := p
    simp only [KeyLookup.len, funcM]
    cases hcb : cb st ⟨i, none, n⟩ with
    | none => simp [Except.mapError, hcb, outOfP, resOfGen]
    | some st' => simp [Except.mapError, hcb, outOfP, childRel_apply h0]

end MiniconfVerif.GenTie
