#!/usr/bin/env python3
"""Regenerate /verif/MANIFEST.json from the table below (keeps it schema-valid)."""
import json
import os

V = os.path.dirname(os.path.dirname(os.path.abspath(__file__)))
props = [json.loads(l) for l in open(os.path.join(V, "properties.jsonl"))]

CLAIMED = {
    "C08": dict(
        text="Lean 4 theorems (push/pop refinement to an abstract (len,content) stack, unbounded push/pop sequence round "
             "trip by list induction, LSB bijection, bits_for minimality) about definitions REGENERATED from packed.rs on "
             "every run; every run also executes the real Packed, the Lean model and a big-int oracle on the same "
             "push/pop/lsb sequences."
             ' constructors: new / new_from_lsb refuse exactly zero, new_from_lsb inverts into_lsb and is defined on every non-zero word, clear gives the empty key.',
        note="Trusted: Lean kernel; bv_decide axioms for single-word lemmas; the Rust-expression translator "
             "extract/gen_packed.py; 64-bit usize; harness pk.rs and the Python stack oracle.",
        tech="machine-checked proof in Lean 4 (bv_decide word lemmas + list induction) over a model regenerated from "
             "source, plus model-vs-implementation correspondence run"),
    "C15": dict(
        text="Lean 4 theorems for every separator char and every Unicode string: PathIter = split-at-every-separator "
             "minus first segment (with a characterisation of the split spec), no slice off a char boundary, fused; "
             "JsonPathIter parses any mixture of the four notations of delimiter-free names back to the names, never "
             "panics, is fused and terminates. Model hand-written with byte-offset slicing; each run executes model and "
             "implementation on all strings up to length 5 (6 thorough) over an 8-symbol alphabet."
             " source_iterators_are_model: PathIter::next and JsonPathIter::next as TRANSLATED from node.rs / jsonpath.rs on every run (byte-offset arithmetic, the four rules in source order) equal the model's next / jnext for every separator, text and state.",
        note="Trusted: Lean kernel; the Rust-subset translator (extract/minirust.py, rust2lean.py, gen_text.py) and its assumed "
             "semantics of core::str operations (Model/PathIter.lean primitives, validated by the correspondence run); Python str.split oracle.",
        tech="machine-checked proof in Lean 4 (induction on List Char with byte-offset lemmas) + exhaustive "
             "model-vs-implementation correspondence run"),

    "C03": dict(
        text="Lean 4 theorem nodes_enumerates_leaves: for every well-formed type, every state depth D >= max_depth and every target that does not run out of capacity, polling a fresh NodeIter n times returns exactly the first n leaves in depth-first declaration order (each once, nothing in between, each with the target transcoded along that very leaf and its depth) and None from then on, for every n; plus: yielded target = transcoding of the leaf's own key; (), index arrays accept; leaves = orbit of the odometer successor, listed in strictly increasing lexicographic order without duplicates (leaves_sorted); an index path is enumerated iff it resolves to a leaf (leaf_iff_enumerated); leaf count = Metadata.count. Proof: successor-with-carry orbit (Lemmas/Enum), traversal of the state array as a pure recursion (IdxWalk), induction over the carry chain (IterEnum). Every run compares the complete item sequence of nodes::<N,D>() for 7 target representations on every corpus type with the model and a brute-force enumeration, and evaluates the theorem's hypotheses (WF, Small) on every corpus type.",
        note='Model of NodeIter/traverse_by_key is hand-written and tied by the correspondence run. Trusted: Lean kernel, typegen.py/spec.py, rt.rs.',
        tech='Lean 4 proof (successor orbit + carry-chain induction over a hand-written model) + model-vs-implementation correspondence and schema-enumeration oracle'),
    "C04": dict(
        text="Lean 4 theorems: chaining = concatenation (bisimulation of key sources); traverse_factor: every traversal with any key source factors through a valid node path with exactly one callback per consumed key carrying that level's index, name and sibling count (callback_once_per_key: Ok depth = number of callbacks); any_key_any_target: what a target with enough capacity holds is a function of that path only, equal to what the position tuple produces, so all keys of one node are interchangeable; index_form_is_position (+ fixpoint); packed_form_resolves (the packed form decodes back to the node); path_text_roundtrip and jsonpath_text_roundtrip (render along the node path, split with the iterators of C15, look names / decimal indices up again = the same walk as the position tuple). Every run transcodes every node of every corpus type between 9 source and 10 target representations, checks the recording callback and Chain at every split point."
             " source_key_find_is_model: <str as Key>::find and the integer Key impls as TRANSLATED from key.rs on every run equal the model's Key.find."
             " source_transcode_callbacks_are_model: the traversal callbacks of Transcode for Path / JsonPath as TRANSLATED from node.rs / jsonpath.rs fail exactly when the model's Target.cb does and leave exactly its buffer."
             " source_keys_are_model: Keys for KeysIter / Packed / Chain / Consume and the Transcode-for-Packed callback as TRANSLATED from key.rs / iter.rs / packed.rs equal the model's KeySrc.next / finalize and Target.cb (compositionally for Chain / Consume). The run also chains a failing first part before a second part that would resolve, and surplus keys in the second part.",
        note="Separator / delimiter characters must not occur in the key texts on the path (the code debug_asserts this). bv_decide axioms via the packed-word lemmas.",
        tech='Lean 4 proof (factorisation by schema induction, bisimulation) + exhaustive-over-corpus correspondence and oracle'),
    "C06": dict(
        text="Lean 4 theorems for every schema: count = number of leaves; max_depth, max_bits and max_length are each attained by some leaf and exceeded by none (generic per-level weights, digits monotone); buffers_suffice: an index array of max_depth slots holds every node's key (= its position tuple) and, when max_bits <= 63, a packed word holds every node's key using at most max_bits bits; path_buffer_suffices: a Path buffer of max_length + max_depth separators holds the Path of every node. Every run compares Metadata and a recording Walk with brute force on every corpus type (array lengths straddling powers of 2 and 10) and transcodes every node into buffers sized from the metadata."
             " source_internal_is_model / source_internal_array_is_model / source_leaf_and_max_length: <Metadata as Walk>::internal, leaf and Metadata::max_length as TRANSLATED from walk.rs on every run never panic on a well-formed node and return exactly the model's merge (all four fields)."
             ' walker_sees_every_node: for an ARBITRARY Walk implementation traverse_all is the evaluation of the walker on the declared structure (every internal node once, bottom-up, children in order, its lookup).',
        note='bv_decide axioms via the packed-word lemmas. Assumes count < 2^64.',
        tech='Lean 4 proof by structural induction + correspondence/oracle run'),
    "C09": dict(
        text="Lean 4 theorems on the definitions regenerated from packed.rs: encode (for every node whose bit weight fits, Transcode-for-Packed succeeds without panic, = pushAll of the path's fields, uses exactly the path's bit weight), decode (the packed key used as a key walks to exactly that node: kind, depth, indices), unique (distinct nodes, distinct keys), bounded (weight <= max_bits, attained), order (the packed keys of the leaves in iteration order are strictly increasing), append_stable (appending children without changing a level's width leaves existing keys unchanged), level_roundtrip. Every run checks value, decode, uniqueness, order and width of the packed key of every node of every corpus type.",
        note='bv_decide axioms as in C08. max_bits <= 63.',
        tech='Lean 4 proof (bv_decide word lemmas + list/path induction) + correspondence/oracle run'),
    "C11": dict(
        text="Lean 4 theorems for every well-formed type: limited_exact (for EVERY depth limit D and every target whose callbacks do not panic, polling yields, in order and once each, one item per leaf of the type cut off at depth D — depth_limited_items: exactly the leaves of depth <= D and the internal nodes at depth D — as the node with the transcoded target, or Err(depth) where the target refused the key at that depth; then None for ever; at most D+2 loop passes per call, no panic site); rooted_exact (iteration rooted at the node any key denotes = the leaves at or below it, by simulation with the subtree's iterator); full_depth_exact; exact_size_remaining; fused; targets_do_not_panic ((), index arrays of any capacity). Every run iterates every corpus type for every depth limit, every (sampled) node as root in several key representations, index/path capacities from 0 to sufficient, polling past the end."
             " source_next_is_model: one pass through the loop of NodeIter::next as TRANSLATED from iter.rs on every run (statement-level Rust-subset translator, the two transcode calls as parameters) equals the model's IterSt.step for every type, target, depth limit and state; NodeIter::default likewise."
             ' rooted_limited_exact: root() analysed for EVERY state length D; the rooted iterator yields exactly the subtree cut off at depth D - |root| (capacity errors as Err(depth)), lifted by the root depth, then None for ever.'
             " source_iteration_is_model / source_nodes_enumerate_leaves: the translated loop RUN AS WRITTEN (body iterated until it returns) equals IterSt.next, n calls equal IterSt.poll, the translated ExactSize around it equals exactCounts; end to end the translated NodeIter::default() polled n times yields exactly the first n leaves."
             " source_root_is_model: NodeIter::root as TRANSLATED from iter.rs equals the model's withRoot for an ARBITRARY previous iterator state (finding F6, fixed in 7b5905b: re-rooting a used iterator skipped leaves); every run re-roots used and already rooted iterators (H<pre>;<root>;... histories)."
             " source_exact_size_is_model: ExactSize::next over any inner iterator and NodeIter::exact_size as TRANSLATED from iter.rs (debug profile) equal the model's exactCounts and the driver's panic conditions.",
        note="The transcoding calls inside NodeIter::next are parameters of the translated loop body (tied to the model's transcoding by hypothesis).",
        tech='Lean 4 proof (generalised enumeration theorem over the cut-off type, simulation for roots) + correspondence and brute-force oracle'),

    "C01": dict(
        text='Lean 4 theorems on the value-level walk model (every container/wrapper/attribute, every runtime state, every key source, arbitrary (de)serializer): failed_access_changes_nothing; read_never_modifies; at_most_one_leaf_changes (frame: after any access the tree is identical except for the value of at most one leaf); read_after_write (after a write that stored v, every successful read through the same key or any step-wise equivalent key source returns v, also after the documented exceptions); chain_equivalent. Every run executes random read/write histories on every instance and compares whole-tree snapshots with the Lean model and an independent Python reference interpreter; the hypotheses (Tree.WF) are evaluated on every corpus instance.'
             ' histories: after any sequence of by-key accesses the tree is the initial tree except for leaf values (structure, attributes, runtime state and type unchanged); a history of reads leaves it identical.'
             " source_array_access_is_model / source_tuple_access_is_model / source_option_access_is_model / source_result_bound_access_is_model: the value-level by-key functions of [T; N], the n-tuples, Range*, Option, Result and Bound as TRANSLATED from impls.rs on every run do not panic and equal the model's walk at the corresponding node (the designated child, and only it, is read or replaced). source_derive_access_is_model: the four by-key functions GENERATED by the derive (macro crate's own source run on every corpus type) for every attribute-free struct / tuple struct, translated, are Tree.walk at the node (only the designated field is read or replaced); every generated arm of every derived type is compared with the definition (derive_reading_check).",
        note='Accessors/validators must not alias other fields (generated ones own their storage).',
        tech='Lean 4 proof by mutual structural induction over the nested tree + snapshot-based correspondence/oracle'),
    "C02": dict(
        text='Lean 4 theorems: one_walk (for every well-formed tree, runtime state, operation, codec and key source the result is either pre-empted by something state/value dependent, or exactly the outcome of the type-level traversal of the erased type); operations_agree (any two operations/codecs/states of one type agree unless pre-empted); structural_depths (Ok/TooShort/TooLong carry the number of keys consumed, NotFound one more); indices_in_range; the per-node step order as equations. Every run compares serialize/deserialize/ref_any/mut_any outcomes on every instance x node path x malformed key alphabet x key representation with the model and the independent Python top-down interpreter.'
             " source_bookkeeping_is_model and source_containers_are_model: Traversal::increment/depth, Error::increment_result, KeyLookup::lookup/len, Node::try_from and TreeKey::traverse_by_key of every built-in container (tuples 1-8, arrays, Result, Bound, Range*), as TRANSLATED from error.rs / key.rs / node.rs / impls.rs on every run, equal the model's definitions (the transparent wrappers are checked to be plain delegations)."
             " source_leaves_are_model: the by-key functions of Leaf / StrLeaf / Deny as TRANSLATED from leaf.rs equal the model's walk at a leaf (surplus keys before the value, Inner(0), value changes exactly on success). source_derive_is_model: for every struct/enum of the corpus the OUTPUT of #[derive(TreeKey)] (the macro crate's own source, run by /verif/expander on every run) is translated and proved equal to the model's traversal at the node the declaration denotes (one generated theorem per type); every generated value-level arm (place, accessor, validator, denial, variant) is compared with the definition. source_wrappers_are_model: the value-level impls of Option/Box/Cow/Cell/RefCell/Rc/Arc/Weak/Mutex/RwLock and their reference forms, translated from impls.rs on every run into an accessor table, equal the model's gateErr in every runtime state of the wrapper.",
        note='The depth of pre-empting errors (Absent/Access/Invalid) is given by the step equations and the run, not by a global theorem.',
        tech='Lean 4 proof (mutual induction relating the value-level walk to the type-level traversal) + three-way differential run'),
    "C05": dict(
        text='Lean 4 theorems on the codec model: json_roundtrip (every integer width incl. extremes, bool, unit, Option of non-nullable types, strings without escapes, arrays, nested structs, string-tagged enums: decoding the canonical text returns the value and exactly the continuation), json_set_of_get (clean finalisation, exact byte count), postcard_roundtrip (LEB128 + zig-zag for every width, raw byte for 8 bit, bool, unit, Option, arrays, structs, enums), varint_roundtrip, write_back_identity, read_back, small_buffer_no_partial. Every run writes every sample value to every leaf, reads it back with every buffer length, writes the read text back, and does the same through postcard.'
             ' postcard_roundtrip now covers strings of any Unicode text (UTF-8 encoder/decoder round trip proved). source_helpers_are_model: json::{set,get}_by_key and postcard::{set,get}_by_key as TRANSLATED from json.rs / postcard.rs (third-party (de)serializer abstract) equal the model glue: write first, finalization check last, Error::Finalization wraps only the latter, the tree is what the write left.',
        note='serde-json-core / postcard / ryu are modelled, not verified (tied by the differential run). Not theorems: floats (opaque), postcard strings (UTF-8), JSON escapes.',
        tech='Lean 4 proof (digit/varint inductions, mutual induction over values) over a hand-written codec model + exhaustive-over-corpus correspondence'),
    "C12": dict(
        text='Lean 4 theorems: call_order (for every tree/state/operation/key the call log is a block of accessor calls followed by a block of validator calls); validators_only_after_success (any result other than Ok or a validator rejection means no validator ran); validators_only_on_de; field-level protocol as equations (deny stops with Access before any accessor, failing accessor is called once and stops the walk, reads use get / writes use get_mut, validator receives the depth from below and may keep/replace/reject). Every run drives all single, pairwise and random gate combinations on every attributed type and compares the real call log. source_derive_arms_are_model: every arm the derive GENERATES for an attributed field (read from the macro crate\'s own output on every run; Err(Access) under a deny, accessor.map_err(Access).and_then(child)[.and_then(validate.map_err(Invalid))]) evaluated with Result::and_then / map_err semantics equals the model\'s field step (result and callback log), and for every derived corpus type the generated arms are the ones its declared attributes require (kernel-checked table, regenerated every run).',
        note="'Each at most once' per field follows from the recursion (one call site per level) and is checked by the run.",
        tech='Lean 4 proof (mutual structural induction + unfolding equations) + call-log correspondence/oracle'),
    "C16": dict(
        text="Lean 4 theorems: PathIter and JsonPathIter never slice off a char boundary for any string/separator; every shift "
             "amount and subtraction in the generated packed.rs arithmetic is in range under the documented argument contract; "
             "LSB conversions never reach unreachable!(); key width ≤ 63 for ≤ 2^63 children; walk_total / traverse_total / keys_total: no "
             "panic value is reachable from any by-key operation, type-level traversal or key source on a well-formed tree whose "
             "lookups fit (every index a key source yields is in range). "
             "Every run feeds arbitrary strings/integers/words/chains/payloads/buffers to every instance and type under "
             "catch_unwind (dev profile; release in the thorough tier).",
        note="Panics inside third-party crates (serde, heapless, …) are outside the model and only excluded by the runs. Open known finding F5 (node with > 2^63 "
             "children × Packed) is reported as KNOWN-FINDING.",
        tech="Lean 4 proofs for splitters and packed arithmetic + panic-catching correspondence run"),

    "C07": dict(
        text="Lean 4 theorems on the model of the poll closure and the list pump, for every settings type (abstract ops) and every "
             "environment behaviour: Set/Get/Get-error/List-accept/busy-refusal answers as exact equations (one message, response "
             "topic, correlation data, code); list pump: sent ++ remaining = paths (no gaps/repeats), final Ok exactly at completion, "
             "complete answer with enough slots, independence of how slots are split over update() calls; foreign topics ignored. "
             "Every run drives the REAL MqttClient + minimq in-process (in-memory TCP, broker stub, mock clock) through random "
             "request/fault histories, steps the Lean model on the observations recorded by the cfg hooks and compares state, "
             "return value and publications per update(), and checks the broker's packet log against an independent simulator. source_handler_is_model: the poll closure of MqttClient as TRANSLATED from miniconf_mqtt/src/lib.rs on every run (minimq and the settings tree as an explicit environment, publications as an action list) equals the handleMsg of the model for the environment the model assumes.",
        note="minimq (QoS handshakes, retransmission, buffers) is the environment: observed, not modelled. 'Delivered while able to "
             "publish' is the hypothesis canPub. Trusted: broker stub, mock clock, observation derivation.",
        tech="Lean 4 proofs (unfolding equations, list induction) over a hand-written model + hook-driven refinement check against the real client + packet-log oracle"),
    "C10": dict(
        text="Lean 4 theorems on the dump pump for every settings type and slot schedule: consumed leaves are a prefix of the walk; "
             "exactly the present ones are published, in order, once each, with the value held now or the too-large Error; absent "
             "skipped; completion only when nothing remains; with enough slots everything is published and the client is idle; the "
             "three entry points root the walk with no response topic; API dump refused while busy. Run: as C07, with dump-heavy "
             "histories (values beyond the transmit buffer, Option toggles, withheld acks, concurrent requests). source_iter_dump_is_model: one pass of the loop of iter_dump as TRANSLATED from miniconf_mqtt/src/lib.rs on every run (the three-way classification of the publish result as the source's match sorts it; publication building skeleton-checked), run as written, equals the model's dumpPump. source_dump_api_is_model: MqttClient::dump(path) as translated equals the model's apiDump (alive()/subscribe() skeleton-checked in the same run).",
        note="Retransmissions (DUP) are minimq's and excluded as the property allows. F4 (oversize value panicked) fixed in /repo.",
        tech="Lean 4 proofs (list induction with an element-wise relation) + hook-driven refinement check + packet-log oracle"),
    "C13": dict(
        text="Lean 4 theorems for every history of environment observations: an epoch invariant (protocol state ⇒ what this "
             "connection has sent: nothing / alive / alive+subscribe with timeout = subscribe time + 2 s / timeout elapsed) "
             "preserved by every update() and hence along every run with monotone time; consequently alive only first, subscribe "
             "only after alive and once, list/dump items only after both and ≥ 2 s after the subscription; connection loss or "
             "session reset returns to Connect; state moves only along the transition table. Run: fault histories (drops with "
             "session present/absent, API reset, clock advances straddling 2 s, withheld acks) against the real client. source_update_is_model: MqttClient::update as TRANSLATED from miniconf_mqtt/src/lib.rs (state dispatch over the extracted transition table, guard timed_out, action start_timeout; sub-procedures as environment) equals the step function of the model and never panics by itself. source_update_composed_is_model: the same with dump(None), iter_list and iter_dump in their translated form (loops run as written) instead of the model's functions.",
        note="The CONNECT will (retained, empty, alive topic) is configuration, checked by the broker stub's decoder only. Wall "
             "clock = mock clock.",
        tech="Lean 4 invariant proof by induction over observation sequences + refinement check + packet-log oracle"),
    "C14": dict(
        text="Lean 4 theorems for every settings type and observation: settings change only through a message with non-empty "
             "payload on a settings topic and then exactly as the JSON write does; update() returns true iff that write returned Ok; "
             "too-long response topic / correlation data refuse a multipart request with an Error and leave the client untouched; "
             "no unwrap of the handler is reachable for a coherent settings type. Run: histories with arbitrary topics, malformed "
             "JSON, property lengths around 128/32, oversize values; panics caught; final settings compared with an independent "
             "simulator applying only accepted writes.",
        note="Open known finding F7 (more than ten unacknowledged publications: minimq refuses the eleventh although can_publish() said yes, iter_dump/iter_list unwrap and panic; needs a non-default buffer split) is reported as KNOWN-FINDING by two dedicated histories. Panics inside minimq are excluded only by the runs. envContract: publish succeeds when can_publish was true.",
        tech="Lean 4 proofs (case analysis of the handler) + refinement check against the real client + oracle"),
    "C17": dict(
        text="Lean 4 theorems on a model of the _dispatch state machine shared by async_.py and sync.py, the tail of _do and "
             "_Path.normalize: after registering a fresh correlation data ANY message sequence leaves the request completed "
             "exactly once with the result of its own messages (Continue payloads in arrival order + non-empty Ok payload, or the "
             "error code/text) or still in flight with the payloads so far; outcome depends only on the subsequence of own "
             "messages (interleaving independence); foreign topic / missing or unknown cd / missing code change nothing; "
             "normalize returns empty-or-absolute. Every run drives BOTH real Python clients (through stub paho/aiomqtt "
             "modules) and the Lean model on random concurrent request histories with interleaved, duplicate, late and "
             "malformed messages and compares each caller's result; an independent reference reading of the history is the oracle."
             " source_dispatch_is_model: the dispatcher decision tables extracted from the Python AST of async_.py and sync.py on every run (run by the Lean driver against the real clients) equal the model's dispatch; _Path.normalize as translated from common.py equals the model's normalize and its assert never fails. source_do_tail_is_model: the statements of Miniconf._do after the wait and the response= of get/set/list/clear/dump, translated from both clients on every run, equal the model's post.",
        note="Thread/asyncio scheduling is not modelled: dispatcher steps are atomic (they are, per client, by the GIL + paho "
             "callback thread / single event loop). uuid1 freshness is a hypothesis. Trusted: stub MQTT modules, pydriver.py.",
        tech="Lean 4 proof (induction over message lists) + model-vs-implementation correspondence against both real Python clients"),
    "C18": dict(
        text="Lean 4 theorems composing the two models through an explicit wire translation (payload text, response topic, "
             "correlation data, user property code=<ResponseCode variant name>): constants_agree (response-code strings, "
             "user-property key, /settings infix, /response topic, 16-byte uuid ≤ 32-byte cache, model constants = source "
             "constants — all literals regenerated from lib.rs/async_.py/sync.py by extract/gen_consts.py on every run); "
             "request_topic_understood; get/set/list/error end-to-end: for any traffic interleaved on the Python side, the "
             "caller gets the value the device holds, the exact leaf-path list, a normal completion for an accepted set, or an "
             "exception with the device's Error code and text. Every run carries requests Python → real Rust client → Python: "
             "the publications of both real Python clients are delivered to the real MqttClient, its response packets (raw user "
             "properties included) are fed unchanged into the real Python dispatcher and the Lean dispatcher model; results are "
             "compared with an independent simulator of the settings types, for every leaf/internal node/request kind.",
        note="The broker between the two is replaced by in-process delivery of the response-topic packets in wire order. Error "
             "texts of serde are compared by prefix. Trusted: gen_consts.py, broker stub decoder, Python MQTT stubs.",
        tech="Lean 4 proof (composition of two verified models + constants regenerated from source) + end-to-end "
             "correspondence run through both real implementations"),
}

PENDING = "not yet built in this framework (work in progress; see DESIGN.md §10 order of work)"


def chk(pid, c):
    return {
        "property_id": pid,
        "quick_cmd": f"./check {pid} --tier quick",
        "thorough_cmd": f"./check {pid} --tier thorough",
        "evidence_file": f"/verif/evidence/{pid}.json",
        "replay_cmd_template": f"./check {pid} --replay {{path}}",
        "engine": "lean-proof+correspondence",
        "level_claimed": {"category": "proof", "text": c["text"], "design_ref": f"DESIGN.md §7 {pid}"},
        "level_note": c["note"],
        "technique": c["tech"],
    }


m = {
    "version": 1,
    "setup_cmd": "./setup.sh",
    "hooks": {
        "guard": "quartiq_miniconf_verif",
        "enable": "--cfg quartiq_miniconf_verif via /verif/harness/.cargo/config.toml [build] rustflags",
        "baseline_off_cmd": "cd /repo && cargo test --workspace --no-fail-fast --offline",
        "source_commits": ["e8855d7"],
        "fix_commits": ["5c38288", "bc86863", "df164b5", "4be6bf2", "7b5905b", "b33aab1"],
        "add_only": True,
    },
    "engines": [{
        "name": "lean-proof+correspondence", "path": "check", "serves_properties": sorted(CLAIMED),
        "kind_free_text": "Lean 4 theorems over a model (partly regenerated from source) + differential run of model vs "
                          "implementation + independent oracle"}],
    "checks": [chk(p["id"], CLAIMED[p["id"]]) for p in props if p["id"] in CLAIMED],
    "not_applicable": [{"property_id": p["id"], "reason": PENDING} for p in props if p["id"] not in CLAIMED],
    "notes": "See DESIGN.md. /repo commit 25f5da7 (\"round 1: uncommitted hook changes (driver)\") is not a hook: it is an "
             "unguarded seeded test change left behind by an interrupted mutation run; b33aab1 (fix:) restores the code "
             "(DESIGN.md section 12). The only hook commit is e8855d7.",
}
json.dump(m, open(os.path.join(V, "MANIFEST.json"), "w"), indent=1)
print("claimed:", sorted(CLAIMED))
