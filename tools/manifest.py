#!/usr/bin/env python3
"""Regenerate /verif/MANIFEST.json from the table below (keeps it schema-valid)."""
import json
import os

V = os.path.dirname(os.path.dirname(os.path.abspath(__file__)))
props = [json.loads(l) for l in open(os.path.join(V, "properties.jsonl"))]

CLAIMED = {
    "C08": dict(
        text="Lean 4 theorems (push/pop refinement to an abstract (len,content) stack, unbounded push/pop sequence round "
             "trip by list induction, LSB bijection, bits_for minimality) about definitions REGENERATED from packed.rs on "
             "every run; every run also executes the real Packed, the Lean model and a big-int oracle on the same "
             "push/pop/lsb sequences.",
        note="Trusted: Lean kernel; bv_decide axioms for single-word lemmas; the Rust-expression translator "
             "extract/gen_packed.py; 64-bit usize; harness pk.rs and the Python stack oracle.",
        tech="machine-checked proof in Lean 4 (bv_decide word lemmas + list induction) over a model regenerated from "
             "source, plus model-vs-implementation correspondence run"),
    "C15": dict(
        text="Lean 4 theorems for every separator char and every Unicode string: PathIter = split-at-every-separator "
             "minus first segment (with a characterisation of the split spec), no slice off a char boundary, fused; "
             "JsonPathIter parses any mixture of the four notations of delimiter-free names back to the names, never "
             "panics, is fused and terminates. Model hand-written with byte-offset slicing; each run executes model and "
             "implementation on all strings up to length 5 (6 thorough) over an 8-symbol alphabet.",
        note="Trusted: Lean kernel; hand-written Model/PathIter.lean tied to node.rs/jsonpath.rs only by the "
             "correspondence run; Python str.split oracle.",
        tech="machine-checked proof in Lean 4 (induction on List Char with byte-offset lemmas) + exhaustive "
             "model-vs-implementation correspondence run"),
}

PENDING = "not yet built in this framework (work in progress; see DESIGN.md §10 order of work)"


def chk(pid, c):
    return {
        "property_id": pid,
        "quick_cmd": f"./check {pid} --tier quick",
        "thorough_cmd": f"./check {pid} --tier thorough",
        "evidence_file": f"/verif/evidence/{pid}.json",
        "replay_cmd_template": f"./check {pid} --replay {{path}}",
        "engine": "lean-proof+correspondence",
        "level_claimed": {"category": "proof", "text": c["text"], "design_ref": f"DESIGN.md §7 {pid}"},
        "level_note": c["note"],
        "technique": c["tech"],
    }


m = {
    "version": 1,
    "setup_cmd": "./setup.sh",
    "hooks": {
        "guard": "quartiq_miniconf_verif",
        "enable": "--cfg quartiq_miniconf_verif via /verif/harness/.cargo/config.toml [build] rustflags",
        "baseline_off_cmd": "cd /repo && cargo test --workspace --no-fail-fast --offline",
        "source_commits": [],
        "add_only": True,
    },
    "engines": [{
        "name": "lean-proof+correspondence", "path": "check", "serves_properties": sorted(CLAIMED),
        "kind_free_text": "Lean 4 theorems over a model (partly regenerated from source) + differential run of model vs "
                          "implementation + independent oracle"}],
    "checks": [chk(p["id"], CLAIMED[p["id"]]) for p in props if p["id"] in CLAIMED],
    "not_applicable": [{"property_id": p["id"], "reason": PENDING} for p in props if p["id"] not in CLAIMED],
    "notes": "See DESIGN.md.",
}
json.dump(m, open(os.path.join(V, "MANIFEST.json"), "w"), indent=1)
print("claimed:", sorted(CLAIMED))
