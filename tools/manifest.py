#!/usr/bin/env python3
"""Regenerate /verif/MANIFEST.json from the table below (keeps it schema-valid)."""
import json
import os

V = os.path.dirname(os.path.dirname(os.path.abspath(__file__)))
props = [json.loads(l) for l in open(os.path.join(V, "properties.jsonl"))]

CLAIMED = {
    "C08": dict(
        text="Lean 4 theorems (push/pop refinement to an abstract (len,content) stack, unbounded push/pop sequence round "
             "trip by list induction, LSB bijection, bits_for minimality) about definitions REGENERATED from packed.rs on "
             "every run; every run also executes the real Packed, the Lean model and a big-int oracle on the same "
             "push/pop/lsb sequences.",
        note="Trusted: Lean kernel; bv_decide axioms for single-word lemmas; the Rust-expression translator "
             "extract/gen_packed.py; 64-bit usize; harness pk.rs and the Python stack oracle.",
        tech="machine-checked proof in Lean 4 (bv_decide word lemmas + list induction) over a model regenerated from "
             "source, plus model-vs-implementation correspondence run"),
    "C15": dict(
        text="Lean 4 theorems for every separator char and every Unicode string: PathIter = split-at-every-separator "
             "minus first segment (with a characterisation of the split spec), no slice off a char boundary, fused; "
             "JsonPathIter parses any mixture of the four notations of delimiter-free names back to the names, never "
             "panics, is fused and terminates. Model hand-written with byte-offset slicing; each run executes model and "
             "implementation on all strings up to length 5 (6 thorough) over an 8-symbol alphabet.",
        note="Trusted: Lean kernel; hand-written Model/PathIter.lean tied to node.rs/jsonpath.rs only by the "
             "correspondence run; Python str.split oracle.",
        tech="machine-checked proof in Lean 4 (induction on List Char with byte-offset lemmas) + exhaustive "
             "model-vs-implementation correspondence run"),

    "C03": dict(
        text="Lean 4 model of NodeIter (odometer over the ordinary key lookup) and of traverse_by_key/Transcode; theorems so far: "
             "leaf count of the enumeration = Metadata.count, unreachable TooLong arm; the flagship enumeration theorem "
             "(nodes = leaves in order) is in progress. Every run compares the complete item sequence of nodes::<N,D>() for "
             "7 target representations (plain and exact-size) on every corpus type with the model and with a brute-force "
             "enumeration of the generated schema.",
        note="PARTIAL proof: enumeration theorem not yet machine-checked; the iteration order/completeness claim currently "
             "rests on the correspondence + oracle run over the corpus (~55 types). Trusted: Lean kernel, typegen.py/spec.py, rt.rs.",
        tech="Lean 4 model + (partial) theorems; model-vs-implementation correspondence and schema-enumeration oracle"),
    "C04": dict(
        text="Lean 4 theorems: Chain of two key lists = their concatenation for every schema/callback (via a general "
             "bisimulation theorem: step-wise agreeing key sources are interchangeable on every schema); per-representation "
             "left-inverse theorems in progress. Every run transcodes every node of every corpus type between 9 source and "
             "10 target representations, checks the recording callback and Chain at every split point.",
        note="PARTIAL proof: render/read left-inverse per representation not yet machine-checked. Trusted: Lean kernel, "
             "hand-written model tied by the correspondence run, typegen.py/spec.py.",
        tech="Lean 4 proof (bisimulation over schema induction) + exhaustive-over-corpus correspondence and oracle"),
    "C06": dict(
        text="Lean 4 theorems for every schema: Metadata.count = number of leaves; max_depth exceeded by no leaf and attained by "
             "one (mutual structural induction over the nested schema). max_length/max_bits exactness in progress. Every run "
             "compares Metadata and a recording Walk with brute force on every corpus type (array lengths straddling powers "
             "of 2 and 10) and transcodes every node into buffers sized from the metadata.",
        note="PARTIAL proof: max_length / max_bits exactness and the buffer-sufficiency corollary are currently only checked "
             "by the correspondence + oracle run. Assumes count < 2^64.",
        tech="Lean 4 proof by structural induction + correspondence/oracle run"),
    "C09": dict(
        text="Lean 4 theorem (on the definitions regenerated from packed.rs): one level of Transcode-for-Packed followed by "
             "Keys-for-Packed returns the index and the previous key; path-level dec_enc/order theorems in progress on top of "
             "C08's sequence theorem. Every run checks value, decode, uniqueness, order and width of the packed key of every "
             "node of every corpus type.",
        note="PARTIAL proof (single level). bv_decide axioms as in C08. max_bits ≤ 63.",
        tech="Lean 4 proof (bv_decide + C08 lemmas) + correspondence/oracle run"),
    "C11": dict(
        text="Lean 4 model of NodeIter::{default, root, next} incl. the capacity arm; theorems so far: fused (exhausted state "
             "stays exhausted for any fuel), fresh iterator not exhausted, TooLong arm unreachable; enumeration theorem in "
             "progress. Every run iterates every corpus type for every depth limit, every (sampled) node as root in several "
             "key representations, index/path capacities from 0 to sufficient, polling past the end.",
        note="PARTIAL proof: exactness of rooted/limited enumeration rests on the correspondence + oracle run.",
        tech="Lean 4 model + (partial) theorems; correspondence and brute-force oracle"),

    "C01": dict(
        text="Lean 4 theorems on the value-level walk model (Model/Tree.lean: every container/wrapper/attribute, every runtime "
             "state, every key source, arbitrary (de)serializer): a failing access other than a validator rejection leaves the "
             "whole tree unchanged; reads never modify (mutual structural induction). Frame theorem for successful writes in "
             "progress. Every run executes random read/write histories on every instance and compares whole-tree snapshots "
             "(generated plain field access) with the Lean model and an independent Python reference interpreter.",
        note="PARTIAL proof: 'exactly the designated leaf changes' for successful writes currently rests on the correspondence + "
             "snapshot oracle. Accessors/validators must not alias other fields (generated ones own their storage).",
        tech="Lean 4 proof by mutual structural induction over the nested tree + snapshot-based correspondence/oracle"),
    "C02": dict(
        text="Lean 4 theorems stating the per-node step order as equations of the walk (surplus keys before value access, closed "
             "container first, key lookup before variant/deny/accessor, absent variant at the consumed key's depth, flatten adds "
             "no depth); global walk = top-down reference walk theorem in progress. Every run compares serialize/deserialize/"
             "ref_any/mut_any outcomes (kind, depth, message, log, snapshot) on every instance × node path × malformed key "
             "alphabet × key representation with the model and the independent Python top-down interpreter (37k cases quick).",
        note="PARTIAL proof (local step equations; the global depth-bookkeeping theorem is pending).",
        tech="Lean 4 theorems over the hand-written walk model + three-way differential run (implementation, Lean model, Python oracle)"),
    "C05": dict(
        text="Lean 4 codec model (JSON text and postcard bytes for the leaf universe) with theorems for zig-zag bijection and "
             "bool/unit JSON round trip; integer/option/array/string round-trip theorems in progress. Every run writes every "
             "sample value to every leaf, reads it back with every buffer length 0..len+1, writes the read text back, and does "
             "the same through postcard incl. short buffers and trailing bytes; floats bit-exact on the implementation only.",
        note="PARTIAL proof. serde-json-core / postcard / ryu are modelled, not verified (trusted as validated by the "
             "differential run); strings without JSON escapes.",
        tech="Lean 4 codec model + (partial) round-trip theorems; exhaustive-over-corpus correspondence and oracle"),
    "C12": dict(
        text="Lean 4 theorems: validators never run on serialize/ref_any/mut_any (global, by induction over the tree); field-level "
             "protocol as equations: deny stops with Access(0,msg) before any accessor, failing accessor is called once and "
             "stops the walk, reads use get / writes use get_mut, validator runs only after Ok(depth), receives that depth and "
             "may keep/replace/reject. Every run drives all single, pairwise and random gate combinations on every attributed "
             "type and compares the real call log with model and Python oracle.",
        note="Path-level ordering (top-down getters, bottom-up validators) follows from the recursive structure of the model and "
             "is additionally checked by the run; a standalone ordering theorem is pending.",
        tech="Lean 4 proof (structural induction + unfolding equations) + call-log correspondence/oracle"),
    "C16": dict(
        text="Lean 4 theorems: PathIter and JsonPathIter never slice off a char boundary for any string/separator; every shift "
             "amount and subtraction in the generated packed.rs arithmetic is in range under the documented argument contract; "
             "LSB conversions never reach unreachable!(); key width ≤ 63 for ≤ 2^63 children. Totality of the tree walk pending. "
             "Every run feeds arbitrary strings/integers/words/chains/payloads/buffers to every instance and type under "
             "catch_unwind (dev profile; release in the thorough tier).",
        note="PARTIAL: panics inside third-party crates are only excluded by the runs. Open known finding F5 (node with > 2^63 "
             "children × Packed) is reported as KNOWN-FINDING.",
        tech="Lean 4 proofs for splitters and packed arithmetic + panic-catching correspondence run"),

    "C07": dict(
        text="Lean 4 theorems on the model of the poll closure and the list pump, for every settings type (abstract ops) and every "
             "environment behaviour: Set/Get/Get-error/List-accept/busy-refusal answers as exact equations (one message, response "
             "topic, correlation data, code); list pump: sent ++ remaining = paths (no gaps/repeats), final Ok exactly at completion, "
             "complete answer with enough slots, independence of how slots are split over update() calls; foreign topics ignored. "
             "Every run drives the REAL MqttClient + minimq in-process (in-memory TCP, broker stub, mock clock) through random "
             "request/fault histories, steps the Lean model on the observations recorded by the cfg hooks and compares state, "
             "return value and publications per update(), and checks the broker's packet log against an independent simulator.",
        note="minimq (QoS handshakes, retransmission, buffers) is the environment: observed, not modelled. 'Delivered while able to "
             "publish' is the hypothesis canPub. Trusted: broker stub, mock clock, observation derivation.",
        tech="Lean 4 proofs (unfolding equations, list induction) over a hand-written model + hook-driven refinement check against the real client + packet-log oracle"),
    "C10": dict(
        text="Lean 4 theorems on the dump pump for every settings type and slot schedule: consumed leaves are a prefix of the walk; "
             "exactly the present ones are published, in order, once each, with the value held now or the too-large Error; absent "
             "skipped; completion only when nothing remains; with enough slots everything is published and the client is idle; the "
             "three entry points root the walk with no response topic; API dump refused while busy. Run: as C07, with dump-heavy "
             "histories (values beyond the transmit buffer, Option toggles, withheld acks, concurrent requests).",
        note="Retransmissions (DUP) are minimq's and excluded as the property allows. F4 (oversize value panicked) fixed in /repo.",
        tech="Lean 4 proofs (list induction with an element-wise relation) + hook-driven refinement check + packet-log oracle"),
    "C13": dict(
        text="Lean 4 theorems for every history of environment observations: an epoch invariant (protocol state ⇒ what this "
             "connection has sent: nothing / alive / alive+subscribe with timeout = subscribe time + 2 s / timeout elapsed) "
             "preserved by every update() and hence along every run with monotone time; consequently alive only first, subscribe "
             "only after alive and once, list/dump items only after both and ≥ 2 s after the subscription; connection loss or "
             "session reset returns to Connect; state moves only along the transition table. Run: fault histories (drops with "
             "session present/absent, API reset, clock advances straddling 2 s, withheld acks) against the real client.",
        note="The CONNECT will (retained, empty, alive topic) is configuration, checked by the broker stub's decoder only. Wall "
             "clock = mock clock.",
        tech="Lean 4 invariant proof by induction over observation sequences + refinement check + packet-log oracle"),
    "C14": dict(
        text="Lean 4 theorems for every settings type and observation: settings change only through a message with non-empty "
             "payload on a settings topic and then exactly as the JSON write does; update() returns true iff that write returned Ok; "
             "too-long response topic / correlation data refuse a multipart request with an Error and leave the client untouched; "
             "no unwrap of the handler is reachable for a coherent settings type. Run: histories with arbitrary topics, malformed "
             "JSON, property lengths around 128/32, oversize values; panics caught; final settings compared with an independent "
             "simulator applying only accepted writes.",
        note="Panics inside minimq are excluded only by the runs. envContract: publish succeeds when can_publish was true.",
        tech="Lean 4 proofs (case analysis of the handler) + refinement check against the real client + oracle"),
    "C17": dict(
        text="Lean 4 theorems on a model of the _dispatch state machine shared by async_.py and sync.py, the tail of _do and "
             "_Path.normalize: after registering a fresh correlation data ANY message sequence leaves the request completed "
             "exactly once with the result of its own messages (Continue payloads in arrival order + non-empty Ok payload, or the "
             "error code/text) or still in flight with the payloads so far; outcome depends only on the subsequence of own "
             "messages (interleaving independence); foreign topic / missing or unknown cd / missing code change nothing; "
             "normalize returns empty-or-absolute. Every run drives BOTH real Python clients (through stub paho/aiomqtt "
             "modules) and the Lean model on random concurrent request histories with interleaved, duplicate, late and "
             "malformed messages and compares each caller's result; an independent reference reading of the history is the oracle.",
        note="Thread/asyncio scheduling is not modelled: dispatcher steps are atomic (they are, per client, by the GIL + paho "
             "callback thread / single event loop). uuid1 freshness is a hypothesis. Trusted: stub MQTT modules, pydriver.py.",
        tech="Lean 4 proof (induction over message lists) + model-vs-implementation correspondence against both real Python clients"),
    "C18": dict(
        text="Lean 4 theorems composing the two models through an explicit wire translation (payload text, response topic, "
             "correlation data, user property code=<ResponseCode variant name>): constants_agree (response-code strings, "
             "user-property key, /settings infix, /response topic, 16-byte uuid ≤ 32-byte cache, model constants = source "
             "constants — all literals regenerated from lib.rs/async_.py/sync.py by extract/gen_consts.py on every run); "
             "request_topic_understood; get/set/list/error end-to-end: for any traffic interleaved on the Python side, the "
             "caller gets the value the device holds, the exact leaf-path list, a normal completion for an accepted set, or an "
             "exception with the device's Error code and text. Every run carries requests Python → real Rust client → Python: "
             "the publications of both real Python clients are delivered to the real MqttClient, its response packets (raw user "
             "properties included) are fed unchanged into the real Python dispatcher and the Lean dispatcher model; results are "
             "compared with an independent simulator of the settings types, for every leaf/internal node/request kind.",
        note="The broker between the two is replaced by in-process delivery of the response-topic packets in wire order. Error "
             "texts of serde are compared by prefix. Trusted: gen_consts.py, broker stub decoder, Python MQTT stubs.",
        tech="Lean 4 proof (composition of two verified models + constants regenerated from source) + end-to-end "
             "correspondence run through both real implementations"),
}

PENDING = "not yet built in this framework (work in progress; see DESIGN.md §10 order of work)"


def chk(pid, c):
    return {
        "property_id": pid,
        "quick_cmd": f"./check {pid} --tier quick",
        "thorough_cmd": f"./check {pid} --tier thorough",
        "evidence_file": f"/verif/evidence/{pid}.json",
        "replay_cmd_template": f"./check {pid} --replay {{path}}",
        "engine": "lean-proof+correspondence",
        "level_claimed": {"category": "proof", "text": c["text"], "design_ref": f"DESIGN.md §7 {pid}"},
        "level_note": c["note"],
        "technique": c["tech"],
    }


m = {
    "version": 1,
    "setup_cmd": "./setup.sh",
    "hooks": {
        "guard": "quartiq_miniconf_verif",
        "enable": "--cfg quartiq_miniconf_verif via /verif/harness/.cargo/config.toml [build] rustflags",
        "baseline_off_cmd": "cd /repo && cargo test --workspace --no-fail-fast --offline",
        "source_commits": ["e8855d7"],
        "fix_commits": ["5c38288", "bc86863", "df164b5", "4be6bf2"],
        "add_only": True,
    },
    "engines": [{
        "name": "lean-proof+correspondence", "path": "check", "serves_properties": sorted(CLAIMED),
        "kind_free_text": "Lean 4 theorems over a model (partly regenerated from source) + differential run of model vs "
                          "implementation + independent oracle"}],
    "checks": [chk(p["id"], CLAIMED[p["id"]]) for p in props if p["id"] in CLAIMED],
    "not_applicable": [{"property_id": p["id"], "reason": PENDING} for p in props if p["id"] not in CLAIMED],
    "notes": "See DESIGN.md.",
}
json.dump(m, open(os.path.join(V, "MANIFEST.json"), "w"), indent=1)
print("claimed:", sorted(CLAIMED))
