#!/usr/bin/env python3
"""Writes lean/MiniconfVerif/Lemmas/GenTieImpls.lean: the (repetitive) tie theorems between the model's node
traversal and the container impls translated from impls.rs.  The output is committed; this script only documents
how it was produced.  Every theorem in it is checked by Lean like any other."""
import os

HEAD = open(os.path.join(os.path.dirname(__file__), "impl_ties_head.lean")).read()


def node_tie(name, fn, consts, lk, names, kids, nparams, doc):
    """kids: for each index the child parameter it uses; names: list of names or None (numbered)"""
    n = len(kids)
    childs = " ".join(f"child{j}" for j in range(nparams))
    schemas = " ".join(f"c{j}" for j in range(nparams))
    hyps = " ".join(f"(h{j} : ChildRel child{j} (c{j}.traverse cb))" for j in range(nparams))
    clist = "[" + ", ".join(f"c{kids[i]}" for i in range(n)) + "]"
    idx = " ∨ ".join(f"i = {i}" for i in range(n))
    pats = " | ".join("rfl" for _ in range(n))
    cases = []
    for i in range(n):
        nm = f'some "{names[i]}"' if names else "none"
        cases.append(f'''    · simp only [KeyLookup.lookup, KeyLookup.len, nonZeroNew, funcM, Lookup.name?, Lookup.len, hnext]
      cases hcb : cb st ⟨{i}, {nm}, {n}⟩ with
      | none => simp [Except.mapError, hcb, outOfP, resOfGen]
      | some st' => simp [Except.mapError, hcb, outOfP, childRel_apply h{kids[i]}]''')
    if n == 1:
        split = "    obtain rfl : i = 0 := by omega"
        cases = [c.replace("    · simp only", "    simp only", 1).replace("\n      ", "\n    ") for c in cases]
    else:
        split = f"    have hi' : {idx} := by omega\n    rcases hi' with {pats}"
    return f'''
/-- {doc} -/
theorem {name} {{σ : Type}} (cb : σ → CbArg → Option σ) ({schemas} : Schema) (ks : KeySrc) (st : σ)
    ({childs} : KeySrc → σ → Except (Error Unit) Nat × σ) {hyps}
    (hnp : ∀ s, ks.next ({lk}) ≠ .error (.panic s)) :
    outOfP ({fn} keysNextM (funcM cb) {childs} ks st) =
      some (Schema.traverse cb (.node ({lk}) {clist}) ks st) := by
  rw [traverse_node_eq]
  simp only [nodeStep, {fn}, {consts}keysNextM, lookupOfGen, Impls.KeyLookup.numbered, nonZeroNew]
  try simp +decide only [↓reduceIte, lookupOfGen]
  cases hnext : ks.next ({lk}) with
  | error e =>
    cases e with
    | panic s => exact absurd hnext (hnp s)
    | _ => simp [outOfP, resOfGen, travToGen, travOfGen, hnext, KeyLookup.len]
  | ok p =>
    obtain ⟨i, ks'⟩ := p
    have hi := next_lt ks _ i ks' hnext
    simp only [Lookup.len, List.length_cons, List.length_nil] at hi
{split}
''' + "\n".join(cases) + "\n"


out = [HEAD]
out.append(node_tie("result_traverse_tie", "Impls.Result.traverse_by_key", "Impls.RESULT_LOOKUP, ", '.named ["Ok", "Err"]',
                    ["Ok", "Err"], [0, 1], 2,
                    "`<Result<T, E> as TreeKey>::traverse_by_key` of the source = the model's traversal of the node "
                    "`named [\"Ok\", \"Err\"]` with the children `[T, E]`"))
out.append(node_tie("bound_traverse_tie", "Impls.Bound.traverse_by_key", "Impls.BOUND_LOOKUP, ", '.named ["Included", "Excluded"]',
                    ["Included", "Excluded"], [0, 0], 1, "`Bound<T>`: `named [\"Included\", \"Excluded\"]`, children `[T, T]`"))
out.append(node_tie("range_traverse_tie", "Impls.Range.traverse_by_key", "Impls.RANGE_LOOKUP, ", '.named ["start", "end"]',
                    ["start", "end"], [0, 0], 1, "`Range<T>`: `named [\"start\", \"end\"]`, children `[T, T]`"))
out.append(node_tie("rangeInclusive_traverse_tie", "Impls.RangeInclusive.traverse_by_key", "Impls.RANGE_LOOKUP, ",
                    '.named ["start", "end"]', ["start", "end"], [0, 0], 1,
                    "`RangeInclusive<T>`: `named [\"start\", \"end\"]`, children `[T, T]`"))
out.append(node_tie("rangeFrom_traverse_tie", "Impls.RangeFrom.traverse_by_key", "Impls.RANGE_FROM_LOOKUP, ", '.named ["start"]',
                    ["start"], [0], 1, "`RangeFrom<T>`: `named [\"start\"]`, child `[T]`"))
out.append(node_tie("rangeTo_traverse_tie", "Impls.RangeTo.traverse_by_key", "Impls.RANGE_TO_LOOKUP, ", '.named ["end"]',
                    ["end"], [0], 1, "`RangeTo<T>`: `named [\"end\"]`, child `[T]`"))
for n in range(1, 9):
    out.append(node_tie(f"tuple{n}_traverse_tie", f"Impls.tuple{n}.traverse_by_key", "", f".numbered {n}", None,
                        list(range(n)), n, f"the {n}-tuple: `numbered {n}`, children in order"))
tail = open(os.path.join(os.path.dirname(__file__), "impl_ties_tail.lean")).read()
names = ["result_traverse_tie", "bound_traverse_tie", "range_traverse_tie", "rangeInclusive_traverse_tie",
         "rangeFrom_traverse_tie", "rangeTo_traverse_tie"] + [f"tuple{n}_traverse_tie" for n in range(1, 9)] + ["array_traverse_tie"]
conj = """
/-- all container ties as one statement (used as an obligation of C02) -/
def ContainerTies : Prop :=
  """ + " ∧\n  ".join(f"(∀ {{σ : Type}}, type_of% (@{n} σ))" for n in names) + """

theorem containerTies : ContainerTies :=
  ⟨""" + ", ".join(f"@{n}" for n in names) + """⟩
"""
tail = tail.replace("\nend MiniconfVerif.GenTie", conj + "\nend MiniconfVerif.GenTie")
out.append(tail)
open(os.path.join(os.path.dirname(__file__), "..", "lean", "MiniconfVerif", "Lemmas", "GenTieImpls.lean"), "w").write("".join(out))
