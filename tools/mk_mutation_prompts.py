#!/usr/bin/env python3
"""usage: tools/mk_mutation_prompts.py <batch dir, e.g. /tmp/mut6> <Cxx> ...

Writes <batch>/prompts/<Cxx>.txt: the prompt for an independent sub-agent that is given ONLY the text of one property
and its own scratch worktree <batch>/<Cxx> of /repo (created here), and asked for two seeded changes that break the
property while compiling and passing the suite.  The list of ideas already used is taken from seeded/<Cxx>/*/meta.json."""
import glob
import json
import os
import subprocess
import sys

EXTRA_DEFAULT = """Additional guidance for this round: earlier rounds concentrated on single-line slips in the most obvious function. Prefer now (a) changes in code that is reached only through a particular combination (a Chain of two key sources, a key source wrapped twice, an iterator that was rooted AND depth-limited, a target with just-insufficient capacity, a type whose child count sits exactly on a power of two or of ten, multi-byte separators, a response split over several messages), (b) changes that need TWO cooperating edits in different functions or files that each look like a harmless refactoring, (c) changes whose effect depends on the order of a multi-step history or on runtime state, (d) changes in glue code around the core (conversions between key representations, From/TryFrom impls, default trait methods, the derive macro's generated lookup tables and metadata). Avoid anything resembling the ideas listed below."""


EXTRA = os.environ.get("MUT_EXTRA") or EXTRA_DEFAULT


def main():
    batch = sys.argv[1]
    ids = sys.argv[2:]
    props = {json.loads(l)["id"]: json.loads(l) for l in open("/verif/properties.jsonl")}
    os.makedirs(f"{batch}/prompts", exist_ok=True)
    for pid in ids:
        wt = f"{batch}/{pid}"
        if not os.path.isdir(wt):
            subprocess.run(["git", "-C", "/repo", "worktree", "add", "-q", "--detach", wt, "HEAD"], check=True)
        used = []
        for m in sorted(glob.glob(f"/verif/seeded/{pid}/*/meta.json")):
            used.append(json.load(open(m)).get("change", ""))
        used_txt = "\n".join(f"  - {u}" for u in used if u)
        text = f"""You are helping to evaluate a verification framework by mutation testing (authorized, on a private scratch copy; nothing you write is ever merged).

The library is quartiq/miniconf (Rust, no_std; derive macros for key-path access, serialization and iteration over nested settings trees; a small MQTT client `miniconf_mqtt`; a Python client in py/). You have your own scratch git worktree of it at {wt} — work ONLY there (never touch /repo or /verif, never read /verif). The sandbox has no network: always use `CARGO_NET_OFFLINE=true cargo ... --offline`, and set `CARGO_TARGET_DIR={wt}/target`.

Here is one semantic property of the library that is supposed to hold for all inputs (JSON, with anchors into the source):

{json.dumps(props[pid], indent=1, ensure_ascii=False)}

YOUR TASK: produce TWO different, independent code changes ("mutations") to the library source (miniconf/, miniconf_derive/, miniconf_mqtt/ or py/ — not tests, not examples), each of which
  1. still compiles, and the existing test suite still passes with it: `cd {wt} && CARGO_NET_OFFLINE=true cargo test --workspace --no-fail-fast --offline` (57 unit/integration tests in miniconf plus doctests; the one doctest `miniconf_mqtt/src/lib.rs - MqttClient` fails on the unchanged tree too because it needs a network — ignore that one);
  2. BREAKS the property above (a real semantic violation of its statement, for some input/type/history inside its quantifier);
  3. looks like a plausible refactoring, optimisation or bug a maintainer could introduce — not sabotage that ordinary use would expose at once. It must need something SPECIFIC to manifest: an unusual type shape or attribute combination, a boundary size, a multi-step sequence of operations, a particular runtime state, or two cooperating sites that each look fine alone. Prefer changes in places that are easy to overlook (derive macro expansion in miniconf_derive, container impls in miniconf/src/impls.rs, leaf.rs, key.rs, node.rs, iter.rs, walk.rs, packed.rs, error.rs ...).
  The two mutations must be in different mechanisms/files where possible.

{EXTRA}
Ideas that have ALREADY been used and must NOT be repeated (propose something different):
{used_txt}

For each mutation k in {{1,2}} write into the directory {wt}/out/m<k>/ :
  - patch.diff : `git diff` of the library change only (relative to the worktree HEAD; must apply with `git apply` at the repository root),
  - demo.rs : a self-contained demonstration: for changes in miniconf/ or miniconf_derive/ a Rust integration test file (to be copied to miniconf/tests/demo.rs and run with `cd miniconf && cargo test --offline --features json-core,derive,postcard --test demo`); for changes in miniconf_mqtt/ a Rust integration test file to be copied to miniconf_mqtt/tests/demo.rs and run with `cd miniconf_mqtt && cargo test --offline --test demo` (there is no broker and no network: drive the real MqttClient in-process through an in-memory embedded_nal TcpClientStack plus a minimal hand-written MQTT v5 broker stub and a mock embedded_time clock; minimq 0.10 is in the offline cargo registry); for changes in py/ name it demo.py instead (python3 script, exit code 0 = pass; paho-mqtt and aiomqtt are NOT installed, so ship minimal stub packages for them in a stubs/ directory next to demo.py and put that on sys.path) that PASSES on the unchanged tree and FAILS with the patch applied; it should demonstrate the violation of the property directly (e.g. compare with an independent expectation),
  - meta.json : {{"property": "{pid}", "change": "<one line: what was changed>", "needs_to_manifest": "<one line: what specific input/type/state/sequence is needed>", "files": [...]}}
  - notes.md : a few lines of explanation.
Verify all of it yourself: run the suite with each patch (separately), run the demo with and without each patch, and record the outputs you observed in notes.md. Leave the worktree itself CLEAN at the end (git checkout -- . ; remove miniconf/tests/demo.rs) — only the out/ directory should remain as untracked content. Remove {wt}/target when you are finished (disk is limited).

Report back briefly: for each mutation, the one-line change, what it needs to manifest, and the verification you ran."""
        open(f"{batch}/prompts/{pid}.txt", "w").write(text)
        print("wrote", f"{batch}/prompts/{pid}.txt", "worktree", wt)


if __name__ == "__main__":
    main()
