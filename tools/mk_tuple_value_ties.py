#!/usr/bin/env python3
"""Writes lean/MiniconfVerif/Lemmas/GenTieTuples.lean: the value-level ties for the n-tuples (n = 1..8), four
operations each.  Output committed; every theorem is checked by Lean."""
import os

OPS = {
    "ser": dict(fn="serialize_by_key", mut=False, any=False, op=".ser"),
    "de": dict(fn="deserialize_by_key", mut=True, any=False, op=".de"),
    "ref": dict(fn="ref_any_by_key", mut=False, any=True, op=".refAny"),
    "mut": dict(fn="mut_any_by_key", mut=True, any=True, op=".mutAny"),
}


def tie(n, tag, name=None, lk=None, consts="", same=False, ns="Impls", thm=None):
    name = name or f"tuple{n}"
    lk = lk or f".numbered {n}"
    o = OPS[tag]
    conv, view = ("anyOfGen", "anyView ") if o["any"] else ("resOfGen", "")
    rty = "Except Traversal Unit" if o["any"] else "Except (Error Unit) Nat"
    cty = f"Tree → KeySrc → {rty} × Tree" if o["mut"] else f"Tree → KeySrc → {rty}"
    cs = "c0" if same else " ".join(f"c{i}" for i in range(n))
    ci = (lambda i: 0) if same else (lambda i: i)
    nch = 1 if same else n
    node = f"(.node false none ({lk}) (plainFields elems))"
    walk = lambda t: f"(Tree.walk io {o['op']} {t} ks)"
    if o["mut"]:
        hyps = " ".join(f"(h{i} : ∀ t ks, {conv} (c{i} t ks).1 = {view}(t.walk io {o['op']} ks).res ∧ (c{i} t ks).2 = (t.walk io {o['op']} ks).tree)"
                        for i in range(nch))
        concl = (f"∃ es r, {ns}.{name}.{o['fn']} keysNextM {cs} elems ks = .val (es, r) ∧\n"
                 f"      {conv} r = {view}{walk(node)}.res ∧\n"
                 f"      Tree.node false none ({lk}) (plainFields es) = {walk(node)}.tree")
        err = "exact ⟨_, _, rfl, by simp [resOfGen, anyOfGen, anyView, travToGen, travOfGen], rfl⟩"
        apply = "applyAt"
    else:
        hyps = " ".join(f"(h{i} : ∀ t ks, {conv} (c{i} t ks) = {view}(t.walk io {o['op']} ks).res)" for i in range(nch))
        concl = (f"∃ r, {ns}.{name}.{o['fn']} keysNextM {cs} elems ks = .val r ∧\n"
                 f"      {conv} r = {view}{walk(node)}.res")
        err = "exact ⟨_, rfl, by simp [resOfGen, anyOfGen, anyView, travToGen, travOfGen]⟩"
        apply = "applyAtR"

    def arm(i):
        j = ci(i)
        if o["any"]:
            hi = f"(h{j} _ _).1" if o["mut"] else f"h{j}"
            val = f"(c{j} elems[{i}] ks').1" if o["mut"] else f"c{j} elems[{i}] ks'"
            fin = (f"      rw [anyView_incr, ← {hi}]\n"
                   f"      cases {val} with\n"
                   f"      | ok u => cases u; rfl\n"
                   f"      | error e => simp [anyOfGen, Except.mapError, increment_tie]")
            if o["mut"]:
                return (f"    · simp only [{apply}, hget, goFld_plain io {o['op']} elems _ ks' _ hget]\n"
                        f"      refine ⟨_, _, rfl, ?_, by rw [(h{j} _ _).2]⟩\n{fin}")
            return (f"    · simp only [{apply}, hget, goFld_plain io {o['op']} elems _ ks' _ hget]\n"
                    f"      refine ⟨_, rfl, ?_⟩\n{fin}")
        if o["mut"]:
            return (f"    · simp only [{apply}, hget, goFld_plain io {o['op']} elems _ ks' _ hget]\n"
                    f"      exact ⟨_, _, rfl, by rw [resOfGen_incr, (h{j} _ _).1], by rw [(h{j} _ _).2]⟩")
        return (f"    · simp only [{apply}, hget, goFld_plain io {o['op']} elems _ ks' _ hget]\n"
                f"      exact ⟨_, rfl, by rw [resOfGen_incr, h{j}]⟩")
    if n == 1:
        split = "    obtain rfl : i = 0 := by omega"
        arms = arm(0).replace("    · simp only", "    simp only", 1).replace("\n      ", "\n    ")
    else:
        split = (f"    have hi' : {' ∨ '.join(f'i = {i}' for i in range(n))} := by omega\n"
                 f"    rcases hi' with {' | '.join('rfl' for _ in range(n))}")
        arms = "\n".join(arm(i) for i in range(n))
    return f'''
theorem {thm or name + '_' + tag + '_tie'} (io : Io) (elems : List Tree) (hlen : elems.length = {n}) (ks : KeySrc)
    (hnp : ∀ s, ks.next ({lk}) ≠ .error (.panic s))
    ({cs} : {cty})
    {hyps} :
    {concl} := by
  simp only [{ns}.{name}.{o['fn']}, {consts}Impls.KeyLookup.numbered, nonZeroNew, keysNextM, lookupOfGen, Tree.walk]
  try simp +decide only [↓reduceIte]
  cases hnext : ks.next ({lk}) with
  | error e =>
    cases e with
    | panic s => exact absurd hnext (hnp s)
    | _ => {err}
  | ok p =>
    obtain ⟨i, ks'⟩ := p
    have hi := next_lt ks _ i ks' hnext
    simp only [Lookup.len, List.length_cons, List.length_nil] at hi
    have hget : elems[i]? = some elems[i] := List.getElem?_eq_getElem (by omega)
{split}
{arms}
'''


# the part below writes Lemmas/GenTieTuples.lean; it runs only when this file is executed (gen_derive.py imports `tie`)
MAIN = r'''
out = [@@@import MiniconfVerif.Lemmas.GenTieValue

/-! GENERATED ONCE by tools/mk_tuple_value_ties.py (committed): `Tree.walk` at a tuple (a `numbered n` node whose fields
carry no attributes) agrees with `TreeSerialize` / `TreeDeserialize` / `TreeAny` of the n-tuples as translated from the
`impl_tuple!` body of impls.rs, for n = 1..8, and of `Range`, `RangeFrom`, `RangeTo` (and `TreeSerialize` of
`RangeInclusive`) at their `named ["start", "end"]` / `["start"]` / `["end"]` nodes. -/
set_option linter.unusedSimpArgs false
namespace MiniconfVerif.GenTie
open MiniconfVerif MiniconfVerif.Gen MiniconfVerif.Gen.Core
@@@]
names = []
for n in range(1, 9):
    for tag in OPS:
        out.append(tie(n, tag))
        names.append(f"tuple{n}_{tag}_tie")
for rust, lkn, n_, consts in (("Range", '.named ["start", "end"]', 2, "Impls.RANGE_LOOKUP, "),
                              ("RangeFrom", '.named ["start"]', 1, "Impls.RANGE_FROM_LOOKUP, "),
                              ("RangeTo", '.named ["end"]', 1, "Impls.RANGE_TO_LOOKUP, ")):
    for tag in OPS:
        out.append(tie(n_, tag, name=rust, lk=lkn, consts=consts, same=True))
        names.append(f"{rust}_{tag}_tie")
out.append(tie(2, "ser", name="RangeInclusive", lk='.named ["start", "end"]', consts="Impls.RANGE_LOOKUP, ", same=True))
names.append("RangeInclusive_ser_tie")
out.append(@@@
/-- all tuple value-level ties as one statement -/
def TupleValueTies : Prop :=
  @@@ + " ∧\n  ".join(f"type_of% @{x}" for x in names) + @@@

theorem tupleValueTies : TupleValueTies :=
  ⟨@@@ + ", ".join(f"@{x}" for x in names) + @@@⟩

end MiniconfVerif.GenTie
@@@)
open(os.path.join(os.path.dirname(__file__), "..", "lean", "MiniconfVerif", "Lemmas", "GenTieTuples.lean"), "w").write("".join(out))

'''
if __name__ == "__main__":
    exec(MAIN.replace('@@@', "'''"))
