# Sourced by the tools that try a seeded change on /repo (try_mutation.sh, run_seeded*.sh).
# /repo must never be left carrying a seeded change: an interrupted run once did exactly that (DESIGN.md §12), and the
# change was then taken for part of the tree.  So: a marker names the patch while it is applied, the tree is restored on
# every exit path a shell can see (EXIT, INT, TERM, HUP), and the tools refuse to start on a tree that is not clean.
REPO_MARKER=/verif/work/REPO_PATCHED

repo_restore() {
  if [ -f "$REPO_MARKER" ]; then
    git -C /repo apply -R "$(cat "$REPO_MARKER")" 2>/dev/null || git -C /repo checkout -- .
    git -C /repo clean -fdq py 2>/dev/null
    rm -f "$REPO_MARKER"
  fi
}

repo_require_clean() {
  if [ -f "$REPO_MARKER" ]; then
    echo "an earlier run was interrupted with $(cat "$REPO_MARKER") applied to /repo: restoring" >&2
    repo_restore
  fi
  if [ -n "$(git -C /repo status --short)" ]; then
    echo "/repo has uncommitted changes: refusing to apply a seeded change on top of them" >&2
    git -C /repo status --short >&2
    exit 2
  fi
}

repo_apply() {  # $1: absolute path of the patch
  mkdir -p /verif/work
  echo "$1" > "$REPO_MARKER"
  if ! git -C /repo apply "$1" 2>/dev/null; then rm -f "$REPO_MARKER"; return 1; fi
}

trap 'repo_restore' EXIT
trap 'repo_restore; exit 130' INT TERM HUP
