#!/bin/sh
# Apply every saved seeded change to /repo in turn, run the check of the property it was written against
# (quick tier, evidence redirected), restore the tree.  Prints one line per change.
cd /verif
. /verif/tools/repo_patch.sh
repo_require_clean
mkdir -p work/mut-evidence
export VERIF_EVIDENCE_DIR=/verif/work/mut-evidence
for d in seeded/*/mutation_*; do
  p=$(basename $(dirname $d))
  if ! repo_apply "/verif/$d/patch.diff"; then echo "$d: PATCH-DOES-NOT-APPLY"; continue; fi
  out=$(./check "$p" --tier quick 2>&1 | grep -E "^(VIOLATION|OK)" | tail -1)
  repo_restore
  case "$out" in VIOLATION*) echo "$d: caught ($out)";; *) echo "$d: MISSED ($out)";; esac
done
git -C /repo status --short
echo seeded-done
