#!/bin/sh
# usage: tools/run_seeded_subset.sh <max batch> <Cxx>... — like run_seeded.sh, for the saved changes of the given properties
# whose origin batch is at most <max batch> (the later ones were tried when they were saved)
cd /verif
. /verif/tools/repo_patch.sh
repo_require_clean
mkdir -p work/mut-evidence
export VERIF_EVIDENCE_DIR=/verif/work/mut-evidence
maxb="$1"; shift
for p in "$@"; do
  for d in seeded/$p/mutation_*; do
    b=$(python3 -c "import json,re,sys; m=json.load(open('$d/meta.json')); r=re.search(r'batch (\d+)', m.get('origin','')); print(r.group(1) if r else 0)" 2>/dev/null)
    [ "$b" -le "$maxb" ] || continue
    if ! repo_apply "/verif/$d/patch.diff"; then echo "$d: PATCH-DOES-NOT-APPLY"; continue; fi
    out=$(./check "$p" --tier quick 2>&1 | grep -E "^(VIOLATION|OK)" | tail -1)
    repo_restore
    case "$out" in VIOLATION*) echo "$d: caught ($out)";; *) echo "$d: MISSED ($out)";; esac
  done
done
git -C /repo status --short
echo seeded-done
