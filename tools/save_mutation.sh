#!/bin/bash
# usage: tools/save_mutation.sh <src dir with patch.diff demo.* meta.json> <Cxx> <k> "<caught by>" [confirm log]
# copies a confirmed seeded change into seeded/<Cxx>/mutation_<k>/ with the meta.json this repository uses
src="$1"; p="$2"; k="$3"; caught="$4"; clog="${5:-}"
d=/verif/seeded/$p/mutation_$k
if [ -e "$d" ]; then echo "refusing to overwrite $d" >&2; exit 2; fi
mkdir -p "$d"
cp "$src/patch.diff" "$d/"
for f in demo.rs demo.py notes.md; do [ -f "$src/$f" ] && cp "$src/$f" "$d/"; done
[ -d "$src/stubs" ] && cp -r "$src/stubs" "$d/"
find "$d" -name __pycache__ -prune -exec rm -rf {} + 2>/dev/null
if [ -n "$clog" ] && [ -f "$clog" ]; then cp "$clog" "$d/confirm.txt"; elif [ -f "$src/confirm.txt" ]; then cp "$src/confirm.txt" "$d/confirm.txt"; fi
python3 - "$src/meta.json" "$d/meta.json" "$p" "$caught" <<'PY'
import json, sys
src, dst, p, caught = sys.argv[1:5]
m = json.load(open(src))
out = {
    "property": p,
    "change": m.get("change", ""),
    "needs_to_manifest": m.get("needs_to_manifest", ""),
    "files": m.get("files", []),
    "confirmed": "in a scratch worktree: suite passes with the patch (74 result lines + the network doctest failing as on baseline), demo passes without and fails with the patch (confirm.txt)",
    "ran": f"tools/try_mutation.sh seeded/{p}/{dst.split('/')[-2]}/patch.diff {p}",
    "caught_by": caught,
    "origin": "independent sub-agent given only the property text and a scratch worktree (batch " + __import__("os").environ.get("BATCH", "4") + ")",
}
json.dump(out, open(dst, "w"), indent=1, ensure_ascii=False)
PY
echo saved $d
