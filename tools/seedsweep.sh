#!/bin/sh
# run every claimed check with several seeds; print anything that is not OK
cd /verif
for s in "$@"; do
  for p in $(python3 -c "import json; print(' '.join(c['property_id'] for c in json.load(open('MANIFEST.json'))['checks']))"); do
    out=$(VERIF_SEED=$s ./check $p --tier quick 2>&1 | grep -E "^(VIOLATION|OK)" | tail -1)
    case "$out" in OK*) ;; *) echo "seed=$s $p: $out";; esac
  done
done
echo sweep-done
