#!/bin/sh
# usage: tools/try_mutation.sh <patch.diff> <Cxx> [more Cxx...] — apply to /repo, run quick checks, undo
patch="$1"; shift
git -C /repo apply "$patch" || exit 2
mkdir -p /verif/work/mut-evidence
export VERIF_EVIDENCE_DIR=/verif/work/mut-evidence
for p in "$@"; do
  /verif/check "$p" --tier quick 2>&1 | grep -E "^(VIOLATION|OK|KNOWN)" | head -3
done
git -C /repo checkout -- .
git -C /repo status --short
