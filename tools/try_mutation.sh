#!/bin/sh
# usage: tools/try_mutation.sh </absolute/patch.diff> <Cxx> [more Cxx...] — apply to /repo, run quick checks, undo
. /verif/tools/repo_patch.sh
patch="$1"; shift
repo_require_clean
repo_apply "$patch" || { echo "patch does not apply"; exit 2; }
mkdir -p /verif/work/mut-evidence
export VERIF_EVIDENCE_DIR=/verif/work/mut-evidence
for p in "$@"; do
  /verif/check "$p" --tier quick 2>&1 | grep -E "^(VIOLATION|OK|KNOWN)" | head -3
done
repo_restore
git -C /repo status --short
